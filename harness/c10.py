"""C10 — every model and array survives every serialisation encoding.

correspondence: generated payload trees -> implementation (qcelemental.util.serialize/deserialize) and the Lean
driver; msgpack-ext payload bytes compared byte-for-byte, json-ext compared after JSON parsing, decoded trees and
decode-error classes compared; dispatch tables re-extracted from the source by `ast` on every run.
oracle: the property stated directly on the implementation (independent of the model).
"""
from __future__ import annotations

import ast
import contextlib
import copy
import io
import json
import os
import struct
import tempfile
import warnings
from pathlib import Path

import numpy as np

import common
import c10_extra
import c10_src
from common import Ctx, Finding, Outcome

PROPERTY = "C10"
LEAN_TARGETS = ["QcelVerif.Props.C10", "QcelVerif.Props.C10Msgpack", "QcelVerif.Props.C10Text", "QcelVerif.Props.C10Kwargs", "QcelVerif.Model.SerializeAst", "QcelVerif.Model.SerializeSrc", "QcelVerif.Props.C10Src", "QcelVerif.Driver.C10"]
DRIVER = "QcelVerif/Driver/C10.lean"
THEOREMS = [
    ("QcelVerif.Ser.unhex_hex", "unhex (hex bs) = some bs for every byte string (json-ext data field)"),
    ("QcelVerif.Ser.beNat_beBytes", "k-byte big-endian encode/decode of any n < 256^k is the identity (all msgpack length/int fields)"),
    ("QcelVerif.Ser.msgpack_roundtrip_partial", "(superseded by msgpack_roundtrip) fixed-width fields read back exactly; positive fixints decode to themselves; the hook restores any well-formed array"),
    ("QcelVerif.Ser.mpDec_mpEnc_prefix", "decoding mpEnc v ++ rest with enough fuel returns (v, rest), for every well-formed value tree (mutual structural induction, all 28 head forms)"),
    ("QcelVerif.Ser.msgpack_roundtrip", "FULL byte-stream round trip: mpDecode (mpEnc v) = ok v for every well-formed value tree (arrays at any depth come back as the same dtype/shape/bytes)"),
    ("QcelVerif.Ser.reserialise_identical", "serialising what was read back gives the identical payload"),
    ("QcelVerif.Ser.hook_keeps_map_iff", "the object hook leaves a map alone iff it has no bytes key _nd_ (the side condition of the round trip is necessary and sufficient)"),
    ("QcelVerif.Ser.ext_envelope_roundtrip_msgpack", "msgpackext_decode of the envelope of a well-formed rank>=1 array (any dtype/shape incl. zero extents) gives back dtype, shape and bytes"),
    ("QcelVerif.Ser.ext_envelope_roundtrip_json", "jsonext_decode of the json-ext envelope (hex data) of a well-formed rank>=1 array gives back dtype, shape and bytes"),
    ("QcelVerif.Ser.jsonext_roundtrip", "jxDec (jxEnc v) = ok v for every value tree with well-formed array leaves at any nesting depth and no user '_nd_' key (json-ext, value level)"),
    ("QcelVerif.Ser.flat_reshape_roundtrip", "reshapeRows n m (ravel rows) = some rows for every n x m row list (the (N,3), (3N,3N), (nbf,nbf), (3,3) validators)"),
    ("QcelVerif.Ser.flat_reshape_refuses", "a flat list whose length is not n*m is refused by the reshape (validators raise instead of repairing)"),
    ("QcelVerif.Ser.auto_decoder_reads_writer", "str->json and bytes->msgpack-ext: the automatically chosen reader reads what the named writer wrote, and msgpack too"),
    ("QcelVerif.Ser.explicit_reader_reads_writer", "for each of the 4 encodings, parse_raw(encoding=e) runs a reader that reads what serialize(e) wrote"),
    ("QcelVerif.Ser.suffix_reader_reads_writer", "for every suffix both Molecule.to_file and a reader map, the reader reads the writer's encoding (tables extracted from source)"),
    ("QcelVerif.Ser.tables_match_source", "the model's dispatch tables equal the tables extracted from the working tree by ast"),
    ("QcelVerif.Ser.jsonext_text_not_read_by_auto", "boundary (negative): a json-ext str payload is NOT read by the automatic str->json choice"),
    ("QcelVerif.Ser.json_text_prefix", "JSON text: parsing (text of v ++ rest) with enough fuel returns exactly (v, rest), for every JSON tree whose floats satisfy the per-value codec hypothesis floatOk and every rest that cannot continue a number token"),
    ("QcelVerif.Ser.json_text_roundtrip", "JSON text: jsonParse (jsonPrint v) = ok v for every JSON tree (any depth/width, unbounded ints, strings over all Unicode scalar values with every escape class of ensure_ascii json.dumps, NaN/Infinity/-Infinity, finite floats under floatOk)"),
    ("QcelVerif.Ser.json_text_roundtrip_ws", "the reader ignores any JSON whitespace before and after the document"),
    ("QcelVerif.Ser.jsonPrint_injective", "the JSON printer is injective: two trees (floats under floatOk) with the same text are equal"),
    ("QcelVerif.Ser.utf8Dec_utf8Enc", "UTF-8 decode (encode cs) = some cs for every character list (Lean core's codec; str payload bytes <-> JSON characters)"),
    ("QcelVerif.Ser.ofJ_toJ", "a payload tree that has a JSON tree (str keys, valid UTF-8, no bytes/ndarray) is recovered exactly from it"),
    ("QcelVerif.Ser.jsonext_text_roundtrip", "json-ext at TEXT level: deserialize_jsonext (serialize_jsonext v) = ok v — characters written and read back, every ndarray leaf at any depth restored with dtype, shape and bytes"),
    ("QcelVerif.Ser.json_text_reserialise_identical", "json-ext at TEXT level: serialising what was read back gives the identical text"),
    ("QcelVerif.Ser.json_hookless_text_roundtrip", "pydantic's plain json.loads (parse_raw(encoding='json')) reads a JSON-native payload tree back from its text"),
    ("QcelVerif.Ser.flat_elems_ravel", "flat encodings: the element list of an array whose buffer is the concatenation of its rows' element blocks is the ravel of the rows (row-major order)"),
    ("QcelVerif.Ser.flat_nd_emits_list", "flat encodings: an ndarray leaf is handed on as the list of its elements in buffer order"),
    ("QcelVerif.Ser.flat_reshape_composes", "a flat list of n*m elements reshapes to n rows of m whose ravel is the list again (with flat_reshape_roundtrip: ravel and reshape are mutually inverse)"),
    ("QcelVerif.Ser.flat_json_text_roundtrip", "plain json at TEXT level: what the flat encoder hands on is written and read back character by character"),
    ("QcelVerif.Ser.flat_json_array_restored", "plain json: an (n,m) ndarray goes out as the text of its flat element list, comes back as that list, and reshape(n,m) gives rows whose ravel is the list"),
    ("QcelVerif.Ser.flat_msgpack_roundtrip", "plain msgpack at BYTE level: the flat tree is written and read back byte by byte"),
    ("QcelVerif.Ser.flat_msgpack_array_restored", "plain msgpack: an (n,m) ndarray goes out as the bytes of its flat element list, comes back as that list, and reshape(n,m) restores the rows"),
    ("QcelVerif.Ser.codec_calls_match_source", "every json./msgpack. call of util/serialization.py has exactly the callee, arity and keyword arguments the models assume (json.dumps: cls only; msgpack: default/use_bin_type=True; loads: object_hook, raw=False), the two JSON encoder classes ravel / build the _nd_ envelope, and ProtoModel.Config sets no json_loads/json_dumps — re-read from the source by ast on every run"),
    ("QcelVerif.Ser.Src.msgpackext_encode_src", "msgpackext_encode AS TRANSLATED FROM THE SOURCE, on any ndarray of rank >= 1, returns exactly the hand model's envelope (bytes keys _nd_, dtype, data in that order; shape appended iff rank > 1)"),
    ("QcelVerif.Ser.Src.msgpackext_encode_src_rank0", 'source-derived msgpackext_encode on a rank-0 array builds no envelope: it returns obj.tolist() (decay to the scalar)'),
    ("QcelVerif.Ser.Src.msgpackext_encode_src_other", 'source-derived msgpackext_encode returns every non-ndarray value unchanged (the `return obj` fall-through after the pydantic guard)'),
    ("QcelVerif.Ser.Src.jsonext_default_src", "JSONExtArrayEncoder.default as translated from the source returns exactly the hand model's json-ext envelope (str keys, hex data, shape iff rank > 1) on any ndarray of rank >= 1"),
    ("QcelVerif.Ser.Src.jsonext_default_src_rank0", 'source-derived JSONExtArrayEncoder.default on a rank-0 array returns obj.tolist()'),
    ("QcelVerif.Ser.Src.jsonext_default_src_other", 'source-derived JSONExtArrayEncoder.default refuses (TypeError) every non-ndarray leaf'),
    ("QcelVerif.Ser.Src.json_flat_default_src", "JSONArrayEncoder.default as translated from the source hands an ndarray of rank >= 1 on as ravel().tolist(): the hand model's flat element list in buffer order"),
    ("QcelVerif.Ser.Src.msgpack_flat_encode_src", 'msgpack_encode as translated from the source does the same (ravel().tolist())'),
    ("QcelVerif.Ser.Src.msgpackext_decode_src", "msgpackext_decode as translated from the source equals the hand model's mpHook on EVERY decoded map (same array, same refusals, same error class)"),
    ("QcelVerif.Ser.Src.jsonext_decode_src", "jsonext_decode as translated from the source equals the hand model's jxHook on every parsed object outside one evaluation-order corner (a bad `data` together with a missing `dtype`, where only the error class differs)"),
    ("QcelVerif.Ser.Src.jsonext_decode_src_ok", "whenever the hand model's jxHook accepts an object the source-derived jsonext_decode returns the same array (no side condition)"),
    ("QcelVerif.Ser.Src.jsonext_tree_src", 'whole trees: json.dumps(cls=JSONExtArrayEncoder) with the source-derived default is handed exactly jxEnc v (arrays of rank >= 1 at any depth)'),
    ("QcelVerif.Ser.Src.json_flat_tree_src", 'whole trees: json.dumps(cls=JSONArrayEncoder) with the source-derived default is handed exactly flatEnc v (or both refuse an element kind outside the flat model)'),
    ("QcelVerif.Ser.Src.msgpack_flat_tree_src", 'whole trees: msgpack.dumps(default=msgpack_encode) with the source-derived hook is handed exactly flatEnc v'),
    ("QcelVerif.Ser.Src.msgpackext_tree_src", 'whole trees: msgpack.dumps(default=msgpackext_encode) with the source-derived hook is handed the tree with every ndarray leaf replaced by its envelope'),
    ("QcelVerif.Ser.Src.mpEnc_mxEnc", "the bytes of that enveloped tree are the hand model's mpEnc v, for every tree"),
    ("QcelVerif.Ser.Src.decW_jx_ok", "whatever the hand model's jxDec reads from a parsed JSON tree, json.loads(object_hook=<source-derived jsonext_decode>) reads the same"),
    ("QcelVerif.Ser.Src.mpDecodeSrc_eq", "msgpack.loads(object_hook=<source-derived msgpackext_decode>) equals the hand model's mpDecode on EVERY byte string (decoder parameterised by the hook, proved equal at mpHook)"),
    ("QcelVerif.Ser.Src.serialize_dispatch_src", "serialize's dispatch as translated from the source, for EVERY encoding string: the arm taken is that of the ASCII-lower-cased name among json / json-ext / msgpack / msgpack-ext, each calling its own *_dumps on data; anything else raises KeyError"),
    ("QcelVerif.Ser.Src.deserialize_dispatch_src", "deserialize's dispatch as translated from the source, for every encoding string and blob: arm, isinstance assertion on the blob, callee *_loads; anything else KeyError"),
    ("QcelVerif.Ser.Src.encodeSrc_eq", "serialize end to end from the source (dispatch -> wrapper -> keyword arguments -> hook body -> walker), for every encoding string and every tree with arrays of rank >= 1: the native writer chosen and the tree it is handed are the hand model's"),
    ("QcelVerif.Ser.Src.readerSrc_eq", 'deserialize end to end from the source: for every encoding string and blob, the native reader and the object hook it is given (json, json-ext -> json.loads + jsonext_decode; msgpack, msgpack-ext -> msgpack.loads + msgpackext_decode)'),
    ("QcelVerif.Ser.Src.deserialize_reads_serialize_src", 'for each of the four encodings (any letter case) the reader family deserialize runs, read from the source, is one that reads what serialize of that encoding wrote'),
    ("QcelVerif.Ser.Src.ext_envelope_roundtrip_msgpack_src", 'headline restated: source-derived msgpackext_decode(source-derived msgpackext_encode(a)) = a (dtype, shape, bytes) for every well-formed array of rank >= 1, zero extents included'),
    ("QcelVerif.Ser.Src.ext_envelope_roundtrip_json_src", 'headline restated: source-derived jsonext_decode(source-derived JSONExtArrayEncoder.default(a)) = a'),
    ("QcelVerif.Ser.Src.jsonext_roundtrip_src", 'headline restated: json-ext round trip over whole trees with encoder and object hook both from the source'),
    ("QcelVerif.Ser.Src.jsonext_reserialise_identical_src", 'headline restated: json-ext identical re-serialisation with the source-derived encoder / hook'),
    ("QcelVerif.Ser.Src.msgpack_roundtrip_src", "headline restated: msgpack-ext byte-stream round trip with encoder, object hook and reader from the source: the bytes written are the hand model's and are read back to v"),
    ("QcelVerif.Ser.Src.msgpack_reserialise_identical_src", 'headline restated: msgpack-ext identical re-serialisation with the source-derived functions'),
    ("QcelVerif.Ser.Src.jsonext_decode_src_full", "jsonext_decode as translated from the source equals, on EVERY parsed object (no side condition), the order-explicit hook jxHookOrd (bytes.fromhex(obj['data']) evaluated before obj['dtype'] is looked up)"),
    ("QcelVerif.Ser.Src.jxHookOrd_ok_iff", "the order-explicit hook and the hand model's jxHook accept exactly the same objects with the same result (they differ only in the error class of the corrupted-envelope corner)"),
    ("QcelVerif.Ser.Src.jsonext_text_roundtrip_src", "headline restated at TEXT level: serialize(v, 'json-ext') with dispatch, wrapper, encoder class and default body from the source, printed by the model's json.dumps, is read back to v by the model's json.loads running the source-derived jsonext_decode"),
    ("QcelVerif.Ser.Src.json_text_reserialise_identical_src", 'headline restated at TEXT level: identical re-serialisation (json-ext) with the source-derived pipeline'),
]
TRUSTED_BASE = [
    "Lean 4.33 kernel; axioms per theorem audited on every run (subset of propext, Classical.choice, Quot.sound)",
    "hand-written model Model/Serialize.lean of serialization.py:23-152,193-206,247-273,319-377, tied by byte-for-byte correspondence on the generated stream AND (new) proved equal, for all inputs, to the functions regenerated from the source: every function body and both encoder classes' default methods of util/serialization.py are translated on every run (harness/c10_src.py, python ast -> Gen/SerializeSrc.lean, terms of Model/SerializeAst.lean; unknown constructs make the translator raise) and evaluated by Model/SerializeSrc.lean",
    "what the evaluator takes as PRIMITIVES (stated, not derived): x.shape, x.dtype.str, np.ascontiguousarray, .tobytes(), .hex(), bytes.fromhex, np.frombuffer, arr.shape = ..., .ravel(), .tolist() (element decoding = the flat model's elemsOf), len, ASCII str.lower, ==, in, >, isinstance, truthiness, dict item assignment appending a new key; pydantic_encoder(x) and json.JSONEncoder.default(self, x) raise TypeError on every value tree (nothing pydantic knows survives .dict()); json.dumps(cls=)/msgpack.dumps(default=) walk containers and hand non-native leaves to the hook, *.loads(object_hook=) applies the hook bottom-up to every completed map (walkD / decW / mpDecW)",
    "harness/c10_src.py (the ast translator) and the evaluator's reading of Python statement order are trusted as written; they are exercised three-way (implementation | hand model | source-derived) on every generated line",
    "hand-written model Model/JsonText.lean of CPython's json.dumps (default separators, ensure_ascii, allow_nan) / json.loads (strict) and of the flat encoders' ravel().tolist(): tied by byte-for-byte comparison of the TEXT the model prints with serialize(..., 'json'|'json-ext') and of the tree the model's parser reads from the implementation's text, on every generated payload",
    "float printing/parsing (float.__repr__, float()) is a PARAMETER of the text theorems (FloatCodec); they need only floatOk(codec, x) for the floats x that occur, which the driver evaluates for every float it prints with the concrete shortest-repr / correctly-rounded-parse codec of Model/JsonFloat.lean (nothing is proved about that codec; a wrong digit shows as a text mismatch)",
    "UTF-8 is Lean core's String codec (round trip proved in core, used as a theorem)",
    "msgpack C extension (Packer shortest-form rule, Unpacker) and the CPython json module itself are third-party: modelled and checked on everything generated, not verified",
    "numpy ascontiguousarray/tobytes/frombuffer/reshape semantics folded into the model as byte lists and shape products",
    "pydantic validation of model instances is outside the Lean model: instance equality is differential only (Python oracle)",
    "harness/c10.py + harness/c10_extra.py generators, the ast table / keyword-argument extractor and the Python oracle",
]
ASSUMPTIONS = [
    "the encoding-string dispatch is modelled for ASCII spellings (str.lower on non-ASCII letters such as U+212A KELVIN SIGN is outside the model); only the four names as the property spells them are DEMANDED by the oracle, other spellings are a model/implementation tie",
    "source-derived jsonext_decode vs the hand model: equal on every object except a corrupted envelope whose 'data' is not a hex string AND whose 'dtype' is missing, where Python's evaluation order raises the buffer error before the KeyError (the hand model says KeyData; both refuse); for that corner the source-derived hook is proved equal to the order-explicit jxHookOrd, and the harness compares the implementation with the SOURCE-DERIVED side only (block order-corner); it is not generated in the hand-model tie",
    "payload dict keys are str (int keys are rejected by msgpack strict_map_key and stringified by json) and no user dict contains the key '_nd_' (the object hooks treat any such dict as an array envelope)",
    "integers within msgpack range [-2^63, 2^64); bare non-finite Python floats (+inf, -inf, NaN) ARE generated, at any depth of raw payloads and in every model field whose validation admits them (keywords/extras dicts, AtomicResult.return_result and properties, wavefunction matrices, OptimizationResult.energies, AlignmentMill.shift/rotation, BasisSet exponents/coefficients), under all four encodings: +-inf must come back == and of type float; NaN must come back as a float NaN (isnan on both sides; bit patterns of NaN are compared only inside ndarray bytes under the -ext encodings) and the second serialisation must be the identical payload; non-finite Molecule geometry is not generated (masses, charges and bond orders are rejected by validation)",
    "raw ndarrays nested in containers are demanded only for the two -ext encodings (the flat encodings ravel by design); rank-0 arrays decay to scalars and are checked for value only",
    "decoded arrays are read-only views (np.frombuffer); writeability is not part of the property",
    "auto-encoding/suffix clauses are demanded for the writer the property names (str<->json, bytes<->msgpack-ext, suffix writer<->suffix reader); json-ext text through the str->json default is modelled and checked as a rejecting cell, not demanded",
    "pickle and the non-serialisation Molecule formats (xyz, psi4, numpy) are outside this property",
    "JSON text model: str ranges over Unicode scalar values — lone surrogates (which a Python str can hold and json writes as \\udXXX) are outside it (the model's parser reports LoneSurrogate); a text with duplicate object keys is kept as pairs by the model while Python keeps the last (the writers never produce one); bytes leaves have no JSON form and are not sent through the text tie",
    "the text tie runs on payloads whose strings / arrays have at most 20000 characters / elements (the interpreted driver recurses per character) and whose bare NaNs are the canonical float('nan') (the token NaN carries no payload bits; a non-canonical bare NaN is reported by the model as float-hyp); the flat encodings' element decoding is modelled for float64, (u)int8..64 and bool arrays in either byte order and for empty arrays of any dtype — f2/f4/complex/U/S arrays under plain json/msgpack are outside the flat model (the property demands raw arrays only for the -ext encodings)",
    "Molecule instances are the validated ones (validated=True: any validating construction, geometry_noise/orient options, scramble/align/from_data results); a molecule built with validate=False and never validated is re-validated, hence normalised, by the parser by design and is not generated",
]
RULE = (
    "arrays: dtype in {f2,f4,f8,>f4,>f8,i1..i8,>i2..>i8,u1..u8,bool,c8,c16,>c16,U1-4,>U2,S1-4} x rank 1-4 x extents 0-5 x layout "
    "{C,F,strided,reversed,transposed,broadcast} with random bytes, placed at nesting depth 0-3 in dict/list/tuple payloads beside "
    "scalars drawn from the msgpack width boundaries (ints around 2^7,2^8,2^15,2^16,2^31,2^32,2^63,2^64; str/bin lengths 0,31,32,255,256,65535,65536; "
    "containers of 15/16/300 (5000 in thorough) entries); corrupted envelopes for the error branches; model instances of Molecule, AtomicInput, AtomicResult "
    "(energy/gradient/hessian/properties drivers, properties arrays, wavefunction), OptimizationInput/Result, BasisSet, AlignmentMill x 4 encodings x "
    "include/exclude/exclude_none options; a second family of the molecule-carrying models (Molecule, AtomicInput, AtomicResult, OptimizationInput/Result "
    "with distinct molecules in initial/final/trajectory slots) whose molecules keep MORE digits than the default construction-time clean-up leaves "
    "(geometry beyond 8 decimals: constructor option geometry_noise in 9..16 with and without orient=True, Molecule.scramble() with drawn "
    "shift/rotation/permutation/mirror, Molecule.align() onto such a reference; coordinates of magnitude 1e-13..4e-7, molecular charges with 5-12 decimals, "
    "explicit full-precision masses), compared exactly field by field and payload by payload; files by suffix; the full auto/suffix/reader tables. "
    "TEXT tie on every payload without bytes leaves: the model prints the json-ext TEXT, the plain-json TEXT and the plain-msgpack BYTES (each compared "
    "byte-for-byte with serialize()), and the model's JSON parser reads the implementation's json-ext text, the same document re-laid out by "
    "json.dumps(indent=1, ensure_ascii=False) (whitespace, raw non-ASCII) and the plain json text (compared with deserialize()/json.loads as trees); strings "
    "there carry quotes, backslashes, newlines, non-ASCII BMP characters, keys of 1-32 characters, empty strings/containers, floats from the whole "
    "finite double range incl. subnormals and the largest double, ±inf. "
    "Oracle-only streams (harness/c10_extra.py, never sent to the Lean driver): (sizes) str / utf-8 bytes / bin (array data) / list / map / list-of-lists of "
    "n in {15,16,17,31,32,33,255,256,257,65535,65536,65537} elements or bytes, raw and inside AtomicInput.keywords, AtomicResult.stdout/extras/wavefunction eigenvalues, "
    "AlignmentMill.atommap and an n-atom Molecule, x 4 encodings; single items just above 2^20 and 2^24 bytes (str, utf-8 str, bin = array data, float64 array data, a map of 2^20+1 keys), raw and "
    "inside AtomicResult.stdout/extras/eigenvalues/return_result; one float64 array of 134.48e6 bytes (> 2^27 > 100 MiB) from a drawn PCG64 seed through 'msgpack' and "
    "'msgpack-ext', raw (nested at depth 3) and inside AtomicResult.return_result (gradient, shape restored by the validator) and AtomicResult.extras, with parse_raw's explicit and "
    "automatic choice; thorough tier also one raw msgpack-ext payload above 2^31 bytes when 24 GiB are available; (non-finite) bare +inf/-inf/NaN floats at depth 0-3 of raw "
    "payloads, as dict values and beside arrays, float/complex arrays of every float dtype x layout with non-finite elements, x 4 encodings (flat encodings: the ravelled list, value "
    "for value); instances of all seven models with non-finite values injected into the fields whose validation admits them x 4 encodings + automatic choice + "
    "parse_file(.json/.js/.msgpack) + Molecule.to_file/from_file. THREE-WAY: every mp/mpd/jx/jxd/jt/jtd-hook/mpf line above is answered by the driver as "
    "<hand model> || <source-derived> (the evaluator run on the term regenerated from util/serialization.py) and the two must be identical; dispatch block: "
    "serialize/deserialize called with 20 fixed spellings of the encoding string (the four names, upper/mixed case, underscores, blanks, prefixes, unknown names, the empty string) plus "
    "random case variants, str and bytes blobs, compared with the hand model and the source-derived dispatch; corrupted json-ext envelopes with a non-hex `data` and no `dtype` (evaluation-order corner) compared with the source-derived hook. A case is distinct by (block, dtype, shape, layout, depth, "
    "encoding) or (model, encoding, options, field-shape signature) or (dispatch, spelling) and non-trivial when it carries an array that is not a C-contiguous little-endian "
    "float64 vector, a boundary-width scalar, an error branch, or a model instance with at least one multi-dimensional array field."
)
LEVEL_TEXT = (
    "proof, partial. Proved for all inputs: hex round trip, every fixed-width msgpack field, both ndarray envelopes (any dtype/shape/bytes, "
    "zero extents included), the json-ext round trip over whole payload trees with arrays at any depth, the FULL msgpack byte-stream round trip "
    "mpDecode (mpEnc v) = ok v over whole trees and identical re-serialisation (msgpack_roundtrip, reserialise_identical), flat reshape round trip "
    "and refusal, and the dispatch tables (re-extracted from the source on every run). The JSON TEXT layer is now modelled and proved: "
    "jsonParse (jsonPrint v) = ok v at character level for every tree (strings over all Unicode scalar values with every escape class, unbounded ints, "
    "NaN/±Infinity, any depth), printer injectivity, whitespace tolerance around a document, and the composed text/byte-level statements "
    "jsonext_text_roundtrip, json_text_reserialise_identical, the plain-json and plain-msgpack round trips with arrays emitted as row-major flat "
    "lists and ravel/reshape mutually inverse; the keyword arguments of the json./msgpack. calls are re-read from the source and proved equal to what "
    "the models assume. NEW: the encoder/decoder LOGIC itself is regenerated from the source on every run (all 14 functions and both encoder classes of "
    "util/serialization.py translated by ast into a small statement/expression AST, evaluated on the model's own value trees) and PROVED equal to the hand model for all "
    "inputs: the four default hooks on every ndarray (envelope keys, key kind, key ORDER, shape iff rank > 1, rank-0 decay, ravel().tolist(), fall-through), both object hooks on "
    "every map (msgpackext_decode without exception; jsonext_decode outside one evaluation-order corner of corrupted envelopes where only the error class differs), whole trees "
    "through the walkers, the msgpack byte reader parameterised by the hook, the serialize/deserialize dispatch for every encoding string, the wrappers' callees and keyword "
    "arguments, and the round-trip / identical-re-serialisation headline theorems restated over the source-derived functions; the driver answers three-way. "
    "What that does NOT cover: numpy/bytes/pydantic primitives and the third-party walkers are stated semantics (see trusted base), the translator itself is trusted. Still partial: (1) float.__repr__/float() are a parameter of the text theorems — the hypothesis floatOk is evaluated per float "
    "by the driver with a concrete codec that is itself only checked differentially (byte-for-byte against json.dumps on every generated float); "
    "(2) CPython's json module and the msgpack C extension are tied to the models byte-for-byte on everything generated, not verified; lone "
    "surrogates in str and the flat element decoding of f2/f4/complex/U/S arrays are outside the text model; (3) instance equality through pydantic "
    "validation is differential only (Python oracle, incl. payloads above 100 MiB and non-finite floats in every field that admits them)."
)
TECHNIQUE = "source -> AST translation of util/serialization.py with an evaluator proved equal to the hand model + Lean 4 structural-induction proofs of codec round trips (msgpack bytes, JSON text) + decide over source-extracted tables and keyword arguments + byte-for-byte differential correspondence"

ENCODINGS = ["json", "json-ext", "msgpack", "msgpack-ext"]
EXT = ["json-ext", "msgpack-ext"]

# ----------------------------------------------------------------------------------------------------------------
# translator: dispatch tables from the source (ast), emitted as Lean


def _src(rel):
    return (common.REPO / rel).read_text()


def extract_tables():
    """Read the dispatch tables from the working tree. Raises if the source no longer has the expected shape."""
    base = ast.parse(_src("qcelemental/models/basemodels.py"))
    mol = ast.parse(_src("qcelemental/models/molecule.py"))
    ser = ast.parse(_src("qcelemental/util/serialization.py"))
    t = {}

    def find_func(tree, name):
        for n in ast.walk(tree):
            if isinstance(n, ast.FunctionDef) and n.name == name:
                return n
        raise ValueError(f"function {name} not found")

    # parse_raw: isinstance(data, str) -> "json"; bytes -> "msgpack-ext"
    pr = find_func(base, "parse_raw")
    auto = {}
    for n in ast.walk(pr):
        if isinstance(n, ast.If) and isinstance(n.test, ast.Call) and getattr(n.test.func, "id", "") == "isinstance":
            ty = n.test.args[1].id
            for s in n.body:
                if isinstance(s, ast.Assign) and getattr(s.targets[0], "id", "") == "encoding":
                    auto[ty] = s.value.value
    t["auto"] = auto
    # parse_raw: which explicit encodings go to pydantic's parser (endswith tuple) and which to deserialize()
    pyd_suffixes, deser_list = [], []
    for n in ast.walk(pr):
        if isinstance(n, ast.Call) and isinstance(n.func, ast.Attribute) and n.func.attr == "endswith":
            pyd_suffixes = [e.value for e in n.args[0].elts]
        if isinstance(n, ast.Compare) and isinstance(n.ops[0], ast.In) and getattr(n.left, "id", "") == "encoding" and isinstance(n.comparators[0], ast.List):
            deser_list = [e.value for e in n.comparators[0].elts]
    t["pyd_suffixes"], t["deser_list"] = pyd_suffixes, deser_list
    # parse_file: suffix lists -> encoding
    pf = find_func(base, "parse_file")
    psuf = {}
    for n in ast.walk(pf):
        if isinstance(n, ast.If) and isinstance(n.test, ast.Compare) and isinstance(n.test.ops[0], ast.In) and isinstance(n.test.comparators[0], ast.List):
            for s in n.body:
                if isinstance(s, ast.Assign) and getattr(s.targets[0], "id", "") == "encoding":
                    for e in n.test.comparators[0].elts:
                        psuf[e.value] = s.value.value
    t["parse_file_suffix"] = psuf
    # Molecule._extension_map
    for n in mol.body:
        if isinstance(n, ast.Assign) and getattr(n.targets[0], "id", "") == "_extension_map":
            t["extension_map"] = ast.literal_eval(n.value)
    if "extension_map" not in t:
        raise ValueError("_extension_map not found")
    # Molecule.from_file: dtype list -> deserialize(..., encoding=X)
    ff = find_func(mol, "from_file")
    fdec = {}
    for n in ast.walk(ff):
        if isinstance(n, ast.If) and isinstance(n.test, ast.Compare) and isinstance(n.test.ops[0], ast.In) and isinstance(n.test.comparators[0], ast.List):
            encs = [kw.value.value for c in ast.walk(ast.Module(body=n.body, type_ignores=[])) if isinstance(c, ast.Call) and getattr(c.func, "id", "") == "deserialize" for kw in c.keywords if kw.arg == "encoding"]
            if encs:
                for e in n.test.comparators[0].elts:
                    fdec[e.value] = encs[0]
    t["from_file_decoder"] = fdec
    # Molecule.to_file: dtypes written with self.serialize(dtype)
    tf = find_func(mol, "to_file")
    wr = []
    for n in ast.walk(tf):
        if isinstance(n, ast.If) and isinstance(n.test, ast.Compare) and isinstance(n.test.ops[0], ast.In) and isinstance(n.test.comparators[0], ast.List):
            if any(isinstance(c, ast.Call) and isinstance(c.func, ast.Attribute) and c.func.attr == "serialize" for c in ast.walk(ast.Module(body=n.body, type_ignores=[]))):
                wr = [e.value for e in n.test.comparators[0].elts]
    t["to_file_serialized"] = wr
    # deserialize(): encoding -> loader function ; loader -> hook
    de = find_func(ser, "deserialize")
    dmap = {}

    def enc_names(test):
        c = test.comparators[0]
        return [c.value] if isinstance(c, ast.Constant) else [e.value for e in c.elts]

    node = de.body
    for n in ast.walk(de):
        if isinstance(n, ast.If) and isinstance(n.test, ast.Compare):
            rets = [s for s in n.body if isinstance(s, ast.Return)]
            if rets and isinstance(rets[0].value, ast.Call):
                for e in enc_names(n.test):
                    dmap[e] = rets[0].value.func.id
    hooks = {}
    for fn in ("json_loads", "jsonext_loads", "msgpack_loads", "msgpackext_loads"):
        f = find_func(ser, fn)
        for n in ast.walk(f):
            if isinstance(n, ast.Call) and isinstance(n.func, ast.Attribute) and n.func.attr == "loads":
                hk = [kw.value.id for kw in n.keywords if kw.arg == "object_hook"]
                hooks[fn] = hk[0] if hk else None
    t["deserialize_reader"] = {e: hooks[f] for e, f in dmap.items()}
    # serialize(): encoding -> dumper
    se = find_func(ser, "serialize")
    smap = {}
    for n in ast.walk(se):
        if isinstance(n, ast.If) and isinstance(n.test, ast.Compare):
            rets = [s for s in n.body if isinstance(s, ast.Return)]
            if rets and isinstance(rets[0].value, ast.Call):
                for e in enc_names(n.test):
                    smap[e] = rets[0].value.func.id
    t["serialize_writer"] = smap
    # the third-party calls themselves: callee, number of positional arguments, keyword arguments (name, source text).
    # The model's text printer ASSUMES json.dumps is called with no separators / indent / ensure_ascii / allow_nan / sort_keys
    # keyword (CPython defaults) and msgpack with use_bin_type=True / raw=False and the two object hooks.
    calls = []
    for fn, attr in (("json_dumps", "dumps"), ("jsonext_dumps", "dumps"), ("msgpack_dumps", "dumps"), ("msgpackext_dumps", "dumps"),
                     ("json_loads", "loads"), ("jsonext_loads", "loads"), ("msgpack_loads", "loads"), ("msgpackext_loads", "loads")):
        f = find_func(ser, fn)
        found = [n for n in ast.walk(f) if isinstance(n, ast.Call) and isinstance(n.func, ast.Attribute) and isinstance(n.func.value, ast.Name)
                 and n.func.value.id in ("json", "msgpack")]
        if len(found) != 1:
            raise ValueError(f"{fn}: expected exactly one json./msgpack. call, found {len(found)}")
        c = found[0]
        if any(kw.arg is None for kw in c.keywords):
            raise ValueError(f"{fn}: **kwargs in the codec call")
        calls.append((fn, f"{c.func.value.id}.{c.func.attr}", len(c.args), sorted((kw.arg, ast.unparse(kw.value)) for kw in c.keywords)))
    t["codec_calls"] = calls
    # the two JSON encoder classes: base class and what `default` does with an ndarray of rank >= 1 ("ravel" flat list / "_nd_" envelope)
    encs = []
    for cname in ("JSONArrayEncoder", "JSONExtArrayEncoder"):
        cl = [n for n in ser.body if isinstance(n, ast.ClassDef) and n.name == cname]
        if len(cl) != 1:
            raise ValueError(f"class {cname} not found")
        src = ast.unparse(cl[0])
        encs.append((cname, ",".join(ast.unparse(b) for b in cl[0].bases), "ravel" if ".ravel().tolist()" in src else ("_nd_" if "'_nd_'" in src else "?")))
    t["json_encoders"] = encs
    # ProtoModel.Config: the names it sets. Reader.pydJson (parse_raw(encoding="json")) is pydantic's OWN json.loads only as
    # long as Config overrides neither json_loads nor json_dumps
    pm = [n for n in base.body if isinstance(n, ast.ClassDef) and n.name == "ProtoModel"]
    cfg = [n for n in (pm[0].body if pm else []) if isinstance(n, ast.ClassDef) and n.name == "Config"]
    if len(cfg) != 1:
        raise ValueError("ProtoModel.Config not found")
    names = []
    for n in cfg[0].body:
        if isinstance(n, ast.AnnAssign) and isinstance(n.target, ast.Name):
            names.append(n.target.id)
        elif isinstance(n, ast.Assign):
            names += [x.id for x in n.targets if isinstance(x, ast.Name)]
        elif isinstance(n, (ast.FunctionDef, ast.ClassDef)):
            names.append(n.name)
    t["proto_config"] = sorted(names)
    return t


_HOOK_READER = {"jsonext_decode": "Reader.jsonExt", "msgpackext_decode": "Reader.msgpackExt", None: "Reader.pydJson"}
_ENC_LEAN = {"json": "Enc.json", "json-ext": "Enc.jsonExt", "msgpack": "Enc.msgpack", "msgpack-ext": "Enc.msgpackExt"}
_WRITER_ENC = {"json_dumps": "json", "jsonext_dumps": "json-ext", "msgpack_dumps": "msgpack", "msgpackext_dumps": "msgpack-ext"}


def reader_for_parse_raw(t, enc):
    """reader family parse_raw runs for an explicit encoding, from the extracted tables"""
    if any(enc.endswith(s) for s in t["pyd_suffixes"]):
        return "Reader.pydJson" if enc.endswith("json") else None
    if enc in t["deser_list"] and enc in t["deserialize_reader"]:
        return _HOOK_READER[t["deserialize_reader"][enc]]
    return None


def gen_tables(ctx):
    """TRANSLATOR: lean/QcelVerif/Gen/SerTables.lean from the working tree"""
    t = extract_tables()
    L = ["import QcelVerif.Model.Serialize", "/-! GENERATED by harness/c10.py:gen_tables from qcelemental/{models/basemodels.py,models/molecule.py,util/serialization.py} — do not edit -/",
         "namespace QcelVerif.Ser.Gen", "open QcelVerif.Ser", ""]
    pyty = {"str": "PyTy.str", "bytes": "PyTy.bytes"}
    L.append("/-- parse_raw(encoding=None): payload type → encoding -/")
    L.append("def autoTable : List (PyTy × Enc) := [" + ", ".join(f"({pyty[k]}, {_ENC_LEAN[v]})" for k, v in sorted(t["auto"].items())) + "]")
    L.append("/-- parse_raw(encoding=e): encoding → reader family -/")
    rows = []
    for e in ENCODINGS:
        r = reader_for_parse_raw(t, e)
        if r is None:
            raise ValueError(f"parse_raw no longer accepts encoding {e}")
        rows.append(f"({_ENC_LEAN[e]}, {r})")
    L.append("def readerTable : List (Enc × Reader) := [" + ", ".join(rows) + "]")
    L.append("/-- serialize(): the encoding each name dispatches to -/")
    L.append("def writerTable : List (Enc × Enc) := [" + ", ".join(f"({_ENC_LEAN[e]}, {_ENC_LEAN[_WRITER_ENC[t['serialize_writer'][e]]]})" for e in ENCODINGS) + "]")
    # suffix rows: (suffix id, writer encoding via Molecule.to_file, reader via Molecule.from_file, reader via ProtoModel.parse_file)
    sufs = sorted(set(t["extension_map"]) | set(t["parse_file_suffix"]))
    L.append("/-- suffix rows restricted to the serialisation encodings: (writer enc of Molecule.to_file, reader of Molecule.from_file) -/")
    rows_mol, rows_pf = [], []
    for s in sufs:
        w = t["extension_map"].get(s)
        if w in t["to_file_serialized"] and w in _ENC_LEAN:
            fr = t["from_file_decoder"].get(w)
            if fr is None:
                raise ValueError(f"from_file has no decoder for dtype {w}")
            rows_mol.append(f"({_ENC_LEAN[w]}, {_HOOK_READER[t['deserialize_reader'][fr]]})")
            pe = t["parse_file_suffix"].get(s)
            if pe in _ENC_LEAN:
                rows_pf.append(f"({_ENC_LEAN[w]}, {reader_for_parse_raw(t, pe)})")
    L.append("def molFileTable : List (Enc × Reader) := [" + ", ".join(rows_mol) + "]")
    L.append("/-- (writer enc of Molecule.to_file(suffix), reader of ProtoModel.parse_file(suffix)) for suffixes both know -/")
    L.append("def parseFileTable : List (Enc × Reader) := [" + ", ".join(rows_pf) + "]")

    def lstr(x):
        return json.dumps(x)  # a Lean string literal for ASCII source text

    L.append("/-- the third-party codec calls in util/serialization.py: (function, callee, positional args, keyword args as source text) -/")
    L.append("def codecCalls : List (String × String × Nat × List (String × String)) := [" + ", ".join(
        f"({lstr(fn)}, {lstr(callee)}, {na}, [" + ", ".join(f"({lstr(k)}, {lstr(v)})" for k, v in kws) + "])" for fn, callee, na, kws in t["codec_calls"]) + "]")
    L.append("/-- the JSON encoder classes: (name, base classes, what `default` does with an ndarray of rank >= 1) -/")
    L.append("def jsonEncoders : List (String × String × String) := [" + ", ".join(f"({lstr(a)}, {lstr(b)}, {lstr(c)})" for a, b, c in t["json_encoders"]) + "]")
    L.append("/-- names set in ProtoModel.Config (basemodels.py), sorted -/")
    L.append("def protoConfigKeys : List String := [" + ", ".join(lstr(x) for x in t["proto_config"]) + "]")
    L += ["", "end QcelVerif.Ser.Gen", ""]
    out = common.LEAN / "QcelVerif" / "Gen" / "SerTables.lean"
    out.parent.mkdir(exist_ok=True)
    new = "\n".join(L)
    if not out.exists() or out.read_text() != new:
        out.write_text(new)


TRANSLATORS = [gen_tables, c10_src.gen_serialize_src]

# ----------------------------------------------------------------------------------------------------------------
# line protocol


def hx(b: bytes) -> str:
    return b.hex() if b else "-"


def toks(v):
    """value tree -> prefix token list (the driver's grammar)"""
    if v is None:
        return ["N"]
    if v is True:
        return ["T"]
    if v is False:
        return ["F"]
    if isinstance(v, (int, np.integer)) and not isinstance(v, (bool, np.bool_)):
        return [f"I{int(v)}"]
    if isinstance(v, float):
        return ["D" + struct.pack(">d", v).hex()]
    if isinstance(v, str):
        return ["S" + hx(v.encode("utf-8"))]
    if isinstance(v, bytes):
        return ["B" + hx(v)]
    if isinstance(v, np.ndarray):
        if v.ndim == 0:
            return toks(v.tolist())
        return ["X" + hx(v.dtype.str.encode()) + ":" + ",".join(map(str, v.shape)) + ":" + hx(np.ascontiguousarray(v).tobytes())]
    if isinstance(v, (list, tuple)):
        out = [f"A{len(v)}"]
        for x in v:
            out += toks(x)
        return out
    if isinstance(v, dict):
        out = [f"M{len(v)}"]
        for k, x in v.items():
            out += toks(k) + toks(x)
        return out
    raise TypeError(f"not encodable in the line protocol: {type(v).__name__}")


def tree(v) -> str:
    return " ".join(toks(v))


# JSON-able description of a payload (for replays): arrays as {"__nd__": [dtype, shape, hex, layout]}
def describe(v):
    if isinstance(v, np.ndarray):
        return {"__nd__": [v.dtype.str, list(v.shape), np.ascontiguousarray(v).tobytes().hex(), layout_of(v)]}
    if isinstance(v, tuple):
        return {"__tuple__": [describe(x) for x in v]}
    if isinstance(v, list):
        return [describe(x) for x in v]
    if isinstance(v, dict):
        return {k: describe(x) for k, x in v.items()}
    if isinstance(v, bytes):
        return {"__bytes__": v.hex()}
    if isinstance(v, float) and (v != v or v in (float("inf"), float("-inf")) or (v == 0.0 and struct.pack(">d", v)[0] == 0x80)):
        return {"__f64__": struct.pack(">d", v).hex()}
    return v


def undescribe(d):
    if isinstance(d, dict):
        if "__nd__" in d:
            dt, shape, hexdata, layout = d["__nd__"]
            a = np.frombuffer(bytes.fromhex(hexdata), dtype=dt).reshape(shape)
            return relayout(a, layout)
        if "__tuple__" in d:
            return tuple(undescribe(x) for x in d["__tuple__"])
        if "__bytes__" in d:
            return bytes.fromhex(d["__bytes__"])
        if "__f64__" in d:
            return struct.unpack(">d", bytes.fromhex(d["__f64__"]))[0]
        return {k: undescribe(x) for k, x in d.items()}
    if isinstance(d, list):
        return [undescribe(x) for x in d]
    return d


def layout_of(a):
    return getattr(a, "_c10_layout", None) or ("C" if a.flags.c_contiguous else ("F" if a.flags.f_contiguous else "other"))


class _Arr(np.ndarray):
    """ndarray subclass only so that a layout tag can ride along for replays (plain ndarray has no __dict__)."""


def tag(a, layout):
    return a, layout


def relayout(a, layout):
    """same values/shape/dtype as `a`, in the requested memory layout"""
    if layout == "F":
        return np.asfortranarray(a)
    if layout == "strided":
        big = np.zeros(tuple(2 * s for s in a.shape), dtype=a.dtype)
        sl = tuple(slice(None, None, 2) for _ in a.shape)
        big[sl] = a
        return big[sl]
    if layout == "reversed":
        rev = tuple(slice(None, None, -1) for _ in a.shape)
        return np.ascontiguousarray(a[rev])[rev]
    if layout == "transposed":
        return np.ascontiguousarray(a.T).T
    return np.ascontiguousarray(a)


# ----------------------------------------------------------------------------------------------------------------
# generators

DTYPES = ["<f2", "<f4", "<f8", ">f4", ">f8", "|i1", "<i2", "<i4", "<i8", ">i2", ">i4", ">i8", "|u1", "<u2", "<u4", "<u8", ">u4",
          "|b1", "<c8", "<c16", ">c16", "<U1", "<U2", "<U4", ">U2", "|S1", "|S3", "|S4"]
LAYOUTS = ["C", "F", "strided", "reversed", "transposed"]
BOUNDARY_INTS = [0, 1, 127, 128, 255, 256, 32767, 32768, 65535, 65536, 2**31 - 1, 2**31, 2**32 - 1, 2**32, 2**63 - 1, 2**63, 2**64 - 1,
                 -1, -31, -32, -33, -127, -128, -129, -32767, -32768, -32769, -(2**31), -(2**31) - 1, -(2**63) + 1, -(2**63)]
BOUNDARY_LENS = [0, 1, 31, 32, 255, 256]
FLOATS = [0.0, -0.0, 1.5, -2.25, 1e-300, 5e-324, 1.7976931348623157e308, float("inf"), float("-inf"), 0.1, 1 / 3, 6.02214076e23]


def rand_array(rng, dt=None, rank=None, layout=None, max_extent=5):
    dt = dt or rng.choice(DTYPES)
    rank = rank or rng.choice([1, 1, 2, 2, 3, 4])
    shape = tuple(rng.choice([0, 1, 2, 3, 4, 5][: max_extent + 1]) if rng.random() < 0.85 else 0 for _ in range(rank))
    if rng.random() < 0.7:
        shape = tuple(max(1, s) for s in shape)
    d = np.dtype(dt)
    n = int(np.prod(shape)) if shape else 1
    if d.kind == "U":
        chars = "abXY09 é✓"
        vals = ["".join(rng.choice(chars) for _ in range(rng.randint(0, d.itemsize // 4))) for _ in range(n)]
        a = np.array(vals, dtype=dt).reshape(shape)
    elif d.kind == "b":
        a = np.array([rng.random() < 0.5 for _ in range(n)], dtype=dt).reshape(shape)
    else:
        raw = bytes(rng.getrandbits(8) for _ in range(n * d.itemsize))
        a = np.frombuffer(raw, dtype=dt).reshape(shape)
        if d.kind == "S":
            a = a.copy()
    layout = layout or rng.choice(LAYOUTS)
    return relayout(a, layout), layout


def rand_scalar(rng):
    r = rng.random()
    if r < 0.15:
        return None
    if r < 0.25:
        return rng.random() < 0.5
    if r < 0.5:
        b = rng.choice(BOUNDARY_INTS)
        return b + rng.choice([0, 0, 1, -1]) if -(2**63) < b < 2**64 - 1 else b
    if r < 0.7:
        return rng.choice(FLOATS) if rng.random() < 0.6 else struct.unpack(">d", struct.pack(">Q", rng.getrandbits(64) & ~(0x7FF << 52) | (rng.randint(1, 2046) << 52)))[0]
    n = rng.choice(BOUNDARY_LENS + [2, 5, 33])
    return "".join(rng.choice("abcxyz_ -09é✓\"\\\n") for _ in range(n))


def rand_key(rng, used):
    while True:
        k = "".join(rng.choice("abcdefgh_0123") for _ in range(rng.choice([1, 2, 5, 31, 32])))
        if k not in used and k != "_nd_":
            used.add(k)
            return k


def rand_payload(rng, depth, leaf, with_bytes=False):
    """nest `leaf()` values at exactly `depth` container levels, beside scalar siblings"""
    if depth == 0:
        return leaf()
    kind = rng.choice(["dict", "list", "tuple"])
    n = rng.choice([1, 2, 3, 3, 15, 16]) if rng.random() < 0.15 else rng.randint(1, 4)
    pos = rng.randrange(n)
    items = []
    for i in range(n):
        if i == pos:
            items.append(rand_payload(rng, depth - 1, leaf, with_bytes))
        elif rng.random() < 0.25:
            items.append(leaf() if rng.random() < 0.5 else [rand_scalar(rng) for _ in range(rng.randint(0, 3))])
        elif with_bytes and rng.random() < 0.1:
            items.append(bytes(rng.getrandbits(8) for _ in range(rng.choice(BOUNDARY_LENS))))
        else:
            items.append(rand_scalar(rng))
    if kind == "dict":
        used = set()
        return {rand_key(rng, used): x for x in items}
    return items if kind == "list" else tuple(items)


# ----------------------------------------------------------------------------------------------------------------
# comparison helpers (oracle side; independent of the model)


def same_array(a, b):
    """dtype, shape and bytes"""
    if not isinstance(b, np.ndarray):
        return f"came back as {type(b).__name__}, not ndarray"
    if a.dtype != b.dtype or a.dtype.str != b.dtype.str:
        return f"dtype {a.dtype.str} -> {b.dtype.str}"
    if a.shape != b.shape:
        return f"shape {a.shape} -> {b.shape}"
    if np.ascontiguousarray(a).tobytes() != np.ascontiguousarray(b).tobytes():
        return "bytes differ"
    return None


def f_eq(x, y):
    return struct.pack(">d", x) == struct.pack(">d", y) or (x != x and y != y)


def deep_same(a, b, path="$"):
    """a = original payload, b = what came back through an -ext encoding. tuples come back as lists (documented JSON/msgpack behaviour)."""
    if isinstance(a, np.ndarray):
        if a.ndim == 0:
            x = a.tolist()
            ok = (f_eq(x, b) if isinstance(x, float) and isinstance(b, float) else (x == b and type(x) == type(b)))
            return None if ok else f"{path}: rank-0 value {x!r} -> {b!r}"
        r = same_array(a, b)
        return None if r is None else f"{path}: {r}"
    if isinstance(a, dict):
        if not isinstance(b, dict) or list(a.keys()) != list(b.keys()):
            return f"{path}: dict keys {list(a)[:6]} -> {list(b)[:6] if isinstance(b, dict) else type(b).__name__}"
        for k in a:
            r = deep_same(a[k], b[k], f"{path}.{k}")
            if r:
                return r
        return None
    if isinstance(a, (list, tuple)):
        if not isinstance(b, list) or len(a) != len(b):
            return f"{path}: sequence of {len(a)} -> {type(b).__name__}"
        for i, (x, y) in enumerate(zip(a, b)):
            r = deep_same(x, y, f"{path}[{i}]")
            if r:
                return r
        return None
    if isinstance(a, float):
        return None if isinstance(b, float) and f_eq(a, b) else f"{path}: float {a!r} -> {b!r}"
    if isinstance(a, bool) or a is None or isinstance(a, (int, str, bytes)):
        return None if type(a) == type(b) and a == b else f"{path}: {a!r} -> {b!r}"
    return f"{path}: unexpected type {type(a).__name__}"


def model_same(a, b, path="$"):
    """field-wise equality of two `.dict()` trees of model instances: arrays by dtype/shape/values"""
    if isinstance(a, np.ndarray) or isinstance(b, np.ndarray):
        if not (isinstance(a, np.ndarray) and isinstance(b, np.ndarray)):
            return f"{path}: {type(a).__name__} -> {type(b).__name__}"
        if a.dtype != b.dtype:
            return f"{path}: dtype {a.dtype} -> {b.dtype}"
        if a.shape != b.shape:
            return f"{path}: shape {a.shape} -> {b.shape}"
        if a.dtype.kind in "fc":
            if not np.array_equal(a, b, equal_nan=True):
                with np.errstate(all="ignore"):
                    dmax = np.nanmax(np.abs(a - b)) if a.size else 0.0
                return f"{path}: values differ (max abs difference {dmax:.3e})"
        elif not np.array_equal(a, b):
            return f"{path}: values differ"
        return None
    if isinstance(a, dict):
        if not isinstance(b, dict) or set(a) != set(b):
            return f"{path}: fields {sorted(set(a) ^ (set(b) if isinstance(b, dict) else set()))[:6]} differ"
        for k in a:
            r = model_same(a[k], b[k], f"{path}.{k}")
            if r:
                return r
        return None
    if isinstance(a, (list, tuple)):
        if not isinstance(b, (list, tuple)) or len(a) != len(b):
            return f"{path}: sequence length {len(a)} -> {len(b) if isinstance(b, (list, tuple)) else type(b).__name__}"
        for i, (x, y) in enumerate(zip(a, b)):
            r = model_same(x, y, f"{path}[{i}]")
            if r:
                return r
        return None
    if isinstance(a, float) and isinstance(b, float):
        return None if f_eq(a, b) or a == b else f"{path}: {a!r} -> {b!r}"
    if isinstance(a, bool) != isinstance(b, bool):
        return f"{path}: {a!r} -> {b!r}"
    return None if a == b else f"{path}: {a!r} -> {b!r}"


def inst_same(a, b, path="$"):
    """value equality of two model instances by walking the declared fields (which fields count as 'set' is not part
    of the property: a default that was written out and a default that was re-applied are the same value)"""
    from qcelemental.models.basemodels import ProtoModel

    if isinstance(a, ProtoModel) != isinstance(b, ProtoModel) and isinstance(a, (dict, ProtoModel)) and isinstance(b, (dict, ProtoModel)):
        # an unvalidated default (pydantic v1 does not validate default_factory results, e.g. AtomicInput.provenance is
        # the raw dict of provenance_stamp) against its validated form: same values, different container
        m, d = (a, b) if isinstance(a, ProtoModel) else (b, a)
        if not set(d) <= set(m.__fields__):
            return f"{path}: dict keys {sorted(set(d) - set(m.__fields__))[:4]} are not fields of {type(m).__name__}"
        for n in m.__fields__:
            if n in d:
                r = inst_same(d[n], getattr(m, n), f"{path}.{n}") if isinstance(a, dict) else inst_same(getattr(m, n), d[n], f"{path}.{n}")
                if r:
                    return r
            elif n in m.__fields_set__:
                return f"{path}.{n}: set on the model, absent from the dict form"
        return None
    if isinstance(a, ProtoModel) or isinstance(b, ProtoModel):
        if type(a) is not type(b):
            return f"{path}: {type(a).__name__} -> {type(b).__name__}"
        for n in a.__fields__:
            r = inst_same(getattr(a, n), getattr(b, n), f"{path}.{n}")
            if r:
                return r
        # attributes beyond the declared fields (models configured with extra = "allow": Provenance, Model), read by attribute
        # access and not through .dict() (which is the serialiser's own code path)
        xa = {k: v for k, v in vars(a).items() if k not in a.__fields__ and not k.startswith("_")}
        xb = {k: v for k, v in vars(b).items() if k not in b.__fields__ and not k.startswith("_")}
        if set(xa) != set(xb):
            return f"{path}: additional attributes {sorted(set(xa) ^ set(xb))[:6]} differ"
        for k in xa:
            r = inst_same(xa[k], xb[k], f"{path}.{k}")
            if r:
                return r
        return None
    if isinstance(a, dict) and isinstance(b, dict):
        if set(a) != set(b):
            return f"{path}: keys {sorted(set(a) ^ set(b))[:6]} differ"
        for k in a:
            r = inst_same(a[k], b[k], f"{path}.{k}")
            if r:
                return r
        return None
    if isinstance(a, (list, tuple)) and isinstance(b, (list, tuple)):
        if len(a) != len(b):
            return f"{path}: sequence length {len(a)} -> {len(b)}"
        for i, (x, y) in enumerate(zip(a, b)):
            r = inst_same(x, y, f"{path}[{i}]")
            if r:
                return r
        return None
    return model_same(a, b, path)


def selected_same(orig, raw, ext, path="$"):
    """partial payloads (include/exclude): every selected field's value must survive. `orig` = obj.dict(**opts),
    `raw` = deserialize(payload). With the flat encodings arrays are documented to arrive as flat lists (the shape is
    restored by the validators of a *whole* instance), so values are compared ravelled there."""
    if isinstance(orig, np.ndarray):
        if ext:
            if orig.ndim == 0:
                return None if orig.tolist() == raw else f"{path}: rank-0 {orig.tolist()!r} -> {raw!r}"
            r = same_array(orig, raw)
            return None if r is None else f"{path}: {r}"
        try:
            back = np.asarray(raw, dtype=orig.dtype).ravel()
        except Exception as e:  # noqa
            return f"{path}: flat list not castable back ({type(e).__name__})"
        ok = back.shape == orig.ravel().shape and (np.array_equal(back, orig.ravel(), equal_nan=True) if orig.dtype.kind in "fc" else np.array_equal(back, orig.ravel()))
        return None if ok else f"{path}: flat values differ"
    if isinstance(orig, dict):
        if not isinstance(raw, dict) or set(orig) != set(raw):
            return f"{path}: keys differ"
        for k in orig:
            r = selected_same(orig[k], raw[k], ext, f"{path}.{k}")
            if r:
                return r
        return None
    if isinstance(orig, (list, tuple)):
        if not isinstance(raw, (list, tuple)) or len(orig) != len(raw):
            return f"{path}: sequence differs"
        for i, (x, y) in enumerate(zip(orig, raw)):
            r = selected_same(x, y, ext, f"{path}[{i}]")
            if r:
                return r
        return None
    if hasattr(orig, "value") and not isinstance(orig, (int, float, str)):  # Enum
        orig = orig.value
    if isinstance(orig, float) and isinstance(raw, (float, int)) and not isinstance(raw, bool):
        return None if float(raw) == orig or f_eq(orig, float(raw)) else f"{path}: {orig!r} -> {raw!r}"
    if isinstance(orig, str) and hasattr(orig, "value"):
        orig = orig.value
    return None if orig == raw else f"{path}: {orig!r} -> {raw!r}"


def optional_array_fields_not_size1(obj, path="$"):
    """independent walk: Optional (default None) ndarray-typed fields holding an array whose size != 1"""
    from qcelemental.models.basemodels import ProtoModel

    hits = []
    if isinstance(obj, ProtoModel):
        for n, f in obj.__fields__.items():
            v = getattr(obj, n)
            if isinstance(v, np.ndarray) and not f.required and f.default is None and v.size != 1:
                hits.append(f"{path}.{n}{v.shape}")
            hits += optional_array_fields_not_size1(v, f"{path}.{n}")
    elif isinstance(obj, dict):
        for k, v in obj.items():
            hits += optional_array_fields_not_size1(v, f"{path}.{k}")
    elif isinstance(obj, (list, tuple)):
        for i, v in enumerate(obj):
            hits += optional_array_fields_not_size1(v, f"{path}[{i}]")
    return hits


KNOWN_KIND_EXCLUDE_DEFAULTS = "oracle:exclude_defaults_array_field"
KNOWN_KIND_RESER_SETNESS = "oracle:reserialise_exclude_defaults_setness"
KNOWN_KIND_EXTRA_ORDER = "oracle:reserialise_extra_attribute_order"
# sub-models configured with extra = "allow" (models/common_models.py): their additional attributes are stored in the order in
# which pydantic-v1's validate_model iterates a SET of the extra keys, i.e. in an order that depends on the interpreter's string
# hashing (PYTHONHASHSEED) and on the insertion order of the input — so the payload of the parsed-back instance can list them
# in another order than the first payload did
EXTRA_ALLOW_DECLARED = {"provenance": ["creator", "version", "routine"], "model": ["method", "basis"]}


def extra_order_only(a, b, path=()):
    """[(path, keys_a, keys_b)] if the decoded payloads a, b are equal as UNORDERED trees and every dict whose key order differs
    is an extra="allow" sub-model (last path element `provenance` / `model`) whose DECLARED fields keep their order, so that only
    the additional attributes are permuted; None if they differ in any other way."""
    if isinstance(a, dict) and isinstance(b, dict):
        if set(a) != set(b):
            return None
        hits = []
        if list(a) != list(b):
            name = path[-1] if path else None
            decl = EXTRA_ALLOW_DECLARED.get(name)
            if decl is None:
                return None
            if [k for k in a if k in decl] != [k for k in b if k in decl]:
                return None
            xa, xb = [k for k in a if k not in decl], [k for k in b if k not in decl]
            if len(xa) < 2 or sorted(xa) != sorted(xb):
                return None
            hits.append(("/".join(map(str, path)), xa, xb))
        for k in a:
            r = extra_order_only(a[k], b[k], path + (k,))
            if r is None:
                return None
            hits += r
        return hits
    if isinstance(a, list) and isinstance(b, list):
        if len(a) != len(b):
            return None
        hits = []
        for i, (x, y) in enumerate(zip(a, b)):
            r = extra_order_only(x, y, path + (i,))
            if r is None:
                return None
            hits += r
        return hits
    try:
        if isinstance(a, np.ndarray) or isinstance(b, np.ndarray):
            xa, xb = np.asarray(a), np.asarray(b)
            same = xa.dtype == xb.dtype and xa.shape == xb.shape and xa.tobytes() == xb.tobytes()
        else:
            same = bool(a == b or (a != a and b != b))
    except Exception:  # noqa
        same = False
    return [] if same else None


def emptied_submodel_keys(first, second, path="$"):
    """structural diff of two deserialised payloads. Returns the list of paths that exist only in `first` and hold an
    empty dict there, provided that is the ONLY kind of difference; returns None if anything else differs."""
    if isinstance(first, np.ndarray) or isinstance(second, np.ndarray):
        ok = isinstance(first, np.ndarray) and isinstance(second, np.ndarray) and same_array(first, second) is None
        return [] if ok else None
    if isinstance(first, dict) and isinstance(second, dict):
        if not set(second) <= set(first):
            return None
        acc = []
        for k in first:
            if k not in second:
                if first[k] != {}:
                    return None
                acc.append(f"{path}.{k}")
            else:
                r = emptied_submodel_keys(first[k], second[k], f"{path}.{k}")
                if r is None:
                    return None
                acc += r
        return acc
    if isinstance(first, list) and isinstance(second, list):
        if len(first) != len(second):
            return None
        acc = []
        for i, (x, y) in enumerate(zip(first, second)):
            r = emptied_submodel_keys(x, y, f"{path}[{i}]")
            if r is None:
                return None
            acc += r
        return acc
    if isinstance(first, float) and isinstance(second, float):
        return [] if f_eq(first, second) else None
    return [] if type(first) == type(second) and first == second else None


def known_predicate(finding, entry) -> bool:
    """narrow matches for the recorded finding classes (run.py has already matched entry.kind == finding.kind)"""
    c = finding.case if isinstance(finding.case, dict) else {}
    if entry.get("kind") == KNOWN_KIND_EXCLUDE_DEFAULTS and finding.kind == KNOWN_KIND_EXCLUDE_DEFAULTS:
        # three facts: exclude_defaults=True is the only option + the ndarray truth-value ValueError +
        # an Optional Array field holding an array of size != 1 (found by an independent walk of the instance)
        return (
            c.get("options", {}).get("exclude_defaults") is True
            and set(c.get("options", {})) == {"exclude_defaults"}
            and isinstance(finding.observed, str)
            and finding.observed.startswith("ValueError: The truth value of an")
            and bool(c.get("optional_array_fields"))
        )
    if entry.get("kind") == KNOWN_KIND_RESER_SETNESS and finding.kind == KNOWN_KIND_RESER_SETNESS:
        # exclude_defaults=True is the only option + the payloads differ only by `key: {}` entries of the first payload
        return (
            c.get("options", {}).get("exclude_defaults") is True
            and set(c.get("options", {})) == {"exclude_defaults"}
            and bool(c.get("emptied_keys"))
        )
    if entry.get("kind") == KNOWN_KIND_EXTRA_ORDER and finding.kind == KNOWN_KIND_EXTRA_ORDER:
        # every recorded difference is a permutation of >= 2 additional attributes under a `provenance` / `model` key
        p = c.get("permuted") or []
        return bool(p) and all(len(x) == 3 and str(x[0]).split("/")[-1] in EXTRA_ALLOW_DECLARED and len(x[1]) >= 2 and sorted(x[1]) == sorted(x[2]) and x[1] != x[2] for x in p)
    return False


def exc_kind(e):
    """decode-side exception -> the model's error enum"""
    if isinstance(e, KeyError):
        return "err KeyData"
    if isinstance(e, (ValueError, TypeError)):
        msg = str(e)
        if "shape" in msg or "reshape" in msg or "size" in msg and "into shape" in msg:
            return "err BadShape"
        return "err BadBuffer"
    return "err other:" + type(e).__name__


# ----------------------------------------------------------------------------------------------------------------
# block 1+2: payload trees (arrays in containers, boundary scalars) — correspondence + oracle


def payload_cases(ctx):
    rng = ctx.rng
    cases = []
    # systematic: every dtype x layout once at each rank (small), depth cycling 0-3
    i = 0
    for dt in DTYPES:
        for layout in LAYOUTS:
            for rank in ([1, 2, 3, 4] if ctx.thorough else [1 + (i % 4)]):
                depth = i % 4
                i += 1
                a, lay = rand_array(rng, dt, rank, layout)
                cases.append(("arr", depth, (lambda a=a: a), f"{dt}|r{rank}|{lay}|d{depth}|{a.shape}"))
    # empty with non-trivial shape, explicitly
    for shape in [(0,), (0, 3), (3, 0), (2, 0, 2), (0, 0), (1, 0, 1, 5)]:
        for dt in ["<f8", ">i4", "<U2", "|b1", "|S3"]:
            a = np.zeros(shape, dtype=dt)
            cases.append(("arr-empty", len(cases) % 3, (lambda a=a: a), f"{dt}|empty{shape}"))
    # broadcast (zero strides) and rank-0
    cases.append(("arr-bcast", 1, (lambda: np.broadcast_to(np.arange(3.0), (4, 3))), "bcast"))
    for v in [np.array(5.5), np.array(7, dtype="<i4"), np.array(True), np.array(-3, dtype=">i2"), np.array("hi")]:
        cases.append(("arr-rank0", 1, (lambda v=v: v), f"rank0|{v.dtype.str}"))
    # random
    for _ in range(ctx.scale(500, 6000)):
        depth = rng.choice([0, 1, 1, 2, 2, 3])
        a, lay = rand_array(rng)
        cases.append(("arr", depth, (lambda a=a: a), f"{a.dtype.str}|r{a.ndim}|{lay}|d{depth}|{a.shape}"))
    out = []
    for block, depth, leaf, key in cases:
        out.append((block, key, rand_payload(rng, depth, leaf, with_bytes=False)))
    # boundary scalars (no arrays): byte-exact msgpack
    for _ in range(ctx.scale(250, 3000)):
        depth = rng.choice([1, 2, 3])
        out.append(("scalars", f"scalars|d{depth}", rand_payload(rng, depth, lambda: rand_scalar(rng), with_bytes=False)))
    # container widths: fixarray/fixmap -> array16/map16 at 16. The 16 -> 32-bit head at 65536 is covered by the theorems
    # only: a 65536-entry container is a > 1M-character protocol line, which the interpreted driver does not survive
    for n in [15, 16, 300] + ([5000] if ctx.thorough else []):
        out.append(("scalars-wide", f"list{n}", list(range(n))))
        out.append(("scalars-wide", f"dict{n}", {f"k{j}": j for j in range(n)}))
    for n in [31, 32, 255, 256, 65535, 65536]:
        out.append(("scalars-wide", f"str{n}", {"s": "a" * n, "arr": np.frombuffer(b"\x01" * n, dtype="|u1") if n else np.zeros((0,), "|u1")}))
    return out


THREE_WAY_OPS = ("mp", "mpd", "jx", "jxd", "jt", "jtd", "mpf", "disp")


def run_three(ctx, out: Outcome, lines):
    """THREE-WAY: run the driver; the ops of THREE_WAY_OPS answer `<hand model> || <source-derived>` (right side `=` when
    identical).  Returns the hand-model sides (compared with the implementation by the callers, as before) and records a
    mismatch for every line whose source-derived side (evaluator of Model/SerializeSrc.lean on the term regenerated from
    util/serialization.py) is not the hand model's answer."""
    res = ctx.run_model(DRIVER, lines)
    hands = []
    for ln, r in zip(lines, res):
        op = ln.split(" ", 1)[0]
        if op in THREE_WAY_OPS and not (op == "jtd" and ln.startswith("jtd plain")) and r != "bad-op" and not r.startswith("err not-utf8") and " || " in r:
            h, _, sside = r.rpartition(" || ")
            hands.append(h)
            out.count("three-way:" + op)
            if sside != "=":
                out.mismatches.append(Finding("mismatch:source-derived", {"block": "three-way", "op": op, "line": ln[:600]}, observed=sside[:400], expected=h[:400],
                                              detail="the function regenerated from util/serialization.py (evaluated on the model's trees) differs from the hand model Model/Serialize.lean on this input"))
        else:
            hands.append(r)
    return hands


def check_payloads(ctx, out: Outcome, cases):
    from qcelemental.util import deserialize, serialize

    lines, idx = [], []
    impl = []
    for block, key, p in cases:
        rec = {"block": block, "key": key, "payload": p}
        try:
            rec["mp"] = serialize(p, "msgpack-ext")
            rec["jx"] = serialize(p, "json-ext")
        except Exception as e:  # noqa
            rec["ser_exc"] = f"{type(e).__name__}: {e}"
        impl.append(rec)
        if "ser_exc" not in rec:
            t = tree(p)
            lines += ["mp " + t, "jx " + t, "mpd " + rec["mp"].hex(), "jxd " + tree(json.loads(rec["jx"]))]
            # ---- text layer (Model/JsonText.lean): the model PRINTS the json-ext text and PARSES the implementation's text
            rec["text_ok"] = text_tie_ok(p)
            if rec["text_ok"]:
                rec["flat"] = flat_expectation(p)
                rec["n_text_lines"] = 0
                lines += ["jt json-ext " + t, "jtd hook " + hx(rec["jx"].encode("utf-8"))]
                # whitespace tolerance and raw (unescaped) non-ASCII: the same document re-laid out by json.dumps(indent=1, ensure_ascii=False)
                rec["relaid"] = json.dumps(json.loads(rec["jx"]), indent=1, ensure_ascii=False)
                lines += ["jtd hook " + hx(rec["relaid"].encode("utf-8"))]
                lines += ["jt json " + t, "mpf " + t]
                if rec["flat"]["json"] is not None:
                    lines += ["jtd plain " + hx(rec["flat"]["json"].encode("utf-8"))]
    model = run_three(ctx, out, lines) if ctx.model_available else None
    mi = 0
    for rec in impl:
        p = rec["payload"]
        case = {"block": rec["block"], "key": rec["key"], "payload": describe(p)}
        out.evaluations += 1
        out.count("block:" + rec["block"])
        if rec["block"] != "scalars" or any(t[0] == "I" and abs(int(t[1:])) >= 128 for t in toks(p) if t[0] == "I"):
            out.nontrivial(rec["key"] if rec["block"] != "scalars" else rec["key"] + "|" + str(out.evaluations))
        if "ser_exc" in rec:
            out.violations.append(Finding("oracle:ext_serialize_raises", case, observed=rec["ser_exc"], detail="an in-scope payload cannot be serialised with an -ext encoding"))
            continue
        # ---- oracle (implementation only)
        for enc, blob in (("msgpack-ext", rec["mp"]), ("json-ext", rec["jx"])):
            try:
                back = deserialize(blob, enc)
            except Exception as e:  # noqa
                out.violations.append(Finding("oracle:ext_roundtrip", {**case, "encoding": enc}, observed=f"{type(e).__name__}: {e}", detail="deserialize raised on what serialize wrote"))
                continue
            d = deep_same(p, back)
            if d:
                out.violations.append(Finding("oracle:ext_roundtrip", {**case, "encoding": enc}, observed=d, detail="array/scalar does not come back with the same dtype, shape and bytes"))
            try:
                again = serialize(back, enc)
            except Exception as e:  # noqa
                again = f"{type(e).__name__}: {e}"
            if again != blob:
                out.violations.append(Finding("oracle:reserialise", {**case, "encoding": enc}, observed=str(again)[:200], expected=str(blob)[:200], detail="second serialisation is not the identical payload"))
        # ---- correspondence
        if model is not None:
            m_mp, m_jx, m_mpd, m_jxd = model[mi : mi + 4]
            mi += 4
            i_mp = hx(rec["mp"])
            if m_mp != i_mp:
                out.mismatches.append(Finding("mismatch:msgpack-ext-bytes", case, observed=i_mp[:400], expected=m_mp[:400], detail="payload bytes differ (implementation vs model)"))
            i_jx = tree(json.loads(rec["jx"]))
            if m_jx != i_jx:
                out.mismatches.append(Finding("mismatch:json-ext-tree", case, observed=i_jx[:400], expected=m_jx[:400], detail="parsed JSON differs (implementation vs model)"))
            for enc, blob, m_dec, kind in (("msgpack-ext", rec["mp"], m_mpd, "mismatch:msgpack-ext-decode"), ("json-ext", rec["jx"], m_jxd, "mismatch:json-ext-decode")):
                try:
                    i_dec = tree(deserialize(blob, enc))
                except Exception as e:  # noqa
                    i_dec = exc_kind(e)
                if m_dec != i_dec:
                    out.mismatches.append(Finding(kind, {**case, "encoding": enc}, observed=i_dec[:400], expected=m_dec[:400], detail="decoded tree differs (implementation vs model)"))
            if rec.get("text_ok"):
                m_jt, m_jtd, m_jtd2, m_jtf, m_mpf = model[mi : mi + 5]
                mi += 5
                out.count("text-tie:json-ext")
                if m_jt != "T " + rec["jx"]:
                    out.mismatches.append(Finding("mismatch:json-ext-text", case, observed=rec["jx"][:400], expected=m_jt[:400], detail="json-ext TEXT differs byte-for-byte (implementation's serialize vs the model's printer)"))
                try:
                    i_dec = tree(deserialize(rec["jx"], "json-ext"))
                except Exception as e:  # noqa
                    i_dec = exc_kind(e)
                if m_jtd != i_dec:
                    out.mismatches.append(Finding("mismatch:json-ext-text-parse", case, observed=i_dec[:400], expected=m_jtd[:400], detail="the model's JSON parser + hook reads the implementation's json-ext text differently from deserialize()"))
                if m_jtd2 != i_dec:
                    out.mismatches.append(Finding("mismatch:json-text-whitespace", case, observed=i_dec[:400], expected=m_jtd2[:400], detail="the model's JSON parser reads the re-laid-out document (indent=1, ensure_ascii=False) differently"))
                fl = rec["flat"]
                if fl["supported"]:
                    out.count("text-tie:json-flat")
                    want_t = ("T " + fl["json"]) if fl["json"] is not None else "exc " + str(fl["json_exc"])
                    if fl["noncanon_nan"] and fl["json"] is not None:
                        out.count("text-tie:flat-noncanonical-nan-element")
                        want_t = "err float-hyp"
                    if m_jtf != want_t:
                        out.mismatches.append(Finding("mismatch:json-flat-text", case, observed=want_t[:400], expected=m_jtf[:400], detail="plain json TEXT differs byte-for-byte (arrays as row-major flat lists)"))
                    want_b = hx(fl["msgpack"]) if fl["msgpack"] is not None else "exc " + str(fl["msgpack_exc"])
                    if m_mpf != want_b:
                        out.mismatches.append(Finding("mismatch:msgpack-flat-bytes", case, observed=want_b[:400], expected=m_mpf[:400], detail="plain msgpack BYTES differ (arrays as row-major flat lists)"))
                else:
                    out.count("text-tie:flat-dtype-not-modelled")
                    if m_jtf != "err unsupported-dtype" or m_mpf != "err unsupported-dtype":
                        out.mismatches.append(Finding("mismatch:flat-dtype-scope", case, observed="unsupported", expected=(m_jtf[:80], m_mpf[:80]), detail="the model claims a flat encoding for a dtype the harness regards as outside the flat model"))
                if fl["json"] is not None:
                    m_plain = model[mi]
                    mi += 1
                    try:
                        i_plain = tree(json.loads(fl["json"]))
                    except Exception as e:  # noqa
                        i_plain = "exc " + type(e).__name__
                    if m_plain != i_plain:
                        out.mismatches.append(Finding("mismatch:json-flat-text-parse", case, observed=i_plain[:400], expected=m_plain[:400], detail="the model's JSON parser (no hook) reads the implementation's plain json text differently from json.loads"))
        if len(out.samples) < 3 and rec["block"] == "arr":
            out.sample({"key": rec["key"], "msgpack-ext": hx(rec["mp"])[:96], "json-ext": rec["jx"][:96]})


TEXT_CHARS = ['"', "\\", "/", "\b", "\f", "\n", "\r", "\t", "\x00", "\x01", "\x1f", " ", "~", "\x7f", "\x80", "é", "\u07ff", "\u0800", "✓", "\ud7ff",
              "\ue000", "\uffff", "\U00010000", "😀", "\U0010ffff", "a", "0", "-", "e", ".", ":", ",", "[", "]", "{", "}", "u", "\\u0041"]
TEXT_FLOATS = [1e16, 1e15, 9999999999999998.0, 1e-5, 1e-4, 0.0001, 0.00001234, 123456789012345680.0, 5e-324, 2.2250738585072014e-308, 2.225073858507201e-308,
               1.7976931348623157e308, 0.1 + 0.2, 1 / 3, 2 / 3, 1e22, 1e23, 9007199254740993.0, 4.35, 0.3, 1e21, 1.5e-7, 100.0, 1e100, -1e-100, -0.0, 0.0,
               float("inf"), float("-inf"), 2.0**-1074 * 3, 2.0**1023, 5e-310, 123.456, 1.0000000000000002, 0.9999999999999999]


def text_cases(ctx):
    """payloads aimed at the JSON text layer: every escape class in values AND keys, astral characters, empty strings and
    containers, deep nesting, the float printing boundaries. Ints stay inside the msgpack range (the same payloads also go
    through msgpack-ext)."""
    rng = ctx.rng
    out = []
    for i, ch in enumerate(TEXT_CHARS):
        out.append(("text", f"char|{ch.encode('unicode_escape').decode()}", {ch: [ch, ch + ch, "x" + ch + "y"], "k" + ch: {ch + "k": ch}}))
    out.append(("text", "empties", {"": "", "a": [], "b": {}, "c": [[], {}, ""], "d": {"": {"": []}}, "t": ()}))
    out.append(("text", "floats", {"f": list(TEXT_FLOATS), "neg": [-x for x in TEXT_FLOATS if x == x]}))
    for depth in (8, 16, 40):
        v = [1.5, "é😀"]
        for d in range(depth):
            v = {"k\n" + str(d): v} if d % 2 else [v, d]
        out.append(("text", f"deep{depth}", v))

    def rstr():
        return "".join(rng.choice(TEXT_CHARS) for _ in range(rng.choice([0, 1, 2, 3, 8, 33])))

    def rval(d):
        r = rng.random()
        if d <= 0 or r < 0.45:
            k = rng.random()
            if k < 0.35:
                return rstr()
            if k < 0.6:
                return rng.choice(TEXT_FLOATS) if rng.random() < 0.5 else struct.unpack(">d", struct.pack(">Q", rng.getrandbits(64) & ~(0x7FF << 52) | (rng.randint(0, 2046) << 52)))[0]
            if k < 0.8:
                return rng.choice(BOUNDARY_INTS)
            return rng.choice([None, True, False])
        if r < 0.7:
            return [rval(d - 1) for _ in range(rng.randint(0, 4))]
        if r < 0.8:
            a, _lay = rand_array(rng, rng.choice(["<f8", ">f8", "<i2", ">i4", "|u1", "<u8", "|b1", "<i8"]), rng.choice([1, 2]), None)
            return a
        used, dct = set(), {}
        for _ in range(rng.randint(0, 4)):
            k = rstr()
            if k in used or k == "_nd_":
                continue
            used.add(k)
            dct[k] = rval(d - 1)
        return dct

    for j in range(ctx.scale(150, 2000)):
        out.append(("text", f"rand|{j}", {"r": rval(rng.choice([1, 2, 3, 5]))}))
    return out


def _walk_leaves(p):
    if isinstance(p, dict):
        for k, v in p.items():
            yield k
            yield from _walk_leaves(v)
    elif isinstance(p, (list, tuple)):
        for v in p:
            yield from _walk_leaves(v)
    else:
        yield p


TEXT_MAX_STR = 20000  # the interpreted driver recurses once per character of a string


def text_tie_ok(p):
    """payloads the text-layer tie is run on: no bytes leaves (JSON has none), every bare NaN is the canonical one (the token
    NaN carries no payload bits: the model reports `float-hyp` otherwise), strings short enough for the interpreted driver"""
    for x in _walk_leaves(p):
        if isinstance(x, bytes):
            return False
        if isinstance(x, str) and len(x) > TEXT_MAX_STR:
            return False
        if isinstance(x, float) and x != x and struct.pack(">d", x) != b"\x7f\xf8\0\0\0\0\0\0":
            return False
        if isinstance(x, np.ndarray) and x.size > TEXT_MAX_STR:
            return False
    return True


def flat_expectation(p):
    """what the implementation writes with the two flat encodings; `supported`: every ndarray leaf has an element kind the
    flat model decodes (float64, (u)int8..64, bool; either byte order) or is empty (an empty array of any dtype is `[]`)"""
    from qcelemental.util import serialize

    sup = all(x.size == 0 or (x.dtype.kind in "iub") or (x.dtype.kind == "f" and x.dtype.itemsize == 8) for x in _walk_leaves(p) if isinstance(x, np.ndarray) and x.ndim > 0)
    # a NaN array element with payload bits is written as the token NaN like any other NaN; the model prints the same text but its
    # per-float hypothesis (floatOk: the round trip of that float is bit-exact) fails, and it says so instead of printing
    noncanon = False
    for x in _walk_leaves(p):
        if isinstance(x, np.ndarray) and x.ndim > 0 and x.dtype.kind == "f" and x.dtype.itemsize == 8 and x.size:
            bits = np.ascontiguousarray(x).astype(x.dtype.newbyteorder("<")).view("<u8")
            nan = np.isnan(np.ascontiguousarray(x))
            if bool((nan & (bits != 0x7FF8000000000000)).any()):
                noncanon = True
    r = {"supported": sup, "json": None, "msgpack": None, "json_exc": None, "msgpack_exc": None, "noncanon_nan": noncanon}
    try:
        r["json"] = serialize(p, "json")
    except Exception as e:  # noqa
        r["json_exc"] = type(e).__name__
    try:
        r["msgpack"] = serialize(p, "msgpack")
    except Exception as e:  # noqa
        r["msgpack_exc"] = type(e).__name__
    return r


# ----------------------------------------------------------------------------------------------------------------
# block 3: corrupted envelopes (decode-side error branches) — correspondence only (errors are modelled, not demanded)


def envelope_cases(ctx):
    rng = ctx.rng
    cases = []
    for _ in range(ctx.scale(120, 1200)):
        a, _lay = rand_array(rng, rng.choice(["<f8", ">i4", "<U2", "|b1", "<c16", "|S3", "<i2"]), rng.choice([1, 2, 3]), "C")
        data = np.ascontiguousarray(a).tobytes()
        env = {"_nd_": True, "dtype": a.dtype.str, "data": data}
        if a.ndim > 1 or rng.random() < 0.3:
            env["shape"] = list(a.shape)
        kind = rng.choice(["ok", "ok", "drop-data", "drop-dtype", "short", "shape-prod", "shape-neg", "nd-false", "extra-key", "reorder"])
        if kind == "drop-data":
            env.pop("data")
        elif kind == "drop-dtype":
            env.pop("dtype")
        elif kind == "short" and len(data) > 1 and a.dtype.itemsize > 1:
            env["data"] = data[:-1]
        elif kind == "shape-prod":
            env["shape"] = [x + 1 for x in a.shape]
        elif kind == "shape-neg" and a.size:
            env["shape"] = [-1] + list(a.shape[1:]) if a.ndim > 1 else [-1]
        elif kind == "nd-false":
            env["_nd_"] = False
        elif kind == "extra-key":
            env["zzz"] = 1
        elif kind == "reorder":
            env = dict(reversed(list(env.items())))
        cases.append((kind, env))
    return cases


def check_envelopes(ctx, out: Outcome, cases):
    import msgpack

    from qcelemental.util import deserialize

    lines, recs = [], []
    for kind, env in cases:
        menv = {k.encode(): v for k, v in env.items()}
        mp = msgpack.dumps({"w": [menv]}, use_bin_type=True)
        jenv = {k: (v.hex() if isinstance(v, bytes) else v) for k, v in env.items()}
        jx = json.dumps({"w": [jenv]})
        recs.append((kind, env, mp, jx))
        lines += ["mpd " + mp.hex(), "jxd " + tree(json.loads(jx))]
    model = run_three(ctx, out, lines) if ctx.model_available else None
    for i, (kind, env, mp, jx) in enumerate(recs):
        out.evaluations += 1
        out.count("block:envelope")
        out.count("envelope:" + kind)
        case = {"block": "envelope", "kind": kind, "mp": mp.hex(), "jx": jx}
        res = []
        for enc, blob in (("msgpack-ext", mp), ("json-ext", jx)):
            try:
                res.append(tree(deserialize(blob, enc)))
            except Exception as e:  # noqa
                res.append(exc_kind(e))
        out.count("envelope-outcome:" + (res[0].split()[1] if res[0].startswith("err") else "ok"))
        if kind != "ok":
            out.nontrivial(("envelope", kind, env.get("dtype"), str(env.get("shape"))))
        # a negative first extent (-1) is numpy's "infer": outside the model's shape grammar -> skip the tie there
        if kind == "shape-neg":
            continue
        if model is not None:
            for j, (enc, k) in enumerate((("msgpack-ext", "mismatch:msgpack-ext-decode"), ("json-ext", "mismatch:json-ext-decode"))):
                if model[2 * i + j] != res[j]:
                    out.mismatches.append(Finding(k, {**case, "encoding": enc}, observed=res[j][:300], expected=model[2 * i + j][:300], detail="envelope decode differs (implementation vs model)"))


# ----------------------------------------------------------------------------------------------------------------
# block 4: model instances


def rfloat(rng):
    return rng.choice([0.0, 1.5, -2.25, 0.1, 1 / 3, 1e-12, 123456.789, -1e10]) if rng.random() < 0.4 else rng.uniform(-10, 10)


def rand_json_extras(rng, depth=2):
    """JSON-native scratch content (Dict[str, Any] fields)"""
    def val(d):
        r = rng.random()
        if d <= 0 or r < 0.5:
            return rng.choice([None, True, False, rng.randint(-5, 300), rfloat(rng), "s" * rng.randint(0, 3), "é"])
        if r < 0.75:
            return [val(d - 1) for _ in range(rng.randint(0, 3))]
        return {f"k{j}": val(d - 1) for j in range(rng.randint(0, 3))}
    return {f"e{j}": val(depth) for j in range(rng.randint(0, 3))}


SYMS = ["H", "He", "Li", "C", "N", "O", "F", "Ne", "Na", "Cl", "Ar", "Fe", "Zn", "Br", "Xe", "U"]


def rand_molecule(rng, nmax=6, ctor=None, hp=False):
    """a valid Molecule. `ctor`: extra constructor options (geometry_noise, orient). `hp`: also draw the values the default
    clean-up would not leave alone (coordinates of tiny magnitude, many-digit fractional charge, more often explicit masses);
    with hp=False the draws from `rng` are exactly those of the original generator."""
    from qcelemental.models import Molecule

    ctor = dict(ctor or {})
    n = rng.randint(1, nmax)
    syms = [rng.choice(SYMS) for _ in range(n)]
    geom = [[3.0 * i + rng.uniform(-0.5, 0.5), rng.uniform(-2, 2), rng.uniform(-2, 2)] for i in range(n)]
    if hp:
        for r in geom:
            for j in (1, 2):
                if rng.random() < 0.2:  # below 5e-9 / below the 8-decimal zero flip, above the 13-decimal one
                    r[j] = rng.choice([-1, 1]) * rng.choice([rng.uniform(2e-10, 5e-9), rng.uniform(5e-9, 4e-7), rng.uniform(1e-13, 1e-10)])
    kw = {"symbols": syms, "geometry": geom if rng.random() < 0.5 else [x for r in geom for x in r]}
    if hp and rng.random() < 0.3:
        kw["molecular_charge"] = round(rng.uniform(-1, 1), rng.choice([5, 7, 10, 12]))
    if rng.random() < 0.3:
        kw["name"] = rng.choice(["w", "mol é", ""])
    if rng.random() < 0.3:
        kw["comment"] = "c\n2"
    if rng.random() < 0.3 and n >= 2:
        kw["real"] = [rng.random() < 0.8 for _ in range(n)]
        if not any(kw["real"]):
            kw["real"][0] = True
    if rng.random() < 0.3 and n >= 2:
        cut = rng.randint(1, n - 1)
        kw["fragments"] = [list(range(cut)), list(range(cut, n))]
    if rng.random() < 0.3 and n >= 2:
        i, j = rng.sample(range(n), 2)
        kw["connectivity"] = [[min(i, j), max(i, j), rng.choice([1.0, 2.0, 1.5])]]
    if rng.random() < 0.25:
        kw["atom_labels"] = [rng.choice(["", "a", "1b"]) for _ in range(n)]
    if rng.random() < (0.5 if hp else 0.25):
        kw["masses"] = [rng.uniform(1, 200) for _ in range(n)]
    if rng.random() < 0.3:
        kw["extras"] = rand_json_extras(rng)
    if rng.random() < 0.2:
        kw["fix_com"] = True
        kw["fix_orientation"] = True
    with warnings.catch_warnings():
        warnings.simplefilter("ignore")
        try:
            return Molecule(**kw, **ctor)
        except Exception:  # chg/mult of a random composition may be unsatisfiable with defaults: fall back
            return Molecule(symbols=["He"] * n, geometry=kw["geometry"], **ctor)


# ---- molecules whose stored values are NOT fixed points of the default construction-time clean-up --------------------
# Every validating construction rounds the geometry to GEOMETRY_NOISE (8) decimals, so all molecules of rand_molecule
# hold geometries the clean-up maps to themselves: a parse that re-applies the clean-up (or any other normalisation) to a
# payload already marked validated is invisible on them. The library itself produces valid molecules that keep more
# digits: the public `geometry_noise` constructor option, Molecule.scramble() and Molecule.align() (both build their
# result with geometry_noise=13), with or without orient=True.

HP_NOISE = [9, 10, 11, 12, 13, 13, 14, 15, 16]
HP_ROUTES = ["noise", "noise", "orient", "scramble", "scramble", "align"]


def _rand_rotation(rng):
    """proper rotation matrix from a uniformly drawn unit quaternion (list of lists: scramble(do_rotate=...) wants that)"""
    while True:
        q = [rng.gauss(0, 1) for _ in range(4)]
        nn = sum(x * x for x in q) ** 0.5
        if nn > 1e-3:
            break
    w, x, y, z = (c / nn for c in q)
    return [[1 - 2 * (y * y + z * z), 2 * (x * y - z * w), 2 * (x * z + y * w)],
            [2 * (x * y + z * w), 1 - 2 * (x * x + z * z), 2 * (y * z - x * w)],
            [2 * (x * z - y * w), 2 * (y * z + x * w), 1 - 2 * (x * x + y * y)]]


def beyond_decimals(mol, k):
    """does the stored geometry carry digits beyond k decimals (i.e. is it changed by rounding to k decimals)?"""
    g = np.asarray(mol.geometry, dtype=float)
    return not np.array_equal(g, np.around(g, k))


def rand_molecule_hp(rng, nmax=6, trace=None):
    """a valid (validated=True) Molecule whose stored geometry keeps more than 8 decimals, built through the public
    routes that do so; everything is drawn from `rng` (scramble gets explicit shift/rotation/permutation), so a seed replays"""
    from qcelemental.models import Molecule

    for _attempt in range(6):
        route = rng.choice(HP_ROUTES)
        try:
            if route == "noise":
                m = rand_molecule(rng, nmax, ctor={"geometry_noise": rng.choice(HP_NOISE)}, hp=True)
            elif route == "orient":
                m = rand_molecule(rng, nmax, ctor={"geometry_noise": rng.choice(HP_NOISE), "orient": True}, hp=True)
            else:
                # align() maps the concern molecule back onto `ref`: its result keeps extra digits only if `ref` does
                ref_hp = route == "align" or rng.random() < 0.5
                ref = rand_molecule(rng, nmax, ctor={"geometry_noise": rng.choice(HP_NOISE)} if ref_hp else None, hp=ref_hp)
                nat = len(ref.symbols)
                perm = list(range(nat))
                resort = route == "scramble" and rng.random() < 0.5
                if resort:
                    rng.shuffle(perm)
                m, _ = ref.scramble(do_shift=[rng.uniform(-3, 3) for _ in range(3)] if rng.random() < 0.8 else False,
                                    do_rotate=_rand_rotation(rng) if rng.random() < 0.8 else False,
                                    do_resort=perm if resort else False, do_mirror=rng.random() < 0.15,
                                    do_plot=False, do_test=False, verbose=0)
                if route == "align":
                    # atoms_map=True: no re-ordering search (that needs networkx); the result is built with geometry_noise=13
                    m, _ = m.align(ref, atoms_map=True, mols_align=rng.random() < 0.5, verbose=0)
        except Exception:  # noqa  (a helper refusing a random composition is not this property's subject)
            continue
        if isinstance(m, Molecule) and m.validated and beyond_decimals(m, 8):
            if trace is not None:
                trace.append(route)
            return m
    n = rng.randint(1, nmax)
    if trace is not None:
        trace.append("noise-fallback")
    return Molecule(symbols=["He"] * n, geometry=[[3.0 * i + 0.123456789012345, rng.uniform(-2, 2), rng.uniform(-2, 2)] for i in range(n)], geometry_noise=13)


def rand_basis(rng, natom):
    from qcelemental.models import BasisSet

    centers = {}
    for name in ["c1", "c2"][: rng.randint(1, 2)]:
        shells = []
        for _ in range(rng.randint(1, 2)):
            ne = rng.randint(1, 3)
            am = rng.choice([[0], [1], [0, 1], [2]])
            shells.append({"harmonic_type": rng.choice(["spherical", "cartesian"]), "angular_momentum": am,
                           "exponents": [rng.uniform(0.1, 100) for _ in range(ne)],
                           "coefficients": [[rfloat(rng) + 0.5 for _ in range(ne)] for _ in am]})
        c = {"electron_shells": shells}
        if rng.random() < 0.3:
            c["ecp_electrons"] = 10
            c["ecp_potentials"] = [{"ecp_type": "scalar", "angular_momentum": [0], "r_exponents": [2, 2], "gaussian_exponents": [7.4, 3.7], "coefficients": [[135.1, 15.5]]}]
        centers[name] = c
    names = list(centers)
    return BasisSet(name=rng.choice(["sto-3g", "custom"]), center_data=centers, atom_map=[rng.choice(names) for _ in range(natom)],
                    **({"description": "d"} if rng.random() < 0.3 else {}))


def rand_atomic_result(rng, mol=None, allow_wfn=True):
    from qcelemental.models import AtomicResult

    mol = mol or rand_molecule(rng)
    n = len(mol.symbols)
    driver = rng.choice(["energy", "gradient", "hessian", "properties"])
    props = {"calcinfo_natom": n}
    if rng.random() < 0.6:
        props["return_energy"] = rfloat(rng)
    if rng.random() < 0.5:
        props["scf_dipole_moment"] = [rfloat(rng) for _ in range(3)]
    if rng.random() < 0.4:
        props["scf_quadrupole_moment"] = np.array([rfloat(rng) for _ in range(9)]).reshape(3, 3)
    if rng.random() < 0.4:
        props["return_gradient"] = np.array([rfloat(rng) for _ in range(3 * n)]).reshape(n, 3)
    if rng.random() < 0.3:
        props["scf_total_hessian"] = np.array([rfloat(rng) for _ in range(9 * n * n)])
    # every array-valued property the model declares gets its turn, in its declared shape (the plain encodings write it flat and
    # rely on the field's validator to restore the shape)
    from qcelemental.models import AtomicResultProperties as _ARP

    for fname in sorted(_ARP.__fields__):
        if fname in props or rng.random() >= 0.12:
            continue
        if fname.endswith("_gradient"):
            props[fname] = np.array([rfloat(rng) for _ in range(3 * n)]).reshape(n, 3)
        elif fname.endswith("_hessian"):
            props[fname] = np.array([rfloat(rng) for _ in range(9 * n * n)]).reshape(3 * n, 3 * n)
        elif fname.endswith("_dipole_moment"):
            props[fname] = np.array([rfloat(rng) for _ in range(3)])
        elif fname.endswith("_quadrupole_moment"):
            props[fname] = np.array([rfloat(rng) for _ in range(9)]).reshape(3, 3)
    if rng.random() < 0.3:
        props["scf_iterations"] = rng.randint(1, 300)
    if driver == "energy":
        rr = rfloat(rng)
    elif driver == "gradient":
        rr = np.array([rfloat(rng) for _ in range(3 * n)]).reshape(n, 3) if rng.random() < 0.5 else [rfloat(rng) for _ in range(3 * n)]
    elif driver == "hessian":
        rr = np.array([rfloat(rng) for _ in range(9 * n * n)]).reshape(3 * n, 3 * n)
    else:
        rr = {"a": rfloat(rng), "b": [1, 2], "c": {"d": "x"}}
    # Provenance and Model accept additional attributes (extra = "allow"): they are field values of the instance like any other
    prov_extra = {"module": "scf", "nthreads": 4, "wall": rfloat(rng)} if rng.random() < 0.4 else {}
    model_extra = {"dispersion": "d3bj", "grid": [75, 302]} if rng.random() < 0.3 else {}
    kw = dict(molecule=mol, driver=driver, model={"method": "hf", **({"basis": "sto-3g"} if rng.random() < 0.5 else {}), **model_extra}, return_result=rr,
              properties=props, success=True, provenance={"creator": "c10", **({"version": "1.0"} if rng.random() < 0.5 else {}), **prov_extra})
    if rng.random() < 0.4:
        kw["stdout"] = "line1\nline2 é"
    if rng.random() < 0.3:
        kw["keywords"] = rand_json_extras(rng)
    if rng.random() < 0.3:
        kw["extras"] = rand_json_extras(rng)
    if rng.random() < 0.2:
        kw["id"] = "42"
    if allow_wfn and rng.random() < 0.35:
        bs = rand_basis(rng, n)
        nbf = bs.nbf
        nmo = rng.choice([0, 1, nbf, max(nbf - 1, 0)])
        w = {"basis": bs, "restricted": rng.random() < 0.5}
        w["scf_orbitals_a"] = np.array([rfloat(rng) for _ in range(nbf * nmo)]).reshape(nbf, nmo)
        w["orbitals_a"] = "scf_orbitals_a"
        w["scf_eigenvalues_a"] = np.array([rfloat(rng) for _ in range(nmo)])
        w["eigenvalues_a"] = "scf_eigenvalues_a"
        if rng.random() < 0.5:
            w["scf_fock_a"] = np.array([rfloat(rng) for _ in range(nbf * nbf)]).reshape(nbf, nbf)
            w["fock_a"] = "scf_fock_a"
        if rng.random() < 0.4:
            w["scf_density_a"] = np.array([rfloat(rng) for _ in range(nbf * nbf)])
            w["density_a"] = "scf_density_a"
        if not w["restricted"] or rng.random() < 0.5:
            # beta quantities: kept for an unrestricted wavefunction, pruned at construction for a restricted one
            w["scf_orbitals_b"] = np.array([rfloat(rng) for _ in range(nbf * nmo)]).reshape(nbf, nmo)
            w["orbitals_b"] = "scf_orbitals_b"
            w["scf_eigenvalues_b"] = np.array([rfloat(rng) for _ in range(nmo)])
            w["eigenvalues_b"] = "scf_eigenvalues_b"
        # the wavefunction as a dictionary or as an already built WavefunctionProperties object; under every retention policy
        if rng.random() < 0.4:
            from qcelemental.models.results import WavefunctionProperties

            w = WavefunctionProperties(**w)
        kw["wavefunction"] = w
        kw["protocols"] = {"wavefunction": rng.choice(["all", "all", "orbitals_and_eigenvalues", "return_results", "none"])}
    return AtomicResult(**kw)


HP_SUFFIX = "+hp"
HP_KINDS = ["Molecule", "AtomicInput", "Molecule", "AtomicResult", "OptimizationInput", "OptimizationResult"]


def rand_instance(rng, which=None, trace=None):
    """`which` = model name, optionally + '+hp': every molecule inside comes from rand_molecule_hp (routes -> `trace`)"""
    from qcelemental.models import AlignmentMill, AtomicInput, OptimizationInput, OptimizationResult

    if which and which.endswith(HP_SUFFIX):
        return rand_instance_hp(rng, which[: -len(HP_SUFFIX)], trace)
    which = which or rng.choice(["Molecule", "AtomicInput", "AtomicResult", "AtomicResult", "OptimizationInput", "OptimizationResult", "BasisSet", "AlignmentMill"])
    if which == "Molecule":
        return which, rand_molecule(rng)
    if which == "AtomicInput":
        kw = dict(molecule=rand_molecule(rng), driver=rng.choice(["energy", "gradient", "hessian", "properties"]), model={"method": "b3lyp", "basis": "6-31g"})
        if rng.random() < 0.5:
            kw["keywords"] = rand_json_extras(rng)
        if rng.random() < 0.3:
            kw["extras"] = rand_json_extras(rng)
        if rng.random() < 0.3:
            kw["protocols"] = {"stdout": False, "wavefunction": rng.choice(["all", "none", "orbitals_and_eigenvalues"])}
        if rng.random() < 0.2:
            kw["model"] = {"method": "hf", "basis": rand_basis(rng, len(kw["molecule"].symbols))}
        return which, AtomicInput(**kw)
    if which == "AtomicResult":
        return which, rand_atomic_result(rng)
    spec = {"driver": "gradient", "model": {"method": "hf", "basis": "sto-3g"}, **({"keywords": rand_json_extras(rng)} if rng.random() < 0.4 else {})}
    if which == "OptimizationInput":
        kw = dict(initial_molecule=rand_molecule(rng), input_specification=spec, keywords={"program": "psi4", **rand_json_extras(rng, 1)})
        if rng.random() < 0.3:
            kw["protocols"] = {"trajectory": rng.choice(["all", "initial_and_final", "final", "none"])}
        return which, OptimizationInput(**kw)
    if which == "OptimizationResult":
        mol = rand_molecule(rng, 4)
        traj = [rand_atomic_result(rng, mol, allow_wfn=False) for _ in range(rng.randint(0, 2))]
        return which, OptimizationResult(initial_molecule=mol, input_specification=spec, final_molecule=mol if rng.random() < 0.8 else None, trajectory=traj,
                                         energies=[rfloat(rng) for _ in traj], success=True, provenance={"creator": "c10"}, **({"stdout": "o"} if rng.random() < 0.3 else {}))
    if which == "BasisSet":
        return which, rand_basis(rng, rng.randint(1, 4))
    kw = {}
    if rng.random() < 0.7:
        kw["shift"] = [rfloat(rng) for _ in range(3)]
    if rng.random() < 0.7:
        kw["rotation"] = np.array([rfloat(rng) for _ in range(9)]).reshape(3, 3) if rng.random() < 0.5 else [rfloat(rng) for _ in range(9)]
    if rng.random() < 0.7:
        n = rng.randint(0, 5)
        p = list(range(n))
        rng.shuffle(p)
        kw["atommap"] = p
    if rng.random() < 0.5:
        kw["mirror"] = rng.random() < 0.5
    return "AlignmentMill", AlignmentMill(**kw)


def rand_instance_hp(rng, which, trace=None):
    """the molecule-carrying models with molecules that keep more than 8 decimals in every molecule slot"""
    from qcelemental.models import AtomicInput, OptimizationInput, OptimizationResult

    if which == "Molecule":
        return which, rand_molecule_hp(rng, trace=trace)
    if which == "AtomicInput":
        kw = dict(molecule=rand_molecule_hp(rng, trace=trace), driver=rng.choice(["energy", "gradient", "hessian", "properties"]), model={"method": "b3lyp", "basis": "6-31g"})
        if rng.random() < 0.4:
            kw["keywords"] = rand_json_extras(rng)
        return which, AtomicInput(**kw)
    if which == "AtomicResult":
        return which, rand_atomic_result(rng, rand_molecule_hp(rng, trace=trace))
    spec = {"driver": "gradient", "model": {"method": "hf", "basis": "sto-3g"}}
    if which == "OptimizationInput":
        return which, OptimizationInput(initial_molecule=rand_molecule_hp(rng, trace=trace), input_specification=spec, keywords={"program": "psi4", **rand_json_extras(rng, 1)})
    if which == "OptimizationResult":
        # initial, final and every trajectory step hold their own molecule
        mols = [rand_molecule_hp(rng, 4, trace=trace) for _ in range(rng.randint(2, 4))]
        traj = [rand_atomic_result(rng, m, allow_wfn=False) for m in mols[1:]]
        return which, OptimizationResult(initial_molecule=mols[0], input_specification=spec, final_molecule=mols[-1] if rng.random() < 0.8 else None, trajectory=traj,
                                         energies=[rfloat(rng) for _ in traj], success=True, provenance={"creator": "c10"})
    raise ValueError(f"no high-precision family for {which}")


def shape_sig(d, path=""):
    out = []
    if isinstance(d, np.ndarray):
        out.append(f"{path}:{d.dtype.str}{d.shape}")
    elif isinstance(d, dict):
        for k, v in d.items():
            out += shape_sig(v, path + "." + k)
    elif isinstance(d, (list, tuple)):
        for i, v in enumerate(d[:3]):
            out += shape_sig(v, path + f"[{i}]")
    return out


def out_key(obj, name):
    """payload key of a field: Molecule writes aliases (by_alias=True), everything else field names"""
    from qcelemental.models import Molecule

    return obj.__fields__[name].alias if isinstance(obj, Molecule) else name


def option_sets(rng, obj):
    # include/exclude select by FIELD NAME (pydantic's semantics); only fields that are written at all are interesting
    present = set(obj.dict().keys())
    fields = [n for n in obj.__fields__ if out_key(obj, n) in present]
    opts = [{}]
    if len(fields) > 1:
        ex = set(rng.sample(fields, rng.randint(1, min(2, len(fields) - 1))))
        opts.append({"exclude": ex})
        inc = set(rng.sample(fields, rng.randint(1, len(fields))))
        opts.append({"include": inc})
    opts.append({"exclude_none": True})
    opts.append({"exclude_unset": True})
    opts.append({"exclude_defaults": True})
    return opts


def check_instance(ctx, out: Outcome, name, obj, case_seed, files_dir=None, only=None, family=None):
    """oracle on one model instance: 4 encodings x option sets. `family`: generator family tag (evidence/distinctness only)"""
    from qcelemental.models import Molecule
    from qcelemental.util import deserialize, serialize

    cls = type(obj)
    rng = ctx.rng
    base = obj.dict()
    sig = shape_sig(base)
    multi = any("," in s.split("(")[-1].rstrip(")").rstrip(",") and len(s.split("(")[-1].rstrip(")").split(",")) > 1 and s.split("(")[-1].rstrip(")").split(",")[1].strip() != "" for s in sig)
    for enc in ENCODINGS:
        for opts in option_sets(rng, obj):
            if only and (only.get("encoding") != enc or only.get("options") != _opts_json(opts)):
                continue
            out.evaluations += 1
            out.count("model:" + name)
            out.count("encoding:" + enc)
            out.count("options:" + (",".join(sorted(opts)) or "none"))
            case = {"block": "model", "model": name, "seed": case_seed, "encoding": enc, "options": _opts_json(opts)}
            if family:
                out.count("family:" + family.split("|")[0])
                out.nontrivial(("model", name, enc, ",".join(sorted(opts)), family, "|".join(sig)[:300]))
            elif multi or opts:
                out.nontrivial(("model", name, enc, ",".join(sorted(opts)), "|".join(sig)[:300]))
            try:
                blob = obj.serialize(enc, **opts)
            except Exception as e:  # noqa
                msg = f"{type(e).__name__}: {e}"[:400]
                hits = optional_array_fields_not_size1(obj)
                if set(opts) == {"exclude_defaults"} and isinstance(e, ValueError) and str(e).startswith("The truth value of an") and hits:
                    # recorded class (reported upstream; see known_findings.json): NOT tolerated under any other option/exception
                    out.count("known-class:exclude_defaults_array_field")
                    out.violations.append(Finding(KNOWN_KIND_EXCLUDE_DEFAULTS, {**case, "optional_array_fields": hits[:6]}, observed=msg,
                                                  detail="serialize(exclude_defaults=True) raises on a valid instance holding an Optional Array field of size != 1"))
                else:
                    out.violations.append(Finding("oracle:model_serialize_raises", case, observed=msg, detail="a valid instance cannot be serialised"))
                continue
            if set(opts) == {"exclude_defaults"} and optional_array_fields_not_size1(obj):
                # the recorded class stopped raising: fine (a fix landed) — the ordinary demands below now apply to it
                out.count("known-class:exclude_defaults_array_field:now-serialises")
            want_ty = str if enc.startswith("json") else bytes
            if not isinstance(blob, want_ty):
                out.violations.append(Finding("oracle:payload_type", case, observed=type(blob).__name__, expected=want_ty.__name__, detail="payload type of the writer"))
                continue
            # what the payload must contain: exactly the selected fields of obj.dict(**opts)
            try:
                expected_dict = obj.dict(**copy.deepcopy(opts))
                raw = deserialize(blob, enc)
            except Exception as e:  # noqa
                out.violations.append(Finding("oracle:model_roundtrip", case, observed=f"{type(e).__name__}: {e}"[:400], detail="payload cannot be deserialised"))
                continue
            # the field selection, stated from the options' meaning and NOT through obj.dict(**opts) (same code path):
            # exclude -> the unselected payload's keys minus the excluded fields; include -> intersected with them
            want_keys = set(expected_dict.keys())
            if "exclude" in opts:
                want_keys = set(base.keys()) - {out_key(obj, n) for n in opts["exclude"]}
            elif "include" in opts:
                want_keys = set(base.keys()) & {out_key(obj, n) for n in opts["include"]}
            if set(raw.keys()) != want_keys:
                out.violations.append(Finding("oracle:include_exclude", case, observed=sorted(raw.keys()), expected=sorted(want_keys), detail="payload fields differ from the include/exclude selection"))
                continue
            if set(expected_dict.keys()) != want_keys:
                out.violations.append(Finding("oracle:include_exclude", case, observed=sorted(expected_dict.keys()), expected=sorted(want_keys), detail="dict(**options) fields differ from the include/exclude selection"))
                continue
            # a payload is a whole instance when nothing was selected away: no include/exclude, and the value-dropping
            # options only removed fields whose value the parser re-applies (None / defaults / unset)
            # (None / defaults / unset) — except that a required-but-nullable field (OptimizationResult.final_molecule)
            # dropped by exclude_none leaves a partial payload, exactly as include/exclude do
            full = not ({"include", "exclude"} & set(opts)) and _required(cls) <= set(raw.keys())
            if not full:
                # a partial payload is not an instance: the property can only ask that exactly the selected fields are
                # there (checked above) and that each selected value survives
                out.count("partial-payload")
                d = selected_same(expected_dict, raw, enc in EXT)
                if d:
                    out.violations.append(Finding("oracle:include_exclude", case, observed=d, detail="a selected field's value does not survive the encoding"))
                continue
            try:
                back = cls.parse_raw(blob, encoding=enc)
            except Exception as e:  # noqa
                out.violations.append(Finding("oracle:model_roundtrip", case, observed=f"{type(e).__name__}: {e}"[:400], detail="parse_raw raised on what serialize wrote"))
                continue
            d = inst_same(obj, back)
            if d:
                out.violations.append(Finding("oracle:model_roundtrip", case, observed=d, detail="instance after the round trip differs from the original (field values / array shapes)"))
            for a_m, b_m, where in _molecules(obj, back):
                if a_m.get_hash() != b_m.get_hash():
                    out.violations.append(Finding("oracle:molecule_hash", case, observed=b_m.get_hash(), expected=a_m.get_hash(), detail=f"molecule hash changed through the round trip ({where})"))
            if full:
                try:
                    again = back.serialize(enc, **opts)
                except Exception as e:  # noqa
                    again = f"{type(e).__name__}: {e}"
                if again != blob:
                    only_empty = None
                    if set(opts) == {"exclude_defaults"} and isinstance(again, type(blob)):
                        try:
                            only_empty = emptied_submodel_keys(deserialize(blob, enc), deserialize(again, enc))
                        except Exception:  # noqa
                            only_empty = None
                    extra_perm = None
                    if isinstance(again, type(blob)):
                        try:
                            extra_perm = extra_order_only(deserialize(blob, enc), deserialize(again, enc))
                        except Exception:  # noqa
                            extra_perm = None
                    if extra_perm:
                        # recorded class: same values, only the additional attributes of an extra="allow" sub-model listed in another order
                        out.count("known-class:reserialise_extra_attribute_order")
                        out.violations.append(Finding(KNOWN_KIND_EXTRA_ORDER, {**case, "permuted": [list(x) for x in extra_perm[:4]]}, observed=str(again)[:300], expected=str(blob)[:300],
                                                      detail="second payload lists the additional attributes of an extra='allow' sub-model in another order (set iteration in pydantic-v1 validate_model; depends on PYTHONHASHSEED)"))
                    elif only_empty:
                        # recorded class (reported upstream): the two payloads differ ONLY by keys that hold an empty dict in
                        # the first payload (a sub-model whose explicitly-set fields all equal their defaults)
                        out.count("known-class:reserialise_exclude_defaults_setness")
                        out.violations.append(Finding(KNOWN_KIND_RESER_SETNESS, {**case, "emptied_keys": only_empty[:6]}, observed=str(again)[:300], expected=str(blob)[:300],
                                                      detail="exclude_defaults: first payload keeps `key: {}` for a sub-model set explicitly to its defaults, the second drops the key"))
                    else:
                        out.violations.append(Finding("oracle:reserialise", case, observed=str(again)[:300], expected=str(blob)[:300], detail="second serialisation is not the identical payload"))
                # automatic encoding for the writers the property names
                if not opts and enc in ("json", "msgpack-ext", "msgpack"):
                    try:
                        auto = cls.parse_raw(blob)
                        d2 = inst_same(obj, auto)
                    except Exception as e:  # noqa
                        d2 = f"{type(e).__name__}: {e}"[:300]
                    if d2:
                        out.violations.append(Finding("oracle:auto_encoding", case, observed=d2, detail="parse_raw without an encoding does not read what the corresponding writer wrote"))
            # dict(encoding="json") is the JSON-native form of the same payload
            if not opts and enc == "json":
                try:
                    dj = obj.dict(encoding="json")
                    if dj != json.loads(blob):
                        out.violations.append(Finding("oracle:dict_encoding_json", case, detail="dict(encoding='json') differs from json.loads(serialize('json'))"))
                except Exception as e:  # noqa
                    out.violations.append(Finding("oracle:dict_encoding_json", case, observed=f"{type(e).__name__}: {e}"[:300]))
    # files by suffix
    if files_dir is not None and not only:
        check_files(ctx, out, name, obj, case_seed, files_dir)


def _opts_json(opts):
    return {k: (sorted(v) if isinstance(v, set) else v) for k, v in opts.items()}


def _required(cls):
    return {(f.alias if cls.__name__ == "Molecule" else n) for n, f in cls.__fields__.items() if f.required}


def _molecules(a, b):
    from qcelemental.models import Molecule

    if isinstance(a, Molecule) and isinstance(b, Molecule):
        yield a, b, "self"
        return
    for f in ("molecule", "initial_molecule", "final_molecule"):
        x, y = getattr(a, f, None), getattr(b, f, None)
        if isinstance(x, Molecule) and isinstance(y, Molecule):
            yield x, y, f
    for i, (x, y) in enumerate(zip(getattr(a, "trajectory", None) or [], getattr(b, "trajectory", None) or [])):
        yield x.molecule, y.molecule, f"trajectory[{i}].molecule"


def _all_molecules(obj):
    from qcelemental.models import Molecule

    if isinstance(obj, Molecule):
        yield obj
        return
    for f in ("molecule", "initial_molecule", "final_molecule"):
        x = getattr(obj, f, None)
        if isinstance(x, Molecule):
            yield x
    for step in getattr(obj, "trajectory", None) or []:
        yield step.molecule


def hp_account(out: Outcome, obj, trace):
    """evidence that the high-precision family is what it claims (independent of how it was generated)"""
    out.count("hp:instances")
    for r in trace:
        out.count("hp-route:" + r)
    for m in _all_molecules(obj):
        out.count("hp:molecules")
        if beyond_decimals(m, 8):
            out.count("hp:molecules-geometry-beyond-8-decimals")
        if beyond_decimals(m, 13):
            out.count("hp:molecules-geometry-beyond-13-decimals")
        g = np.abs(np.asarray(m.geometry, dtype=float))
        if ((g > 0) & (g < 5e-9)).any():
            out.count("hp:molecules-with-coordinate-below-5e-9")
        if float(m.molecular_charge) != round(float(m.molecular_charge), 4):
            out.count("hp:molecules-charge-beyond-4-decimals")


def check_files(ctx, out: Outcome, name, obj, case_seed, d):
    """suffix choice: the reader picked for a suffix reads what the writer picked for that suffix wrote"""
    from qcelemental.models import Molecule

    cls = type(obj)
    base = obj.dict()
    if isinstance(obj, Molecule):
        for suf in (".json", ".msgpack"):
            p = os.path.join(d, f"m{suf}")
            case = {"block": "files", "model": name, "seed": case_seed, "suffix": suf}
            out.evaluations += 1
            out.count("files:Molecule" + suf)
            out.nontrivial(("files", name, suf))
            try:
                obj.to_file(p)
                back = Molecule.from_file(p)
                back2 = Molecule.parse_file(p)
            except Exception as e:  # noqa
                out.violations.append(Finding("oracle:file_suffix", case, observed=f"{type(e).__name__}: {e}"[:300], detail="to_file/from_file/parse_file by suffix"))
                continue
            for b, who in ((back, "from_file"), (back2, "parse_file")):
                if b.get_hash() != obj.get_hash():
                    out.violations.append(Finding("oracle:file_suffix", case, observed=b.get_hash(), expected=obj.get_hash(), detail=f"{who} after to_file: molecule hash differs"))
                else:
                    # both readers hand back the whole instance: parse_file is a pure parse, and from_file passes the payload (which
                    # carries validated=True) to from_data without re-validating it — every field, provenance included, as written
                    dd = inst_same(obj, b)
                    if dd:
                        out.violations.append(Finding("oracle:file_suffix", case, observed=dd, detail=f"{who} after to_file: fields differ"))
    else:
        for enc, suf, mode in (("json", ".json", "w"), ("json", ".js", "w"), ("msgpack-ext", ".msgpack", "wb"), ("msgpack", ".msgpack", "wb")):
            p = os.path.join(d, f"x{suf}")
            case = {"block": "files", "model": name, "seed": case_seed, "suffix": suf, "encoding": enc}
            out.evaluations += 1
            out.count(f"files:{enc}{suf}")
            out.nontrivial(("files", name, enc, suf))
            try:
                with open(p, mode) as fh:
                    fh.write(obj.serialize(enc))
                back = cls.parse_file(p)
                dd = inst_same(obj, back)
            except Exception as e:  # noqa
                dd = f"{type(e).__name__}: {e}"[:300]
            if dd:
                out.violations.append(Finding("oracle:file_suffix", case, observed=dd, detail="parse_file by suffix does not read what the writer of that encoding wrote"))


def instances_block(ctx, out: Outcome):
    import random

    n = ctx.scale(70, 900)
    d = tempfile.mkdtemp(prefix="c10-", dir=str(ctx.work))
    kinds = ["Molecule", "AtomicInput", "AtomicResult", "OptimizationInput", "OptimizationResult", "BasisSet", "AlignmentMill"]
    for i in range(n):
        seed = ctx.rng.getrandbits(48)
        sub = random.Random(seed)
        which = kinds[i % len(kinds)] if i < 2 * len(kinds) else None
        saved = ctx.rng
        ctx.rng = sub
        try:
            with warnings.catch_warnings():
                warnings.simplefilter("ignore")
                name, obj = rand_instance(sub, which)
                check_instance(ctx, out, name, obj, {"seed": seed, "which": which}, files_dir=d)
        finally:
            ctx.rng = saved
        if len(out.samples) < 6 and i % 11 == 0:
            out.sample({"model": name, "arrays": shape_sig(obj.dict())[:5]})
    # high-precision molecules (geometry beyond the default 8 decimals), alone and in every molecule slot of the other
    # models: drawn AFTER the block above so that its instances are unchanged for a given VERIF_SEED
    n_hp = ctx.scale(300, 2400)
    for i in range(n_hp):
        seed = ctx.rng.getrandbits(48)
        sub = random.Random(seed)
        which = HP_KINDS[i % len(HP_KINDS)] + HP_SUFFIX
        saved = ctx.rng
        ctx.rng = sub
        try:
            with warnings.catch_warnings():
                warnings.simplefilter("ignore")
                trace = []
                name, obj = rand_instance(sub, which, trace)
                hp_account(out, obj, trace)
                check_instance(ctx, out, name, obj, {"seed": seed, "which": which}, files_dir=d, family="hp-geometry|" + ",".join(trace))
        finally:
            ctx.rng = saved
        if i < 2:
            out.sample({"model": name, "family": "hp-geometry", "routes": trace, "geometry[0]": [repr(float(x)) for x in next(_all_molecules(obj)).geometry[0]]}, limit=8)


# ----------------------------------------------------------------------------------------------------------------
# block 5: dispatch tables — implementation behaviour vs model cells (incl. the rejecting json-ext/auto cell)


def tables_block(ctx, out: Outcome):
    from qcelemental.models import AlignmentMill

    mill = AlignmentMill(shift=[1.0, 2.0, 3.5], rotation=np.arange(9.0).reshape(3, 3) / 7, atommap=[1, 0])
    base = mill.dict()
    lines = ["auto str", "auto bytes"] + [f"reader {e}" for e in ENCODINGS]
    readers = ["pyd-json", "json-ext", "msgpack-ext"]
    lines += [f"reads {r} {e}" for r in readers for e in ENCODINGS]
    model = ctx.run_model(DRIVER, lines) if ctx.model_available else None
    if model is None:
        return
    m = dict(zip(lines, model))
    # behavioural cells: does parse_raw(blob, encoding=r_enc) read a payload written with w_enc (arrays included)?
    rd_enc = {"pyd-json": "json", "json-ext": "json-ext", "msgpack-ext": "msgpack-ext"}
    for w in ENCODINGS:
        try:
            blob = mill.serialize(w)
        except Exception as e:  # noqa
            out.evaluations += 1
            out.violations.append(Finding("oracle:model_serialize_raises", {"block": "tables", "writer": w}, observed=f"{type(e).__name__}: {e}"[:300],
                                          detail="a valid AlignmentMill cannot be serialised with a supported encoding"))
            continue
        # auto
        out.evaluations += 1
        out.count("tables:auto")
        ty = "str" if isinstance(blob, str) else "bytes"
        auto_enc = m[f"auto {ty}"]
        expect_read = m[f"reads {m['reader ' + auto_enc]} {w}"] == "yes"
        try:
            back = AlignmentMill.parse_raw(blob)
            got = inst_same(mill, back) is None
        except Exception:  # noqa
            got = False
        out.nontrivial(("auto", w))
        if got != expect_read:
            out.mismatches.append(Finding("mismatch:auto-table", {"block": "tables", "writer": w, "reader": "auto"}, observed=got, expected=expect_read, detail="parse_raw(encoding=None) readability differs from the model's table cell"))
        for r in readers:
            out.evaluations += 1
            out.count("tables:reads")
            expect = m[f"reads {r} {w}"] == "yes"
            if (rd_enc[r].startswith("json")) != isinstance(blob, str):
                continue  # str/bytes type assertion cells: not a readability question
            try:
                back = AlignmentMill.parse_raw(blob, encoding=rd_enc[r])
                got = inst_same(mill, back) is None
            except Exception:  # noqa
                got = False
            out.nontrivial(("reads", r, w))
            if got != expect:
                out.mismatches.append(Finding("mismatch:reads-table", {"block": "tables", "writer": w, "reader": r}, observed=got, expected=expect, detail="parse_raw readability differs from the model's table cell"))
    for n, mm, k in ((3, 3, 9), (3, 3, 8), (0, 3, 0), (4, 3, 12), (2, 3, 7)):
        out.evaluations += 1
        out.count("tables:reshape")
        line = ctx.run_model(DRIVER, [f"reshape {n} {mm} {k}"])[0]
        try:
            np.zeros(k).reshape(n, mm)
            got = f"ok {n}"
        except ValueError:
            got = "none"
        if got != line:
            out.mismatches.append(Finding("mismatch:reshape", {"block": "tables", "n": n, "m": mm, "len": k}, observed=got, expected=line))


# ----------------------------------------------------------------------------------------------------------------


DISPATCH_SPELLINGS = ["json", "json-ext", "msgpack", "msgpack-ext", "JSON", "Json-Ext", "MSGPACK", "MsgPack-EXT", "jSoN", "msgpack_ext", "jsonext", "json ", " json",
                      "", "msgpack-ex", "msgpack-ext2", "yaml", "bson", "json-EXT", "Msgpack"]


def dispatch_block(ctx, out: Outcome):
    """serialize()/deserialize() dispatch on the encoding STRING (`encoding.lower()` chains): hand model | source-derived |
    implementation, on every spelling of DISPATCH_SPELLINGS plus random case variants of the four names."""
    from qcelemental.util import deserialize, serialize

    rng = ctx.rng
    names = list(DISPATCH_SPELLINGS)
    for _ in range(ctx.scale(12, 60)):
        b = rng.choice(ENCODINGS)
        names.append("".join(c.upper() if rng.random() < 0.5 else c for c in b))
    payload = {"a": np.arange(6.0).reshape(2, 3), "b": [1, "x"]}
    lines = ["disp " + hx(n.encode("utf-8")) for n in names]
    model = run_three(ctx, out, lines) if ctx.model_available else None
    # ---- evaluation-order corner of jsonext_decode (corrupted envelope: `data` not a hex string AND `dtype` missing): Python raises the
    #      buffer error of bytes.fromhex(obj["data"]) before the KeyError of obj["dtype"].  The hand model classes it KeyData (documented,
    #      Props/C10Src.lean: jxHookOrd / jsonext_decode_src_full); here the implementation is compared with the SOURCE-DERIVED side only.
    if ctx.model_available:
        corner = []
        for _ in range(ctx.scale(8, 40)):
            env = {"_nd_": rng.choice([True, 1, "x"]), "data": rng.choice([5, None, "zz", "abc", [1], "0g", True, "a b", 2.5])}
            if rng.random() < 0.5:
                env["shape"] = [2]
            corner.append(env)
        clines = ["jxd " + tree({"w": [e]}) for e in corner]
        cres = ctx.run_model(DRIVER, clines)
        for env, ln, r in zip(corner, clines, cres):
            out.evaluations += 1
            out.count("envelope:order-corner")
            out.nontrivial(("envelope", "order-corner", repr(env["data"]), "shape" in env))
            hand, _, sside = r.rpartition(" || ")
            sside = hand if sside == "=" else sside
            try:
                i_dec = tree(deserialize(json.dumps({"w": [env]}), "json-ext"))
            except Exception as e:  # noqa
                i_dec = exc_kind(e)
            if sside != i_dec:
                out.mismatches.append(Finding("mismatch:source-derived-decode", {"block": "three-way", "op": "jxd", "line": ln}, observed=i_dec, expected=sside,
                                              detail="corrupted-envelope corner: the implementation differs from jsonext_decode as regenerated from the source"))
    canon = {}
    for e in ENCODINGS:
        try:
            canon[e] = serialize(payload, e)
        except Exception as exc:  # noqa
            out.evaluations += 1
            out.violations.append(Finding("oracle:dispatch_writer", {"block": "dispatch", "encoding": e}, observed=f"{type(exc).__name__}: {exc}"[:300], expected="a payload",
                                          detail="serialize(data, <supported encoding name>) raises on a dict holding a (2,3) float64 array"))
    if len(canon) != len(ENCODINGS):
        return  # the spellings cannot be classified without the four canonical payloads; the failing input is recorded above
    wname = {"json": "json_dumps", "json-ext": "jsonext_dumps", "msgpack": "msgpack_dumps", "msgpack-ext": "msgpackext_dumps"}
    rname = {"json": "json_loads", "json-ext": "jsonext_loads", "msgpack": "msgpack_loads", "msgpack-ext": "msgpackext_loads"}
    for i, n in enumerate(names):
        out.evaluations += 1
        out.count("tables:dispatch-spelling")
        out.nontrivial(("dispatch", n))
        case = {"block": "dispatch", "encoding": n}
        # implementation: which writer / reader does this spelling reach?
        try:
            blob = serialize(payload, n)
            hit = [e for e in ENCODINGS if type(canon[e]) is type(blob) and canon[e] == blob]
            i_ser = wname[hit[0]] if len(hit) >= 1 else "other"
            if len(hit) != 1:
                i_ser = "other"
        except KeyError:
            i_ser = "KeyError"
        except Exception as e:  # noqa
            i_ser = "exc:" + type(e).__name__
        i_de = {}
        for ty, key in ((str, "de-str"), (bytes, "de-bytes")):
            # a blob of this Python type that every reader of the family parses: the json-ext text / msgpack-ext bytes
            blob = canon["json-ext"] if ty is str else canon["msgpack-ext"]
            if key == "de-bytes" and n.lower() == "json-ext":
                blob = canon["json-ext"].encode()
            try:
                back = deserialize(blob, n)
                i_de[key] = "read" if deep_same(payload, back) is None else "read-differently"
            except KeyError:
                i_de[key] = "KeyError"
            except AssertionError:
                i_de[key] = "Assertion"
            except Exception as e:  # noqa
                i_de[key] = "exc:" + type(e).__name__
        low = n
        if n in ENCODINGS:
            # ORACLE (the property's own clause; only the four supported names as the property spells them — other spellings are a
            # model tie, not a demand): each name is accepted by serialize, and for the two -ext encodings the reader of the same name
            # reads the payload (raw arrays included) back; WHICH writer a name reaches is a model tie (mismatch:dispatch-writer)
            if i_ser in ("KeyError",) or i_ser.startswith("exc:"):
                out.violations.append(Finding("oracle:dispatch_writer", case, observed=i_ser, expected="a payload", detail="serialize(data, <supported encoding name>) raises"))
            okkey = "de-str" if low.startswith("json") else "de-bytes"
            if low.endswith("-ext") and i_de[okkey] != "read":
                out.violations.append(Finding("oracle:dispatch_reader", case, observed=i_de[okkey], expected="read", detail="deserialize(blob, spelling) does not read what serialize(data, same encoding) wrote"))
        if model is not None:
            want = dict(kv.split("=", 1) for kv in model[i].split(" "))
            got_ser = i_ser
            if want["ser"] != got_ser:
                out.mismatches.append(Finding("mismatch:dispatch-writer", case, observed=got_ser, expected=want["ser"], detail="serialize's dispatch on the encoding string differs (implementation vs model)"))
            for key in ("de-str", "de-bytes"):
                w = want[key]
                exp = "read" if w in rname.values() else w
                if i_de[key] != exp:
                    out.mismatches.append(Finding("mismatch:dispatch-reader", {**case, "blob": key}, observed=i_de[key], expected=w, detail="deserialize's dispatch on the encoding string differs (implementation vs model)"))


def run(ctx: Ctx) -> Outcome:
    out = Outcome()
    # qcelemental prints ("--> Inp: ...") while reconciling user-supplied masses: keep the harness's stdout clean
    with warnings.catch_warnings(), contextlib.redirect_stdout(io.StringIO()):
        warnings.simplefilter("ignore")
        check_payloads(ctx, out, payload_cases(ctx))
        check_envelopes(ctx, out, envelope_cases(ctx))
        instances_block(ctx, out)
        tables_block(ctx, out)
        check_payloads(ctx, out, text_cases(ctx))  # drawn after the older blocks: their streams are unchanged for a given seed
        # oracle-only streams of harness/c10_extra.py; they draw from ctx.rng AFTER the blocks above (existing streams unchanged)
        c10_extra.sizes_block(ctx, out)
        c10_extra.nonfinite_block(ctx, out)
        dispatch_block(ctx, out)  # drawn last: the older streams are unchanged for a given seed
    out.exhaustive = False
    dist = out.distribution
    out.notes.append(
        "high-precision molecule family: every instance holds molecules whose stored geometry is changed by rounding to 8 decimals "
        f"({dist.get('hp:molecules-geometry-beyond-8-decimals', 0)} of {dist.get('hp:molecules', 0)} molecules in {dist.get('hp:instances', 0)} instances this run; "
        f"{dist.get('hp:molecules-geometry-beyond-13-decimals', 0)} also beyond 13 decimals), so a parser that re-applies the construction-time clean-up "
        "to an already validated payload shows up as a field difference and a different second payload (all default-constructed molecules are fixed points of that clean-up)"
    )
    out.notes.append("dtype x layout grid is systematic; shapes, bytes, nesting and model instances are sampled from VERIF_SEED; dispatch tables are exhaustive")
    out.notes.append("container widths compared differentially up to 5000 entries (array16/map16 heads); the 32-bit container head at 65536 entries is covered by the theorems for the model and by the oracle-only size-boundary stream (harness/c10_extra.py) for the implementation; str/bin/array data are compared with the model up to 65536 bytes")
    out.notes.append("json-ext text through parse_raw's str->json default (and parse_file('.json')) is rejected by the implementation exactly as the model's table says; not demanded by the oracle (see ASSUMPTIONS)")
    return out


def replay(ctx: Ctx, case) -> Outcome:
    import random

    out = Outcome()
    block = case.get("block") if isinstance(case, dict) else None
    with warnings.catch_warnings(), contextlib.redirect_stdout(io.StringIO()):
        warnings.simplefilter("ignore")
        if block in ("arr", "arr-empty", "arr-bcast", "arr-rank0", "scalars", "scalars-wide", "text"):
            check_payloads(ctx, out, [(block, case.get("key", "replay"), undescribe(case["payload"]))])
        elif block == "envelope":
            import msgpack

            env = msgpack.loads(bytes.fromhex(case["mp"]), raw=False, strict_map_key=False)["w"][0]
            check_envelopes(ctx, out, [(case.get("kind", "replay"), {(k.decode() if isinstance(k, bytes) else k): v for k, v in env.items()})])
        elif block in ("model", "files"):
            seed = case["seed"]["seed"]
            sub = random.Random(seed)
            ctx.rng = sub
            which = case["seed"].get("which")
            trace = []
            name, obj = rand_instance(sub, which, trace)
            d = tempfile.mkdtemp(prefix="c10-", dir=str(ctx.work))
            check_instance(ctx, out, name, obj, case["seed"], files_dir=d, family=("hp-geometry|" + ",".join(trace)) if trace else None)
        elif c10_extra.replay_extra(ctx, out, case):
            pass
        elif block in ("dispatch", "three-way"):
            dispatch_block(ctx, out)
            if block == "three-way" and ctx.model_available and isinstance(case.get("line"), str):
                run_three(ctx, out, [case["line"]])
        else:
            tables_block(ctx, out)
    return out
