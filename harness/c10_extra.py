"""C10 — additional oracle-only streams (nothing in this file goes through the Lean driver).

sizes_block      payloads just above the element/byte counts where msgpack switches header width (2^4/2^5, 2^8, 2^16) in
                 str / bin (array data) / list / map position, raw and inside model instances, through all four
                 encodings; plus ONE payload above 100 MiB (and, thorough tier, one above 2^31 bytes) through the two
                 msgpack encodings, raw and inside a model instance (a reader with a built-in buffer/length limit that the
                 writer does not have cannot read what the writer wrote).
nonfinite_block  +inf / -inf / NaN as BARE Python floats anywhere in raw payloads and in every model field that admits
                 them, and as ELEMENTS of float arrays under the flat encodings as well as the -ext ones; explicit
                 encoding, automatic choice and file-suffix readers.
replay_extra     re-runs one recorded case of the blocks above from its recipe (big arrays are regenerated, never stored).

What is demanded is exactly the property statement: the reader reads what the writer wrote (no exception), the value comes
back (same dtype/shape/bytes for arrays under -ext; the ravelled list under the flat encodings, which ravel by design;
instance equality + molecule hash for models), and a second serialisation is the identical payload. NaN is compared with
isnan on both sides (c10.f_eq / array_equal(equal_nan=True)) and through the identical second payload.
"""
from __future__ import annotations

import gc
import os
import random
import re
import resource
import tempfile
import time
import warnings

import numpy as np

from common import Finding, Outcome

INF, NINF, NAN = float("inf"), float("-inf"), float("nan")
NF = [INF, NINF, NAN]
BLOCKS = ("size-boundary", "large", "nonfinite-raw", "nonfinite-model")
BIG = 1 << 16  # arrays above this many elements are compared without Python-level loops / extra copies


def _c10():
    import c10  # lazy: c10 imports this module at its top

    return c10


def _exc(e):
    return f"{type(e).__name__}: {e}"[:400]


def _rss_mib():
    return resource.getrusage(resource.RUSAGE_SELF).ru_maxrss / 1024.0


def _mem_available_gib():
    try:
        for line in open("/proc/meminfo"):
            if line.startswith("MemAvailable:"):
                return int(line.split()[1]) / 2**20
    except Exception:  # noqa
        pass
    return 0.0


# ----------------------------------------------------------------------------------------------------------------
# comparison: what a payload must come back as


def flat_form(p):
    """what the flat encodings ('json', 'msgpack') are documented to write for a payload: arrays ravelled to lists"""
    if isinstance(p, np.ndarray):
        return p.ravel().tolist() if p.shape else p.tolist()
    if isinstance(p, dict):
        return {k: flat_form(v) for k, v in p.items()}
    if isinstance(p, (list, tuple)):
        return [flat_form(v) for v in p]
    return p


class _HasArray(Exception):
    pass


def _pure(p):
    """p with tuples as lists; raises _HasArray if an ndarray sits anywhere inside"""
    if isinstance(p, dict):
        return {k: (v if type(v) in _ATOMS else _pure(v)) for k, v in p.items()}
    if isinstance(p, (list, tuple)):
        return [(v if type(v) in _ATOMS else _pure(v)) for v in p]
    if isinstance(p, np.ndarray):
        raise _HasArray
    return p


_ATOMS = (int, float, str, bool, type(None))


def big_array_same(a, b, ext):
    """`a` original array (size > BIG); `b` what came back. -ext: same dtype, shape and bytes. flat: a list of a.size
    Python floats/ints with the same values bit for bit (so NaN and -0.0 are compared exactly, without == on NaN)."""
    if ext:
        if not isinstance(b, np.ndarray):
            return f"came back as {type(b).__name__}, not ndarray"
        if a.dtype != b.dtype or a.dtype.str != b.dtype.str:
            return f"dtype {a.dtype.str} -> {b.dtype.str}"
        if a.shape != b.shape:
            return f"shape {a.shape} -> {b.shape}"
        ac, bc = np.ascontiguousarray(a), np.ascontiguousarray(b)
        return None if np.array_equal(ac.reshape(-1).view("u1"), bc.reshape(-1).view("u1")) else "bytes differ"
    if not isinstance(b, list):
        return f"came back as {type(b).__name__}, not the flat list"
    if len(b) != a.size:
        return f"flat list of {a.size} -> {len(b)}"
    try:
        bb = np.asarray(b)
    except Exception as e:  # noqa
        return f"flat list is not homogeneous ({type(e).__name__})"
    want = np.ascontiguousarray(a).reshape(-1)
    if bb.shape != want.shape:
        return f"flat list nests to shape {bb.shape}, expected {want.shape}"
    if want.dtype.kind in "iu":  # Python ints: value equality (a list of Python ints has no width/signedness)
        return None if bb.dtype.kind in "iu" and np.array_equal(want, bb) else f"flat values differ (element kind {bb.dtype.kind!r})"
    if bb.dtype.kind != want.dtype.kind:
        return f"flat list elements of kind {bb.dtype.kind!r}, expected {want.dtype.kind!r}"
    want = want.astype(bb.dtype) if want.dtype != bb.dtype else want  # f4/f2 -> Python float is exact
    return None if np.array_equal(want.view("u1"), bb.view("u1")) else "flat values differ"


def tree_same(p, back, ext, path="$"):
    """p = original payload, back = deserialize(serialize(p, enc), enc). Small parts are compared with c10.deep_same
    (type-exact; NaN equal to NaN; tuples come back as lists), big arrays with big_array_same."""
    c10 = _c10()
    if isinstance(p, np.ndarray) and p.size > BIG:
        r = big_array_same(p, back, ext)
        return None if r is None else f"{path}: {r}"
    if isinstance(p, (dict, list)) and len(p) > 200000 and type(back) is type(p):
        # very wide container: C-level == (value equality; NaN/tuples/arrays inside fall through to the exact paths below).
        # == does not tell 1 / 1.0 / True or 0.0 / -0.0 apart; the writers do (different bytes/tokens), and the caller
        # demands the identical second payload right after, so a type-only change is still reported (as *_reserialise)
        try:
            if (p == back) is True:
                return None
        except Exception:  # noqa  (ndarray truth value)
            pass
    if isinstance(p, (dict, list, tuple)) and len(p) > 1000 and type(back) is (dict if isinstance(p, dict) else list):
        # wide pure-Python container: repr() is type-exact (1 / 1.0 / True, -0.0, nan, inf) — fast accept, slow path locates a difference
        try:
            if repr(_pure(p)) == repr(back):
                return None
        except _HasArray:
            pass
    if isinstance(p, dict):
        if not isinstance(back, dict) or list(p.keys()) != list(back.keys()):
            return f"{path}: dict keys {list(p)[:6]} -> {list(back)[:6] if isinstance(back, dict) else type(back).__name__}"
        for k in p:
            r = tree_same(p[k], back[k], ext, f"{path}.{k}")
            if r:
                return r
        return None
    if isinstance(p, (list, tuple)):
        if not isinstance(back, list) or len(p) != len(back):
            return f"{path}: sequence of {len(p)} -> {type(back).__name__}" + (f" of {len(back)}" if isinstance(back, list) else "")
        for i, (x, y) in enumerate(zip(p, back)):
            r = tree_same(x, y, ext, f"{path}[{i}]")
            if r:
                return r
        return None
    return c10.deep_same(p if ext else flat_form(p), back, path)


def has_kind(p, kinds):
    if isinstance(p, np.ndarray):
        return p.dtype.kind in kinds
    if isinstance(p, dict):
        return any(has_kind(v, kinds) for v in p.values())
    if isinstance(p, (list, tuple)):
        return any(has_kind(v, kinds) for v in p)
    return False


def count_nonfinite(p):
    """bare non-finite Python floats / non-finite array elements in a payload tree (independent walk, evidence only)"""
    if isinstance(p, np.ndarray):
        if p.dtype.kind in "fc":
            return 0, int((~np.isfinite(p)).sum())
        return 0, 0
    if isinstance(p, float):
        return (0 if p == p and p not in (INF, NINF) else 1), 0
    if isinstance(p, dict):
        p = list(p.values())
    if isinstance(p, (list, tuple)):
        b = e = 0
        for v in p:
            x, y = count_nonfinite(v)
            b, e = b + x, e + y
        return b, e
    return 0, 0


def count_nonfinite_inst(obj):
    from qcelemental.models.basemodels import ProtoModel

    if isinstance(obj, ProtoModel):
        b = e = 0
        for n in obj.__fields__:
            x, y = count_nonfinite_inst(getattr(obj, n))
            b, e = b + x, e + y
        return b, e
    if isinstance(obj, dict):
        obj = list(obj.values())
    if isinstance(obj, (list, tuple)):
        b = e = 0
        for v in obj:
            x, y = count_nonfinite_inst(v)
            b, e = b + x, e + y
        return b, e
    return count_nonfinite(obj)


# ----------------------------------------------------------------------------------------------------------------
# the two oracles: raw payload / model instance


def check_raw(out: Outcome, fam, p, enc, case):
    """serialize(p, enc) -> deserialize -> same value -> identical second payload. Returns the payload length (or None)."""
    from qcelemental.util import deserialize, serialize

    c10 = _c10()
    ext = enc in c10.EXT
    try:
        blob = serialize(p, enc)
    except Exception as e:  # noqa
        out.violations.append(Finding(f"oracle:{fam}_serialize_raises", case, observed=_exc(e), detail=f"an in-scope payload cannot be serialised with {enc}"))
        return None
    want_ty = str if enc.startswith("json") else bytes
    if not isinstance(blob, want_ty):
        out.violations.append(Finding(f"oracle:{fam}_roundtrip", case, observed=type(blob).__name__, expected=want_ty.__name__, detail="payload type of the writer"))
        return None
    n = len(blob)
    try:
        back = deserialize(blob, enc)
    except Exception as e:  # noqa
        out.violations.append(Finding(f"oracle:{fam}_roundtrip", case, observed=_exc(e), detail=f"deserialize(.., {enc!r}) raised on what serialize(.., {enc!r}) wrote ({n} {'chars' if want_ty is str else 'bytes'})"))
        return n
    d = tree_same(p, back, ext)
    if d:
        out.violations.append(Finding(f"oracle:{fam}_roundtrip", case, observed=d,
                                      detail="value does not come back (same dtype/shape/bytes for arrays)" if ext else "value does not come back (flat encodings: the ravelled list, value for value)"))
    try:
        again = serialize(back, enc)
    except Exception as e:  # noqa
        again = _exc(e)
    if again != blob:
        out.violations.append(Finding(f"oracle:{fam}_reserialise", case, observed=str(again[:200]), expected=str(blob[:200]), detail="second serialisation is not the identical payload"))
    del back, again, blob
    return n


def check_inst(ctx, out: Outcome, fam, obj, enc, case, big_fields=(), auto=True):
    """obj.serialize(enc) -> cls.parse_raw(.., encoding=enc) -> equal instance, same molecule hash -> identical second payload;
    automatic choice for the writers the property names (str<->json, bytes<->msgpack-ext).
    big_fields: attribute paths of raw ndarrays held in Dict[str, Any] fields, demanded dtype/shape/bytes-exact under -ext."""
    c10 = _c10()
    cls = type(obj)
    try:
        blob = obj.serialize(enc)
    except Exception as e:  # noqa
        out.violations.append(Finding(f"oracle:{fam}_serialize_raises", case, observed=_exc(e), detail=f"a valid instance cannot be serialised with {enc}"))
        return None
    want_ty = str if enc.startswith("json") else bytes
    if not isinstance(blob, want_ty):
        out.violations.append(Finding(f"oracle:{fam}_roundtrip", case, observed=type(blob).__name__, expected=want_ty.__name__, detail="payload type of the writer"))
        return None
    n = len(blob)
    try:
        back = cls.parse_raw(blob, encoding=enc)
    except Exception as e:  # noqa
        out.violations.append(Finding(f"oracle:{fam}_roundtrip", case, observed=_exc(e), detail=f"parse_raw(.., encoding={enc!r}) raised on what serialize({enc!r}) wrote ({n} {'chars' if want_ty is str else 'bytes'})"))
        back = None
    if back is not None:
        d = c10.inst_same(obj, back)
        if not d and enc in c10.EXT:
            for path in big_fields:
                a, b = obj, back
                for step in path:
                    a = a[step] if isinstance(a, dict) else getattr(a, step)
                    b = b[step] if isinstance(b, dict) else getattr(b, step)
                r = big_array_same(a, b, True)
                if r:
                    d = "$." + ".".join(path) + ": " + r
                    break
        if d:
            out.violations.append(Finding(f"oracle:{fam}_roundtrip", case, observed=d, detail="instance after the round trip differs from the original (field values / array shapes)"))
        for a_m, b_m, where in c10._molecules(obj, back):
            if a_m.get_hash() != b_m.get_hash():
                out.violations.append(Finding(f"oracle:{fam}_roundtrip", case, observed=b_m.get_hash(), expected=a_m.get_hash(), detail=f"molecule hash changed through the round trip ({where})"))
        try:
            again = back.serialize(enc)
        except Exception as e:  # noqa
            again = _exc(e)
        if again != blob:
            perm = None
            if isinstance(again, type(blob)):
                try:
                    from qcelemental.util import deserialize as _des

                    perm = c10.extra_order_only(_des(blob, enc), _des(again, enc))
                except Exception:  # noqa
                    perm = None
            if perm:
                # the recorded class C10-extra-attribute-order (same values; only the additional attributes of an extra='allow' sub-model permuted)
                out.count("known-class:reserialise_extra_attribute_order")
                out.violations.append(Finding(c10.KNOWN_KIND_EXTRA_ORDER, {**case, "permuted": [list(x) for x in perm[:4]]}, observed=str(again[:300]), expected=str(blob[:300]),
                                              detail="second payload lists the additional attributes of an extra='allow' sub-model in another order"))
            else:
                out.violations.append(Finding(f"oracle:{fam}_reserialise", case, observed=str(again[:300]), expected=str(blob[:300]), detail="second serialisation is not the identical payload"))
        del again
    del back
    if auto and enc in ("json", "msgpack-ext"):
        try:
            au = cls.parse_raw(blob)
            d2 = c10.inst_same(obj, au)
            del au
        except Exception as e:  # noqa
            d2 = _exc(e)
        if d2:
            out.violations.append(Finding(f"oracle:{fam}_auto_encoding", case, observed=d2,
                                          detail=f"parse_raw without an encoding ({'str -> json' if enc == 'json' else 'bytes -> msgpack-ext'}) does not read what serialize({enc!r}) wrote"))
    del blob
    return n


def check_inst_files(ctx, out: Outcome, fam, obj, case, d, only_suffix=None):
    """suffix choice: the reader picked for a suffix reads what the writer of that suffix wrote"""
    from qcelemental.models import Molecule

    c10 = _c10()
    cls = type(obj)
    kind = f"oracle:{fam}_file_suffix"
    if isinstance(obj, Molecule):
        for suf in (".json", ".msgpack"):
            if only_suffix and only_suffix != suf:
                continue
            p = os.path.join(d, f"nfm{suf}")
            cs = {**case, "suffix": suf, "writer": "to_file"}
            out.evaluations += 1
            out.count(f"{fam}:files:Molecule{suf}")
            try:
                obj.to_file(p)
                back = Molecule.from_file(p)
                back2 = Molecule.parse_file(p)
            except Exception as e:  # noqa
                out.violations.append(Finding(kind, cs, observed=_exc(e), detail="Molecule.to_file / from_file / parse_file by suffix"))
                continue
            if back.get_hash() != obj.get_hash() or back2.get_hash() != obj.get_hash():
                out.violations.append(Finding(kind, cs, observed=[back.get_hash(), back2.get_hash()], expected=obj.get_hash(), detail="from_file/parse_file after to_file: molecule hash differs"))
                continue
            dd = c10.inst_same(obj, back2)
            if dd:
                out.violations.append(Finding(kind, cs, observed=dd, detail="parse_file after to_file: fields differ"))
            # from_file re-validates through from_data (another property's territory): molecular identity (hash), array
            # shapes, and the pass-through scratch field that carries the non-finite values
            if back.geometry.shape != obj.geometry.shape or len(back.symbols) != len(obj.symbols):
                out.violations.append(Finding(kind, cs, observed=str(back.geometry.shape), expected=str(obj.geometry.shape), detail="from_file after to_file: array shapes not restored"))
            de = c10.model_same(obj.extras, back.extras, "$.extras")
            if de:
                out.violations.append(Finding(kind, cs, observed=de, detail="from_file after to_file: extras differ"))
    else:
        for enc, suf, mode in (("json", ".json", "w"), ("json", ".js", "w"), ("msgpack-ext", ".msgpack", "wb")):
            if only_suffix and only_suffix != suf:
                continue
            p = os.path.join(d, f"nfx{suf}")
            cs = {**case, "suffix": suf, "writer": enc}
            out.evaluations += 1
            out.count(f"{fam}:files:{enc}{suf}")
            try:
                with open(p, mode) as fh:
                    fh.write(obj.serialize(enc))
                back = cls.parse_file(p)
                dd = c10.inst_same(obj, back)
            except Exception as e:  # noqa
                dd = _exc(e)
            if dd:
                out.violations.append(Finding(kind, cs, observed=dd, detail=f"parse_file('*{suf}') does not read what serialize({enc!r}) wrote"))


# ----------------------------------------------------------------------------------------------------------------
# sizes: header-width boundaries

BOUNDARY_N = [15, 16, 17, 31, 32, 33, 255, 256, 257, 65535, 65536, 65537]
RAW_WHAT = ["str", "str-utf8", "u1", "f8", "list", "list-top", "dict", "dict-top", "list-of-lists"]
MODEL_WHAT = ["keywords-str", "keywords-list", "keywords-dict", "stdout", "extras-array", "atommap", "eigenvalues", "molecule"]
HE = {"symbols": ["He"], "geometry": [0.0, 0.0, 0.0]}
ALL4 = ["json", "json-ext", "msgpack", "msgpack-ext"]
MP = ["msgpack", "msgpack-ext"]
# per-item sizes just below / at / just above 2^20 and 2^24 BYTES (no header switches there: the round numbers a reader-side per-item limit
# would plausibly be set to) — (place, what, n, encodings). f8 / eigenvalues: n elements = 8n bytes of array data.
MEGA = [
    ("raw", "str", 2**20 - 1, MP), ("raw", "str", 2**20, MP), ("raw", "u1", 2**20 - 1, ["msgpack-ext"]), ("raw", "u1", 2**20, ["msgpack-ext"]),  # just below / at
    ("raw", "str", 2**24 - 1, MP), ("raw", "u1", 2**24 - 1, ["msgpack-ext"]),
    ("raw", "str", 2**20 + 1, ALL4), ("raw", "str", 2**24 + 1, ALL4), ("raw", "str-utf8", 2**20 + 1, ALL4),
    ("raw", "u1", 2**20 + 1, ALL4), ("raw", "u1", 2**24 + 1, ["msgpack-ext", "json-ext"]),
    ("raw", "f8", 2**17 + 1, ALL4), ("raw", "f8", 2**21 + 1, ["msgpack-ext", "msgpack", "json-ext"]),
    ("raw", "dict-top", 2**20 + 1, MP),
    ("model", "stdout", 2**20 + 1, ALL4), ("model", "stdout", 2**24 + 1, ALL4),
    ("model", "extras-u1", 2**20 + 1, ["msgpack-ext", "json-ext"]), ("model", "extras-u1", 2**24 + 1, ["msgpack-ext"]),
    ("model", "eigenvalues", 2**17 + 1, ALL4), ("model", "eigenvalues", 2**21 + 1, ["msgpack-ext", "msgpack", "json-ext"]),
    ("model", "gradient", 3 * 43691, ALL4), ("model", "gradient", 3 * 699051, ["msgpack-ext", "msgpack"]),
]


def boundary_value(what, n):
    if what == "str":
        return "a" * n
    if what == "str-utf8":  # n BYTES in utf-8 (msgpack str headers count bytes), about n/2 characters
        return "é" * (n // 2) + "a" * (n % 2)
    if what == "u1":
        return (np.arange(n) % 251).astype("|u1")
    if what == "f8":
        return np.arange(n, dtype="<f8") * 0.5 - 3.25
    if what in ("list", "list-top"):
        return [(j * 7919) % 1000 - 500 if j % 3 else j * 0.25 for j in range(n)]
    if what in ("dict", "dict-top"):
        return {f"k{j}": j for j in range(n)}
    if what == "list-of-lists":
        return [[j] for j in range(n)]
    raise ValueError(what)


def boundary_raw_payload(what, n):
    v = boundary_value(what, n)
    return v if what.endswith("-top") else {"head": 1, "v": v, "tail": [0.5, "x"]}


def boundary_instance(what, n):
    """a valid instance carrying one boundary-sized item; returns (obj, encodings, big_fields) or None when n does not fit"""
    from qcelemental.models import AlignmentMill, AtomicInput, AtomicResult, Molecule

    c10 = _c10()
    ai = dict(molecule=HE, driver="energy", model={"method": "hf"})
    ar = dict(molecule=HE, driver="energy", model={"method": "hf"}, return_result=-1.5, properties={}, success=True, provenance={"creator": "c10"})
    if what == "keywords-str":
        return AtomicInput(**ai, keywords={"v": boundary_value("str-utf8", n), "w": boundary_value("str", n)}), c10.ENCODINGS, ()
    if what == "keywords-list":
        return AtomicInput(**ai, keywords={"v": boundary_value("list", n)}), c10.ENCODINGS, ()
    if what == "keywords-dict":
        return AtomicInput(**ai, keywords=boundary_value("dict", n)), c10.ENCODINGS, ()
    if what == "stdout":
        return AtomicResult(**ar, stdout="x" * n), c10.ENCODINGS, ()
    if what == "extras-array":  # a raw ndarray in a Dict[str, Any] field: demanded for the -ext encodings only (the flat ones ravel by design)
        return AtomicResult(**ar, extras={"u1": boundary_value("u1", n), "f8": boundary_value("f8", n).reshape(1, n)}), c10.EXT, (("extras", "u1"), ("extras", "f8"))
    if what == "extras-u1":  # n bytes of array data in a Dict[str, Any] field
        return AtomicResult(**ar, extras={"u1": boundary_value("u1", n)}), c10.EXT, (("extras", "u1"),)
    if what == "gradient":  # n doubles as the (n/3, 3) return_result of a gradient computation (shape restored by the validator)
        if n % 3:
            return None
        ar2 = {**ar, "driver": "gradient", "return_result": boundary_value("f8", n)}
        return AtomicResult(**ar2), c10.ENCODINGS, ()
    if what == "atommap":
        return AlignmentMill(atommap=np.arange(n)[::-1].copy()), c10.ENCODINGS, ()
    if what == "eigenvalues":  # a validated 1-d Array field of free length
        from qcelemental.models import BasisSet

        bs = BasisSet(name="b", center_data={"c": {"electron_shells": [{"harmonic_type": "spherical", "angular_momentum": [0], "exponents": [1.0], "coefficients": [[1.0]]}]}}, atom_map=["c"])
        w = {"basis": bs, "restricted": True, "scf_eigenvalues_a": boundary_value("f8", n), "eigenvalues_a": "scf_eigenvalues_a"}
        return AtomicResult(**ar, wavefunction=w, protocols={"wavefunction": "all"}), c10.ENCODINGS, ()
    if what == "molecule":  # n atoms: symbols list of n, geometry of 3n (construction is quadratic in n: small n only)
        if n > 300:
            return None
        return Molecule(symbols=["He"] * n, geometry=[[2.5 * j, 0.25 * (j % 3), 0.0] for j in range(n)]), c10.ENCODINGS, ()
    raise ValueError(what)


def run_boundary(ctx, out: Outcome, place, what, n, only_enc=None, encs=None):
    c10 = _c10()
    if place == "raw":
        p = boundary_raw_payload(what, n)
        for enc in c10.ENCODINGS:
            if (only_enc and enc != only_enc) or (encs and enc not in encs):
                continue
            out.evaluations += 1
            out.count("block:size-boundary")
            out.count("size-boundary:raw:" + enc)
            out.nontrivial(("size-boundary", "raw", what, n, enc))
            check_raw(out, "size_boundary", p, enc, {"block": "size-boundary", "place": "raw", "what": what, "n": n, "encoding": enc})
        return
    with warnings.catch_warnings():
        warnings.simplefilter("ignore")
        built = boundary_instance(what, n)
    if built is None:
        return
    obj, encs_ok, big_fields = built
    for enc in encs_ok:
        if (only_enc and enc != only_enc) or (encs and enc not in encs):
            continue
        out.evaluations += 1
        out.count("block:size-boundary")
        out.count("size-boundary:model:" + enc)
        out.nontrivial(("size-boundary", "model", what, n, enc))
        check_inst(ctx, out, "size_boundary", obj, enc, {"block": "size-boundary", "place": "model", "what": what, "n": n, "encoding": enc}, big_fields=big_fields)


# ----------------------------------------------------------------------------------------------------------------
# sizes: one payload above 100 MiB (thorough: one above 2^31 bytes)

LARGE_QUICK = [  # (place, shape, encoding): every array is 134.48e6 bytes = 128.25 MiB > 2^27 bytes
    ("raw", [4100, 4100], "msgpack-ext"),
    ("raw", [4100, 4100], "msgpack"),
    ("model-return_result", [5603334, 3], "msgpack-ext"),
    ("model-return_result", [5603334, 3], "msgpack"),
    ("model-extras", [16810001], "msgpack-ext"),
]
HUGE = ("raw", [270_000_000], "msgpack-ext")  # 2.16e9 bytes > 2^31


def large_array(shape, dtype, seed):
    """the recipe's array: uniform doubles in [-0.5, 0.5) from PCG64(seed) (seed drawn from ctx.rng), regenerated on replay"""
    n = int(np.prod(shape))
    a = np.random.Generator(np.random.PCG64(seed)).random(n)
    a -= 0.5
    if np.dtype(dtype) != a.dtype:
        a = a.astype(dtype)
    return a.reshape(shape)


def run_large(ctx, out: Outcome, place, shape, dtype, seed, enc):
    from qcelemental.models import AtomicResult

    case = {"block": "large", "place": place, "shape": list(shape), "dtype": dtype, "fill": "PCG64(seed).random(n) - 0.5", "seed": seed, "encoding": enc}
    out.evaluations += 1
    out.count("block:large")
    out.count(f"large:{place}:{enc}")
    out.nontrivial(("large", place, tuple(shape), dtype, enc))
    t0 = time.time()
    a = large_array(shape, dtype, seed)
    n = None
    if place == "raw":
        p = {"tag": "large", "w": [seed, {"big": a, "n": a.size}], "tail": [1.5, "x"]}
        n = check_raw(out, "large_payload", p, enc, case)
        del p
    else:
        ar = dict(molecule=HE, model={"method": "hf"}, properties={}, success=True, provenance={"creator": "c10"})
        with warnings.catch_warnings():
            warnings.simplefilter("ignore")
            if place == "model-return_result":  # a validated Array field whose shape the validator restores
                obj, big_fields = AtomicResult(**ar, driver="gradient", return_result=a), ()
            else:  # a raw ndarray held in a Dict[str, Any] field (-ext encodings only)
                obj, big_fields = AtomicResult(**ar, driver="energy", return_result=-1.5, extras={"big": a, "note": "x"}), (("extras", "big"),)
            n = check_inst(ctx, out, "large_payload", obj, enc, case, big_fields=big_fields)
        del obj
    del a
    gc.collect()
    return n, time.time() - t0


def sizes_block(ctx, out: Outcome):
    t0 = time.time()
    ev0 = out.evaluations
    # ---- header-width boundaries, raw and inside instances, all four encodings
    for n in BOUNDARY_N:
        for what in RAW_WHAT:
            if 1000 < n < max(BOUNDARY_N) and what in ("list", "dict", "list-of-lists"):
                continue  # wide AND nested: only just above 2^16 (the top-level list/map forms run at 2^16-1, 2^16, 2^16+1)
            run_boundary(ctx, out, "raw", what, n)
        if n < 1000 or n == max(BOUNDARY_N):  # instance comparison walks wide containers in Python: one wide n (the most sensitive: just above 2^16)
            for what in MODEL_WHAT:
                run_boundary(ctx, out, "model", what, n)
    gc.collect()
    t_b = time.time() - t0
    for place, what, n, encs in MEGA:
        run_boundary(ctx, out, place, what, n, encs=encs)
        gc.collect()
    t_m = time.time() - t0 - t_b
    # ---- one payload above 100 MiB per (placement, msgpack encoding)
    sizes, t_l = [], 0.0
    for place, shape, enc in LARGE_QUICK:
        seed = ctx.rng.getrandbits(32)
        n, dt = run_large(ctx, out, place, shape, "<f8", seed, enc)
        t_l += dt
        if n:
            sizes.append(n)
    huge_note = "the payload above 2^31 bytes is generated in the thorough tier only"
    if ctx.thorough:
        place, shape, enc = HUGE
        seed = ctx.rng.getrandbits(32)
        avail = _mem_available_gib()
        if avail < 24:
            huge_note = f"payload above 2^31 bytes skipped: only {avail:.1f} GiB available (needs about 12 GiB transiently)"
        else:
            try:
                n, dt = run_large(ctx, out, place, shape, "<f8", seed, enc)
                huge_note = f"one raw msgpack-ext payload of {n} bytes (> 2^31) round-tripped in {dt:.0f}s" if n else "payload above 2^31 bytes: see violations"
            except MemoryError:
                gc.collect()
                huge_note = "payload above 2^31 bytes skipped: MemoryError while building it (not a finding)"
    out.notes.append(
        f"size streams (oracle only, not sent to the Lean driver): {out.evaluations - ev0} round trips; header-width boundaries n in {BOUNDARY_N} for "
        f"str/utf-8 bytes/bin (array data)/list/map/list-of-lists, raw and inside AtomicInput/AtomicResult/AlignmentMill/Molecule, x 4 encodings in {t_b:.1f}s; "
        f"single items just above 2^20 and 2^24 bytes (str 1048577/16777217 chars, utf-8 str, bin = u1 array data 1048577/16777217 bytes, float64 array data of 131073/2097153 elements, "
        f"map of 1048577 keys), raw and inside AtomicResult.stdout/extras/wavefunction eigenvalues/return_result gradient, {len(MEGA)} recipes in {t_m:.1f}s "
        "(a list above 2^20 / 2^24 elements is the flat form of the u1 / large arrays under 'msgpack'; a map of 2^24 keys is not affordable); "
        f"large payloads of {min(sizes) if sizes else 0}..{max(sizes) if sizes else 0} bytes (each one float64 array of 134.48e6 bytes > 2^27 > 100 MiB; "
        f"raw, AtomicResult.return_result, AtomicResult.extras; msgpack and msgpack-ext, automatic bytes->msgpack-ext choice) in {t_l:.1f}s; "
        f"peak RSS of the whole run so far {_rss_mib():.0f} MiB; {huge_note}; "
        "not generated: a single str/bin/list/map of 2^32 or more (the msgpack format cannot express it; 4 GiB per item is not affordable), "
        "JSON texts above 100 MiB, a Molecule of 2^16 atoms (construction is quadratic: 34 s)"
    )


# ----------------------------------------------------------------------------------------------------------------
# non-finite floats

NF_FLAT_DTYPES = ["<f8", "<f8", "<f4", "<f2", ">f8", ">f4"]
NF_EXT_DTYPES = NF_FLAT_DTYPES + ["<c16", "<c8", ">c16"]


def nf_array(rng, dt, rank=None, layout=None):
    """a float/complex array of rank >= 1 with at least one non-finite element (finite ones are exactly representable)"""
    c10 = _c10()
    rank = rank or rng.choice([1, 1, 2, 3])
    shape = tuple(rng.randint(1, 4) for _ in range(rank))
    n = int(np.prod(shape))
    d = np.dtype(dt)
    vals = [rng.choice([0.0, -0.0, 1.5, -2.25, 0.5, 1024.0, -7.0]) for _ in range(n)]
    for j in rng.sample(range(n), rng.randint(1, min(3, n))):
        vals[j] = rng.choice(NF)
    if d.kind == "c":
        vals = [complex(v, rng.choice([0.0, 1.0, INF, NAN])) if rng.random() < 0.5 else complex(v, 0.0) for v in vals]
    with np.errstate(all="ignore"):
        a = np.array(vals).astype(dt).reshape(shape)
    layout = layout or rng.choice(c10.LAYOUTS)
    return c10.relayout(a, layout), layout


def nf_json_tree(rng, depth=2):
    """JSON-native content (Dict[str, Any] fields) holding at least one bare non-finite float"""
    c10 = _c10()
    d = c10.rand_json_extras(rng, depth)
    v, w = rng.choice(NF), rng.choice(NF)
    forms = [v, [v], [1, v, "s"], {"q": v}, [[v, 0.5], {"z": [w]}], {"a": {"b": [w, {"c": v}]}}, [v, w, 1.0, None]]
    for j in range(rng.randint(1, 2)):
        d[f"nf{j}"] = rng.choice(forms)
    return d


def nf_inject(rng, a, always=True):
    """copy of array-like `a` (as float64 ndarray, same shape) with 1-3 elements replaced by non-finite values"""
    b = np.array(a, dtype=float, copy=True)
    if b.size == 0:
        return None
    flat = b.reshape(-1)
    for j in rng.sample(range(flat.size), rng.randint(1, min(3, flat.size))):
        flat[j] = rng.choice(NF)
    return b


def _inject_atomic_result(rng, d, sites, prefix=""):
    """d = AtomicResult.dict(); put non-finite values into 1-3 of the fields that admit them"""
    nat = len(d["molecule"]["symbols"])
    props = dict(d.get("properties") or {})
    opts = ["return_result", "return_result", "properties.return_energy", "properties.scf_dipole_moment", "properties.scf_quadrupole_moment", "properties.return_gradient",
            "properties.scf_total_hessian", "properties.nuclear_repulsion_energy", "properties.scf_total_energy", "extras", "keywords"]
    w = d.get("wavefunction")
    wkeys = [k for k in (w or {}) if isinstance(w[k], np.ndarray) and w[k].size > 0]
    opts += ["wavefunction"] * (3 if wkeys else 0)
    for site in sorted(set(rng.sample(opts, rng.randint(1, 3)))):
        if site == "return_result":
            drv = d["driver"].value if hasattr(d["driver"], "value") else d["driver"]
            if drv == "energy":
                d["return_result"] = rng.choice(NF)
            elif drv in ("gradient", "hessian"):
                d["return_result"] = nf_inject(rng, d["return_result"]) if rng.random() < 0.7 else nf_inject(rng, d["return_result"]).ravel().tolist()
            else:
                d["return_result"] = {**(d["return_result"] if isinstance(d["return_result"], dict) else {}), **nf_json_tree(rng, 1)}
        elif site in ("extras", "keywords"):
            d[site] = {**(d.get(site) or {}), **nf_json_tree(rng)}
        elif site == "wavefunction":
            k = rng.choice(wkeys)
            w = dict(w)
            w[k] = nf_inject(rng, w[k])
            d["wavefunction"] = w
            site = "wavefunction." + k
        else:
            f = site.split(".")[1]
            if f in ("return_energy", "nuclear_repulsion_energy", "scf_total_energy"):
                props[f] = rng.choice(NF)
            elif f == "scf_dipole_moment":
                props[f] = nf_inject(rng, [0.5, -1.5, 2.0]) if rng.random() < 0.5 else [rng.choice(NF), 0.5, rng.choice([1.0, NAN])]
            elif f == "scf_quadrupole_moment":
                props[f] = nf_inject(rng, np.arange(9.0).reshape(3, 3) / 4)
            elif f == "return_gradient":
                props["calcinfo_natom"] = nat
                props[f] = nf_inject(rng, np.arange(3.0 * nat).reshape(nat, 3) / 8)
            else:
                props["calcinfo_natom"] = nat
                props[f] = nf_inject(rng, np.arange(9.0 * nat * nat) / 16)
            d["properties"] = props
        sites.append(prefix + site)
    return d


NF_KINDS = ["Molecule", "AtomicInput", "AtomicResult", "AtomicResult", "OptimizationInput", "OptimizationResult", "AlignmentMill", "BasisSet", "AtomicResult"]


def nf_instance(rng, which):
    """a valid instance of `which` with non-finite floats in fields whose validation admits them: an instance of the
    ordinary generator, its dict form edited, re-validated by the constructor. Returns (name, obj, sites)."""
    c10 = _c10()
    name, base = c10.rand_instance(rng, which)
    cls = type(base)
    d = base.dict()
    sites = []
    if name == "Molecule":
        d["extras"] = {**(d.get("extras") or {}), **nf_json_tree(rng)}
        sites.append("extras")
    elif name == "AtomicInput":
        for site in rng.sample(["keywords", "extras"], rng.randint(1, 2)):
            d[site] = {**(d.get(site) or {}), **nf_json_tree(rng)}
            sites.append(site)
        if rng.random() < 0.3:
            m = dict(d["molecule"])
            m["extras"] = {**(m.get("extras") or {}), **nf_json_tree(rng, 1)}
            d["molecule"] = m
            sites.append("molecule.extras")
    elif name == "AtomicResult":
        _inject_atomic_result(rng, d, sites)
    elif name == "OptimizationInput":
        for site in rng.sample(["keywords", "extras", "input_specification.keywords", "input_specification.extras"], rng.randint(1, 2)):
            if "." in site:
                spec = dict(d["input_specification"])
                f = site.split(".")[1]
                spec[f] = {**(spec.get(f) or {}), **nf_json_tree(rng, 1)}
                d["input_specification"] = spec
            else:
                d[site] = {**(d.get(site) or {}), **nf_json_tree(rng, 1)}
            sites.append(site)
    elif name == "OptimizationResult":
        opts = ["keywords", "extras"] + (["energies", "energies", "energies", "trajectory", "trajectory"] if d.get("trajectory") else [])
        for site in sorted(set(rng.sample(opts, rng.randint(1, min(2, len(opts)))))):
            if site == "energies":
                d["energies"] = nf_inject(rng, d["energies"]).tolist()
            elif site == "trajectory":
                tr = [dict(x) for x in d["trajectory"]]
                j = rng.randrange(len(tr))
                _inject_atomic_result(rng, tr[j], sites, prefix=f"trajectory[{j}].")
                d["trajectory"] = tr
                continue
            else:
                d[site] = {**(d.get(site) or {}), **nf_json_tree(rng, 1)}
            sites.append(site)
    elif name == "AlignmentMill":
        for site in rng.sample(["shift", "rotation"], rng.randint(1, 2)):
            src = d.get(site)
            if src is None:
                src = [0.5, -1.0, 2.0] if site == "shift" else np.eye(3)
            d[site] = nf_inject(rng, src)
            sites.append(site)
    elif name == "BasisSet":
        cd = {k: dict(v) for k, v in d["center_data"].items()}
        ck = rng.choice(sorted(cd))
        shells = [dict(s) for s in cd[ck]["electron_shells"]]
        j = rng.randrange(len(shells))
        if rng.random() < 0.5:
            shells[j]["exponents"] = nf_inject(rng, shells[j]["exponents"]).tolist()
            sites.append("electron_shells.exponents")
        else:
            shells[j]["coefficients"] = nf_inject(rng, shells[j]["coefficients"]).tolist()
            sites.append("electron_shells.coefficients")
        cd[ck]["electron_shells"] = shells
        d["center_data"] = cd
    obj = cls(**d)
    return name, obj, sites


def nf_raw_cases(ctx):
    """(key, payload) — bare non-finite floats at depth 0-3, as dict values, in lists beside arrays; arrays with non-finite elements"""
    c10 = _c10()
    rng = ctx.rng
    cases = []
    for v, vn in ((INF, "+inf"), (NINF, "-inf"), (NAN, "nan")):
        arr = np.arange(6.0).reshape(2, 3)
        for form, p in (("top", v), ("list", [v]), ("tuple", (v, 1.0)), ("dict", {"x": v}), ("dict-list", {"x": [1, v, "s", None]}), ("depth3", {"a": {"b": [0, {"c": v}]}}),
                        ("beside-array", [arr, v, {"k": arr[:, ::2], "w": v}]), ("many", [v] * 17), ("all-three", {"p": INF, "m": NINF, "n": NAN, "v": v})):
            cases.append((f"bare|{vn}|{form}", p))
        for depth in (1, 2, 3):
            for _ in range(ctx.scale(3, 30)):
                cases.append((f"bare|{vn}|d{depth}", c10.rand_payload(rng, depth, lambda v=v: v)))
    # arrays with non-finite elements: every float dtype x layout once, then random; nested at depth 0-3
    i = 0
    for dt in sorted(set(NF_EXT_DTYPES)):
        for layout in c10.LAYOUTS:
            a, lay = nf_array(rng, dt, 1 + i % 3, layout)
            depth = i % 4
            i += 1
            cases.append((f"elem|{dt}|r{a.ndim}|{lay}|d{depth}", c10.rand_payload(rng, depth, lambda a=a: a)))
    for _ in range(ctx.scale(120, 1500)):
        depth = rng.choice([0, 1, 1, 2, 2, 3])
        dt = rng.choice(NF_EXT_DTYPES)

        def leaf(dt=dt):
            r = rng.random()
            if r < 0.45:
                return nf_array(rng, dt)[0]
            if r < 0.9:
                return rng.choice(NF)
            return c10.rand_scalar(rng)

        first = nf_array(rng, dt)[0] if rng.random() < 0.5 else rng.choice(NF)
        used = [False]

        def leaf1(first=first, used=used, leaf=leaf):
            if not used[0]:
                used[0] = True
                return first
            return leaf()

        cases.append((f"mixed|{dt}|d{depth}", c10.rand_payload(rng, depth, leaf1)))
    return cases


def run_nf_raw(ctx, out: Outcome, key, p, only_enc=None):
    c10 = _c10()
    bare, elems = count_nonfinite(p)
    encs = c10.EXT if has_kind(p, "c") else c10.ENCODINGS  # complex numbers are not JSON/flat-encodable: -ext only
    for enc in encs:
        if only_enc and enc != only_enc:
            continue
        out.evaluations += 1
        out.count("block:nonfinite-raw")
        out.count("nonfinite-raw:" + enc)
        if bare:
            out.count("nonfinite-raw:with-bare-float")
        if elems:
            out.count("nonfinite-raw:with-array-element")
        out.nontrivial(("nonfinite-raw", key, enc, out.evaluations))
        check_raw(out, "nonfinite", p, enc, {"block": "nonfinite-raw", "key": key, "payload": c10.describe(p), "encoding": enc})


def run_nf_model(ctx, out: Outcome, seed, which, d, only_enc=None, only_suffix=None, files=True):
    c10 = _c10()
    sub = random.Random(seed)
    with warnings.catch_warnings():
        warnings.simplefilter("ignore")
        name, obj, sites = nf_instance(sub, which)
        bare, elems = count_nonfinite_inst(obj)
        base_case = {"block": "nonfinite-model", "seed": seed, "which": which, "model": name, "sites": sites}
        for s in sites:
            out.count("nonfinite-site:" + name + "." + re.sub(r"\[\d+\]", "[]", s))
        if not only_suffix:
            for enc in c10.ENCODINGS:
                if only_enc and enc != only_enc:
                    continue
                out.evaluations += 1
                out.count("block:nonfinite-model")
                out.count("nonfinite-model:" + name)
                out.count("nonfinite-model:" + enc)
                if bare:
                    out.count("nonfinite-model:with-bare-float")
                if elems:
                    out.count("nonfinite-model:with-array-element")
                out.nontrivial(("nonfinite-model", name, enc, ",".join(sites), "|".join(c10.shape_sig(obj.dict()))[:200]))
                check_inst(ctx, out, "nonfinite", obj, enc, {**base_case, "encoding": enc})
        if files and not only_enc:
            check_inst_files(ctx, out, "nonfinite", obj, base_case, d, only_suffix=only_suffix)
    return name, obj, sites, bare, elems


def nonfinite_block(ctx, out: Outcome):
    t0 = time.time()
    ev0 = out.evaluations
    for key, p in nf_raw_cases(ctx):
        run_nf_raw(ctx, out, key, p)
    t_r = time.time() - t0
    d = tempfile.mkdtemp(prefix="c10x-", dir=str(ctx.work))
    n = ctx.scale(135, 1350)
    without = 0
    for i in range(n):
        seed = ctx.rng.getrandbits(48)
        which = NF_KINDS[i % len(NF_KINDS)]
        name, obj, sites, bare, elems = run_nf_model(ctx, out, seed, which, d)
        if not (bare or elems):
            without += 1
        if i < 3:
            out.sample({"model": name, "family": "non-finite", "sites": sites, "bare_nonfinite_floats": bare, "nonfinite_array_elements": elems}, limit=12)
    dist = out.distribution
    out.notes.append(
        f"non-finite streams (oracle only): {out.evaluations - ev0} round trips in {time.time() - t0:.1f}s; raw payloads with bare +inf/-inf/NaN floats at depth 0-3 "
        f"({dist.get('nonfinite-raw:with-bare-float', 0)} round trips) and float/complex arrays with non-finite elements ({dist.get('nonfinite-raw:with-array-element', 0)}) "
        f"x 4 encodings (complex: -ext only) in {t_r:.1f}s; {n} model instances ({without} without a non-finite value after validation) with non-finite values in "
        "Molecule.extras, AtomicInput.keywords/extras/molecule.extras, AtomicResult.return_result (energy scalar, gradient/hessian elements, properties dict)/"
        "properties.*/extras/keywords/wavefunction matrices, OptimizationInput.keywords/extras/input_specification.*, OptimizationResult.energies/trajectory/keywords/extras, "
        "AlignmentMill.shift/rotation, BasisSet exponents/coefficients x 4 encodings + automatic choice + parse_file(.json/.js/.msgpack) + Molecule.to_file/from_file; "
        "NaN compared by isnan on both sides and by the identical second payload; not generated: non-finite Molecule geometry/masses/charges (masses, charges and bond orders are rejected by validation)"
    )


# ----------------------------------------------------------------------------------------------------------------
# replay


def replay_extra(ctx, out: Outcome, case) -> bool:
    """re-run one recorded case of the blocks above; True iff the case is one of ours"""
    block = case.get("block") if isinstance(case, dict) else None
    if block not in BLOCKS:
        return False
    c10 = _c10()
    enc = case.get("encoding")
    if block == "size-boundary":
        run_boundary(ctx, out, case["place"], case["what"], int(case["n"]), only_enc=enc)
    elif block == "large":
        try:
            run_large(ctx, out, case["place"], case["shape"], case.get("dtype", "<f8"), int(case["seed"]), enc)
        except MemoryError:
            gc.collect()
            out.notes.append("replay: MemoryError while rebuilding the large payload (not a finding)")
    elif block == "nonfinite-raw":
        run_nf_raw(ctx, out, case.get("key", "replay"), c10.undescribe(case["payload"]), only_enc=enc)
    else:
        d = tempfile.mkdtemp(prefix="c10x-", dir=str(ctx.work))
        suf = case.get("suffix")
        run_nf_model(ctx, out, int(case["seed"]), case["which"], d, only_enc=None if suf else enc, only_suffix=suf)
    return True
