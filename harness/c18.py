"""C18 — distances, angles, dihedrals and guessed bonds depend only on shape.

Correspondence: the Lean model (Model/Measure.lean, executed at K = Q on the exact rational value of
every double the implementation receives) returns the exact *arguments* of the final transcendental
step (d^2; (dot, nn) for arccos; (XN, Y, N) for arctan2).  The real-valued measurements themselves
(sqrt / arccos / arctan2 / degrees applied to those arguments exactly as the code applies numpy's) are
defined and proved about over R in Props/C18Real.lean, including the closed forms
distR = sqrt(d^2), angleR = atan2(sqrt(nn - dot^2), -dot), dihedralR = atan2(Y sqrt(N), XN)
(theorems distR_textbook, angleR_eq_args, dihedralR_eq_args).  What remains run-time is libm's / numpy's
floating-point approximation of these real functions: the closed forms are evaluated here in Python on the
driver's exact arguments and compared with the implementation's float result under a stated tolerance (1e-9).
guess_connectivity is compared exactly (pairs within 1e-9 of the cutoff are never generated), twice: with the
radii handed over next to the points (Driver/C18.lean) and from the *symbols*, the radii coming from the
radius / periodic tables that tools/gen_radii.py, tools/gen_periodic.py regenerate from the source tree on
every run, pushed through C17's model of CovalentRadii.get and the model of the look-up loop
connectivity.py:37-42 (Model/MeasureRadii.lean, Driver/C18Radii.lean).

Oracle (independent of the model): textbook formulas evaluated with exact rationals + one libm call,
rigid-motion invariance (exact rational motions from integer quaternions / Householder reflections,
coordinates rounded to doubles for the implementation), reflection sign flip, reversal, ranges,
degrees = radians * 180/pi, agreement of row-wise / matrix / index-based / Molecule.measure forms,
brute-force bond list, relabelling equivariance; and the `layout` stream: the same point values delivered as views of ONE
coordinate buffer (overlapping / identical / interleaved / reversed slices, the same object twice, row views, Fortran / column-sliced /
strided / negatively strided / read-only carriers) must give the textbook values and the values obtained from independent copies;
and the `seq` stream: the answers depend on the ARGUMENTS only, not on what the process did before — sequences of 30-60 public calls, each
sequence in its own fresh interpreter (harness/c18_worker.py), mixing radius / periodic-table look-ups with the caller's own missing= /
units= / return_tuple= / spelling, guess_connectivity and the measurement functions with other options, returned objects edited by the
caller, argument objects overwritten in place and handed in again; every guess_connectivity / measurement call in a sequence is judged
against the textbook value of its arguments, the bond criterion with radii read from the data file by ast (never from the live table
object), and the arguments are compared with their pre-call snapshot.
"""
from __future__ import annotations

import json
import math
import sys
import warnings
from fractions import Fraction as Fr

import numpy as np

import common
from common import Ctx, Finding, Outcome

sys.path.insert(0, str(common.VERIF / "tools"))
import gen_periodic  # noqa: E402  (read-only use of C01's / C17's translators)
import gen_radii  # noqa: E402

import c18_src  # noqa: E402  (translator: util/misc.py + molutil/connectivity.py -> Gen/MeasureSrc.lean)

PROPERTY = "C18"
LEAN_TARGETS = [
    "QcelVerif.Props.C18", "QcelVerif.Driver.C18",
    "QcelVerif.Lemmas.MeasureReal", "QcelVerif.Props.C18Real", "QcelVerif.Props.C18Euclid",
    "QcelVerif.Model.MeasureRadii", "QcelVerif.Lemmas.MeasureRadii", "QcelVerif.Props.C18Radii", "QcelVerif.Driver.C18Radii",
    "QcelVerif.Model.MeasureAst", "QcelVerif.Gen.MeasureSrc", "QcelVerif.Model.MeasureSrc", "QcelVerif.Props.C18Src",
]
DRIVER = "QcelVerif/Driver/C18.lean"
DRIVER_RADII = "QcelVerif/Driver/C18Radii.lean"
# Gen/Radii.lean and Gen/PT.lean are rewritten from QCEL_REPO's data files before every build
# Gen/MeasureSrc.lean is rewritten from QCEL_REPO's util/misc.py and molutil/connectivity.py (by `ast`) before every build
TRANSLATORS = [gen_periodic.main, gen_radii.main, c18_src.gen_measure_src]
THEOREMS = [
    ("QcelVerif.Measure.dist_rigid_invariant", "squared distance is unchanged by p -> R p + t for every orthogonal R (R R^T = I), any translation"),
    ("QcelVerif.Measure.angle_args_rigid_invariant", "the (dot, norm-product) pair feeding arccos is unchanged by every orthogonal motion"),
    ("QcelVerif.Measure.dihedral_args_motion", "the sqrt-free dihedral arguments (XN, Y, N) map to (XN, det R * Y, N) under every orthogonal motion"),
    ("QcelVerif.Measure.dihedral_xy_rigid_invariant", "compute_dihedral's (x, y) as coded (norm n supplied, n*n = |p3-p2|^2) is unchanged by proper rotations + translations"),
    ("QcelVerif.Measure.dihedral_xy_reflection", "under an improper orthogonal map (det = -1) x is unchanged and y changes sign"),
    ("QcelVerif.Measure.dihedral_xy_reversal", "(x, y)(p4,p3,p2,p1) = (x, y)(p1,p2,p3,p4)"),
    ("QcelVerif.Measure.dihedral_projection_irrelevant", "if n*n = |p3-p2|^2 != 0, subtracting ANY multiple of the unit central vector from v1 gives the same (x, y): the code's (v1.v1) operand is harmless"),
    ("QcelVerif.Measure.dihedralXY_eq_args", "the coded (x, y) equals (XN/N, Y/n): ties the code-shaped model to the sqrt-free arguments the driver evaluates"),
    ("QcelVerif.Measure.dihedral_textbook", "N*x = (b1 x b2).(b2 x b3) and N*y = n * b1.(b2 x b3): the IUPAC (cos, sin) numerators up to the positive factor N"),
    ("QcelVerif.Measure.angle_textbook", "with n12, n23 > 0 the norms: the clip is inactive, -cosine_angle = (p1-p2).(p3-p2)/(|p1-p2||p3-p2|), and it lies in [-1, 1]"),
    ("QcelVerif.Measure.angleCos_from_args", "cosine_angle is determined by the pair (dot, nn): cos^2 * nn = dot^2 and cos has the sign of dot"),
    ("QcelVerif.Measure.distSq_nonneg_zero", "d^2 >= 0 with equality iff the points coincide; d^2 symmetric"),
    ("QcelVerif.Measure.sqrt_lt_iff", "for s >= 0 with s*s = d2: s < c  <->  0 < c and d2 < c*c (ties the model's squared bond test to the code's sqrt test)"),
    ("QcelVerif.Measure.connectivity_exact", "(i, j) in guess  <->  i < j and atoms i, j exist and 0 < (ri+rj)*thr and d2 < ((ri+rj)*thr)^2"),
    ("QcelVerif.Measure.connectivity_sorted", "the bond list is strictly increasing in lexicographic order (so no duplicates, and determined by its member set)"),
    ("QcelVerif.Measure.connectivity_rigid_invariant", "guess (T . atoms) = guess atoms for every orthogonal motion T (proper or not)"),
    ("QcelVerif.Measure.connectivity_relabel", "for a relabelling sigma (atoms'[sigma k] = atoms[k], injective): (i,j) in guess atoms <-> (min(si,sj), max(si,sj)) in guess atoms'"),
    ("QcelVerif.Measure.forms_agree_distance", "diagonal of distance_matrix = row-wise compute_distance = index-based measure_coordinates"),
    ("QcelVerif.Measure.forms_agree_measure", "index-based measure_coordinates of 2/3/4 valid indices = distance/angle/dihedral arguments of the picked points"),
    ("QcelVerif.Measure.quatRot_isRotation", "the rational matrix U(q)/|q|^2 of any non-null quaternion is a proper rotation (R R^T = I, det = 1)"),
    ("QcelVerif.Measure.householder_isReflection", "I - 2hh^T/|h|^2 is orthogonal with det = -1"),
    # ---- over R, through the transcendental step (Props/C18Real.lean); atan2 y x := Complex.arg (x + y i) in (-pi, pi]
    ("QcelVerif.Measure.atan2_cases", "the model's atan2 y x = arg(x + y i) lies in (-pi, pi] and obeys the usual arctan2 case table: arctan(y/x) for x>0; +pi for x<0<=y; -pi for x<0,y<0; +-pi/2 on the axis x=0; 0 at the origin"),
    ("QcelVerif.Measure.distR_range", "distR = sqrt(d^2) >= 0, = 0 iff the two points coincide, symmetric"),
    ("QcelVerif.Measure.distR_textbook", "distR = sqrt(dx^2 + dy^2 + dz^2) and distR^2 = the driver's d^2"),
    ("QcelVerif.Measure.distR_rigid_invariant", "distR is unchanged by p -> R p + t for every orthogonal R (every proper rigid motion and every reflection)"),
    ("QcelVerif.Measure.angleR_range", "angleR = pi - arccos(clip(v12.v23/(|v12||v23|), -1, 1)) as coded lies in [0, pi] (all inputs of the model)"),
    ("QcelVerif.Measure.angleR_textbook", "distinct points: angleR = arccos((p1-p2).(p3-p2)/(|p1-p2||p3-p2|)) and cos(angleR) is that normalised dot product of the two bond vectors"),
    ("QcelVerif.Measure.angleR_textbook_atan2", "distinct points: angleR = atan2(|a x b|, a.b), a = p1-p2, b = p3-p2 (the oracle's textbook form)"),
    ("QcelVerif.Measure.angleR_eq_args", "distinct points: angleR = atan2(sqrt(nn - dot^2), -dot) of the driver's exact pair (dot, nn) — the closed form the harness evaluates"),
    ("QcelVerif.Measure.angleR_rigid_invariant", "angleR is unchanged by every orthogonal motion of the three points (all inputs of the model)"),
    ("QcelVerif.Measure.angleR_reversal", "angleR(p3,p2,p1) = angleR(p1,p2,p3)"),
    ("QcelVerif.Measure.dihedralR_range", "dihedralR = atan2(y, x) of the coded (x, y) lies in (-pi, pi], a subset of the stated [-pi, pi]; -pi itself is reached by numpy only through IEEE -0.0 (outside the real model)"),
    ("QcelVerif.Measure.dihedralR_rigid_invariant", "dihedralR is unchanged by every proper rigid motion (R R^T = I, det R = 1, any translation), all inputs of the model"),
    ("QcelVerif.Measure.dihedralR_reflection", "under an improper orthogonal map dihedralR' = -dihedralR, except that the value pi (planar trans: y = 0, x < 0) stays pi"),
    ("QcelVerif.Measure.dihedralR_reflection_neg", "improper orthogonal map and dihedralR != pi: dihedralR' = -dihedralR exactly"),
    ("QcelVerif.Measure.dihedralR_reflection_mod_two_pi", "improper orthogonal map: dihedralR' = -dihedralR + 2 pi k for an integer k (sign flip modulo 2 pi, no exception)"),
    ("QcelVerif.Measure.dihedralR_eq_pi_iff", "p2 != p3: dihedralR = pi iff b1.(b2xb3) = 0 and (b1xb2).(b2xb3) < 0 (the branch-cut edge is exactly the planar trans arrangement)"),
    ("QcelVerif.Measure.dihedralR_reversal", "dihedralR(p4,p3,p2,p1) = dihedralR(p1,p2,p3,p4) (all inputs of the model)"),
    ("QcelVerif.Measure.dihedralR_textbook", "p2 != p3: dihedralR = atan2(|b2| b1.(b2xb3), (b1xb2).(b2xb3)), the IUPAC signed angle between the half-planes in atan2 form"),
    ("QcelVerif.Measure.dihedralR_cos_sin", "no collinear triple: cos(dihedralR) = n1.n2/(|n1||n2|) and sin(dihedralR) = |b2| b1.n2/(|n1||n2|), n1 = b1xb2, n2 = b2xb3"),
    ("QcelVerif.Measure.dihedralR_unique", "no collinear triple: every theta in (-pi, pi] with that cosine and sine equals dihedralR (it IS the textbook signed angle)"),
    ("QcelVerif.Measure.dihedralR_eq_args", "p2 != p3: dihedralR = atan2(Y sqrt(N), XN) of the driver's exact triple (XN, Y, N) — the closed form the harness evaluates"),
    ("QcelVerif.Measure.forms_agree_real", "index-based measure_coordinates of 2/3/4 valid indices, its printed arguments evaluated by the harness's closed forms (Meas.valR), = distR / angleR / dihedralR of the picked points (distinct neighbours)"),
    ("QcelVerif.Measure.degrees_spec", "degrees=True gives radians * 180/pi (and * pi/180 gives the radians back); hence angle in [0, 180], dihedral in (-180, 180]"),
    ("QcelVerif.Measure.degrees_rigid_invariant", "the degrees=True variants of angle and dihedral are unchanged by every proper rigid motion"),
    # ---- against Mathlib's own Euclidean geometry (Props/C18Euclid.lean); points embedded in EuclideanSpace R (Fin 3)
    ("QcelVerif.Measure.distR_eq_euclidean_dist", "distR p q = dist of the two points in Mathlib's EuclideanSpace R (Fin 3)"),
    ("QcelVerif.Measure.angleR_eq_euclidean_angle", "distinct points: angleR p1 p2 p3 = Mathlib's unoriented angle EuclideanGeometry.angle p1 p2 p3 at the vertex p2"),
    # ---- guess_connectivity from symbols (Props/C18Radii.lean)
    ("QcelVerif.Measure.connRadius_spec", "ANY tables: the radius used for a symbol is 1.8 if nothing identifies it (except branch), 1.8 if identified without tabulated radius (missing=1.8), else fl(factor * float(tabulated decimal)) in bohr; a failing unit conversion escapes"),
    ("QcelVerif.Measure.connectivity_sym_exact", "from symbols: (i, j) listed <-> i < j, both rows exist, 0 < (r(si)+r(sj))*thr and d2 < ((r(si)+r(sj))*thr)^2, r = the radius look-up"),
    ("QcelVerif.Measure.connectivity_sym_rigid_invariant", "from symbols: the result (including whether a look-up raises) is unchanged by every orthogonal motion of the geometry"),
    # ---- the formulas REGENERATED FROM THE SOURCE by harness/c18_src.py (Gen/MeasureSrc.lean) are the hand model's (Props/C18Src.lean)
    ("QcelVerif.MeasureSrc.srcDistance_eq", "any ordered field, ANY function standing for np.sqrt: the term regenerated from compute_distance (with _norm inlined from its source) evaluates to sqrt(distSq p q) of the hand model"),
    ("QcelVerif.MeasureSrc.srcAngle_eq", "any ordered field, ANY sqrt/arccos/pi/degrees: the term regenerated from compute_angle evaluates to pi - arccos(angleCos(sqrt|v12|^2, sqrt|v23|^2)) with the hand model's code-shaped angleCos (np.clip(.,-1,1) included), passed through degrees iff the flag is set"),
    ("QcelVerif.MeasureSrc.srcDihedral_eq", "any ordered field, ANY sqrt/arctan2/degrees: the term regenerated from compute_dihedral evaluates to arctan2(y, x) with (x, y) = the hand model's dihedralXY at n = sqrt|p3-p2|^2, passed through degrees iff the flag is set"),
    ("QcelVerif.MeasureSrc.srcDistR_eq_distR", "over R with Real.sqrt: source-derived compute_distance = distR of Props/C18Real.lean, all inputs"),
    ("QcelVerif.MeasureSrc.srcAngleR_eq_angleR", "over R with Real.sqrt / Real.arccos / Real.pi: source-derived compute_angle(degrees=False) = angleR, all inputs"),
    ("QcelVerif.MeasureSrc.srcDihedralR_eq_dihedralR", "over R with Real.sqrt / atan2 = Complex.arg: source-derived compute_dihedral(degrees=False) = dihedralR, all inputs"),
    ("QcelVerif.MeasureSrc.src_degrees_eq", "the degrees=True branch of the source-derived angle / dihedral is angleDegR / dihedralDegR = degrees(radian value)"),
    ("QcelVerif.MeasureSrc.src_exactDist", "the exact evaluator the driver runs (argument of the source's sqrt) on the regenerated compute_distance = some(distSq p q), all inputs, any ordered field"),
    ("QcelVerif.MeasureSrc.src_exactAngle", "the exact evaluator on the regenerated compute_angle (numerator and radicand product of the clipped arccos argument) = some(angleArgs p1 p2 p3), all inputs"),
    ("QcelVerif.MeasureSrc.src_exactDihedral_partial", "PARTIAL (p2 != p3): the regenerated compute_dihedral's x, y evaluated exactly in K(sqrt N) are XN/N and (Y/N) sqrt N: the exact evaluator = some(dihedralArgs); the degenerate central bond is not covered"),
    ("QcelVerif.MeasureSrc.exactTest_connSpec", "the root-free form of the regenerated test `sqrt(d2) < (r_x + r_j) * threshold` is defined on every pair and equals the hand model's bonded"),
    ("QcelVerif.MeasureSrc.srcConnExactDefined_true", "the driver's definedness guard for the regenerated pair loop is true for every atom list"),
    ("QcelVerif.MeasureSrc.srcConnExact_eq_guessConnectivity", "the pair loop regenerated from guess_connectivity (range bound, slice offsets x+1, index shift, `<`, cutoff expression, pair order) with the exact test = guessConnectivity thr atoms for EVERY atom list, any ordered field"),
    ("QcelVerif.MeasureSrc.srcConnR_eq_guessConnectivity", "over R with the real square root and the source's own comparison: the regenerated pair loop = guessConnectivity thr atoms for every atom list"),
    ("QcelVerif.MeasureSrc.src_rigid_invariant", "source-derived distance, angle, dihedral (either degrees flag) are unchanged by every proper rigid motion"),
    ("QcelVerif.MeasureSrc.src_ranges", "source-derived distance >= 0, angle in [0, pi] / [0, 180], dihedral in (-pi, pi] / (-180, 180], all inputs of the real model"),
    ("QcelVerif.MeasureSrc.src_dihedral_reflection", "under an improper orthogonal map the source-derived distance and angle are unchanged and the dihedral is negated (the edge value pi stays pi)"),
    ("QcelVerif.MeasureSrc.src_reversal", "source-derived distance, angle, dihedral are unchanged when the points are listed backwards (either degrees flag)"),
    ("QcelVerif.MeasureSrc.src_degrees_factor", "source-derived degrees=True value = degrees=False value * 180/pi (angle and dihedral)"),
    ("QcelVerif.MeasureSrc.src_textbook", "non-degenerate input: source-derived distance = sqrt(dx^2+dy^2+dz^2), angle = arccos of the normalised bond-vector dot product, dihedral = the IUPAC signed angle in atan2 form"),
    ("QcelVerif.MeasureSrc.src_connectivity_exact", "(i, j) in the source-derived bond list <-> i < j, both atoms exist, 0 < (ri+rj)*thr and d2 < ((ri+rj)*thr)^2"),
    ("QcelVerif.MeasureSrc.src_connectivity_rigid_invariant", "the source-derived bond list is unchanged by every orthogonal motion of the geometry"),
    ("QcelVerif.MeasureSrc.src_connectivity_relabel", "under an injective relabelling sigma of the atoms the source-derived bonds correspond, re-sorted within the pair"),
]
TRUSTED_BASE = [
    "Lean 4.33 kernel + Mathlib (ring/linear_combination/field_simp; over R additionally Real.sqrt, Real.arccos, Complex.arg and their Mathlib theory); axioms per theorem audited on every run",
    "REGENERATED FROM SOURCE: the row formulas of compute_distance / compute_angle / compute_dihedral (with the helper _norm inlined from its own source) and the pair loop of guess_connectivity "
    "(connectivity.py:47-57: range bound, slice offsets, np.sqrt(.., out=..), comparison operator, cutoff expression, index shift, pair order) are re-read from util/misc.py / molutil/connectivity.py by `ast` on every run "
    "(harness/c18_src.py -> Gen/MeasureSrc.lean, terms of the AST of Model/MeasureAst.lean; anything outside the recognised fragment makes the translator fail and the check with it); Props/C18Src.lean proves for all inputs that these terms, "
    "evaluated over any ordered field with arbitrary functions for the numpy transcendentals, are the hand model's distSq / angleCos / dihedralXY / bonded / guessConnectivity, and over R are distR / angleR / dihedralR / degrees. "
    "TRUSTED here: the translator's reading of numpy — that on (n,3) arrays `-`,`+`, scalar `*`, `s[:, None] * v`, `v / s[:, None]`, np.cross, np.einsum('ij,ij->i'), np.linalg.norm(axis=1), np.clip, np.where(a < b)[0], open slices a[x+k:] and in-place np.sqrt(out=) "
    "act row by row as the AST evaluators say (Model/MeasureAst.lean evalS / evalV / srcConn) — and the mapping np.sqrt -> Real.sqrt, np.arccos -> Real.arccos, np.clip -> min/max, np.arctan2(y, x) -> Complex.arg (x + y i), np.degrees -> * 180/pi, np.pi -> Real.pi",
    "still hand-written and tied by differential correspondence only: the handling of the leading axis (np.atleast_2d un-wrapping, broadcasting 1 row against n: bcast / zipWith of Model/Measure.lean; the translator only checks that every point parameter is first passed through np.atleast_2d), "
    "distance_matrix (misc.py:10-19), measure_coordinates (misc.py:147-187: index validation, dispatch on the number of indices, val[0]), the default_connectivity tail of guess_connectivity (connectivity.py:59-60), and Model/MeasureRadii.lean of connectivity.py:37-42",
    "libm / numpy floating point: that np.sqrt, np.arccos, np.arctan2, np.degrees, np.pi and the elementwise float +,-,*,/ approximate those real functions is NOT proved; "
    "it is checked at run time by evaluating the proved closed forms (sqrt d2; atan2(sqrt(nn-dot^2), -dot); atan2(Y sqrt N, XN)) in Python (math.sqrt / math.atan2, i.e. libm again) on the model's exact rational arguments and comparing with the implementation at 1e-9",
    "IEEE signed zero, NaN and infinities are outside the real-number model: np.arctan2(-0.0, x<0) = -pi where the real atan2 gives +pi (same geometric angle; the oracle compares dihedrals modulo 2 pi and demands the closed range [-pi, pi]); x/0 is 0 in Lean and nan in numpy (degenerate inputs, outside the quantifier)",
    "covalent radii: REGENERATED FROM SOURCE — tools/gen_radii.py and tools/gen_periodic.py (C17's / C01's translators, used read-only) re-encode qcelemental/data/alvarez_2008_covalent_radii.py and nist_2011_atomic_weights.py on every run; "
    "C17's model of CovalentRadii.get (Model/Radii.lean, its own correspondence is C17's check) and Model/MeasureRadii.lean turn a symbol into the radius; every radius the run touches is compared exactly (as rationals of doubles) with what the implementation's covalentradii returns, and the bond list from symbols is compared exactly with guess_connectivity",
    "the unit factor angstrom -> bohr (constants.conversion_factor: pint, C03's territory) is a PARAMETER: it is read once from the implementation and handed to the model; the fallback 1.8 bohr for unknown / radius-less symbols is modelled as coded (connectivity.py:39,41)",
    "seq stream: the expected radii are factor * float(Decimal(text)) of the rows of qcelemental/data/alvarez_2008_covalent_radii.py read by ast (largest value where an element has several labelled rows, "
    "1.8 bohr where it has none — connectivity.py:39,41), the element of a nuclide / oddly cased label taken from periodictable.to_E in the harness process (C01's territory, a parameter) and the "
    "angstrom -> bohr factor from constants (C03's, a parameter); they are compared exactly with the radius model on the regenerated tables (RAD line) and with covalentradii.get(s, missing=1.8) in the harness process",
    "harness/c18_worker.py (executes a sequence in a fresh interpreter and snapshots arguments / results; judges nothing)",
    "harness/c18.py generators and the Python oracle; harness/c18_src.py (the translator)",
]
ASSUMPTIONS = [
    "points are non-degenerate as the quantifier says: pairwise distance >= 0.1 (and, in ~15% of the single and batched measurement cases, the same shapes shrunk by 2^-10 / 2^-17 / 2^-24 towards their first point, or with one arm shrunk: arm lengths down to ~1e-7, never coincident), and for 'general position' cases sin^2 of every bond angle that defines a plane >= 1e-4 (a separate exactly-collinear stream checks angle in {0, pi} at 1e-6)",
    "the theorems over R that state textbook agreement carry exactly these non-degeneracy hypotheses (p1 != p2, p3 != p2 for the angle; p2 != p3, resp. no collinear triple, for the dihedral); range, invariance and reversal theorems hold for all inputs of the real model, "
    "which on degenerate inputs (division by zero) is NOT the implementation (Lean x/0 = 0, numpy nan)",
    "the real model has no signed zero: on the exactly planar trans arrangement the implementation may return -pi (through -0.0) where dihedralR = +pi; dihedrals are therefore compared modulo 2 pi and the range demanded of the implementation is the stated closed [-pi, pi]",
    "bond pairs whose distance is within 1e-9 of (ri+rj)*thr are excluded from generation (the probe stream sits 4e-9 .. 1e-4 from the cutoff on either side), except three fixed tasks whose pair sits EXACTLY at the cutoff with every float operation exact (must not be bonded: `closer than` is strict); thresholds are positive",
    "symbols and geometry have equal length; inputs are finite doubles; indices are Python ints; symbols are ASCII str (element symbols in any case, nuclide labels, exact table labels such as C_sp3, unknown strings)",
    "batched inputs have >= 1 row; mixed scalar/batched shapes follow numpy broadcasting (rows 1 vs n)",
    "source-derived exact part of the dihedral: proved equal to the hand model's (XN, Y, N) for p2 != p3 only (src_exactDihedral_partial); on the degenerate central bond (outside the quantifier) the two are only compared by the driver",
    "layout stream: arguments are float64 ndarrays (any strides, possibly aliasing each other, possibly read-only) or nested lists; distance_matrix entries between "
    "two views of the very same buffer row (coincident points, outside the quantifier) are compared with the model only, never demanded by the oracle",
    "seq stream: the history consists of calls to the public API only (covalentradii.get / vdwradii.get / periodictable.to_* with any options, including calls that end in the documented exceptions; guess_connectivity; "
    "compute_distance / compute_angle / compute_dihedral / distance_matrix / measure_coordinates / Molecule.measure) and of the caller editing objects it owns (lists / arrays it received, its own argument objects); "
    "nobody writes to the tables' attributes (covalentradii.cr etc.); distance_matrix receives ndarrays only (documented signature); a sequence lives in one single-threaded process",
]
RULE = (
    "tasks = geom (4 points in [-10,10]^3 from 6 point styles x exact rational motion (integer quaternion, optional Householder reflection, rational "
    "translation) x degrees flag), batch (1-6 rows, equal / broadcast / incompatible shapes, all three functions + distance_matrix), measure "
    "(1-8 points, single/list index specs incl. negative, out-of-range, wrong-arity and empty specs; Molecule.measure), conn (1-15 atoms over the whole "
    "periodic table incl. radius-less and unknown symbols, 9 thresholds, default_connectivity, motion + permutation), collinear (exact 0/180 degree "
    "triples), layout (the values depend on the point values only, not on where the arrays live: 4-12 points in ONE coordinate buffer carried as "
    "C / Fortran / column-slice-of-a-wider-table / every-other-row / negative-row-stride / negative-column-stride memory, writable or read-only; "
    "distance_matrix on overlapping equal-length windows P[s:s+m] vs P[s+k:s+k+m] (also strided), overlapping unequal windows, the same object twice, "
    "two views of the same rows, disjoint, interleaved P[::2] vs P[1::2], a window vs itself reversed, view vs copy; compute_distance/angle/dihedral on "
    "shifted windows along the chain (P[:-3],P[1:-2],P[2:-1],P[3:] and wider shifts, reversed, interleaved P[j::k], 1-d row views, broadcast "
    "row-view vs window, views mixed with copies and lists); measure_coordinates and guess_connectivity on non-contiguous / reversed / flat-strided "
    "views; each compared with the textbook value of the resolved points, with the call on independent copies, and with the model), "
    "probe (conn tasks of 2-4 atoms in a chain whose consecutive pairs sit 4e-9 .. 1e-4 bohr inside or outside their cutoff (ri+rj)*thr, symbols over the whole table, "
    "radius-less / unknown symbols, exact table labels (C_sp3, Mn_lowspin, ...), nuclide labels and odd letter case: pins the radius the implementation really uses for each symbol to ~1e-9). "
    "Every conn / probe / layout-conn task is additionally evaluated by the second driver from the symbols with radii from the regenerated tables, and every distinct symbol's table radius is compared exactly with the implementation's. "
    "seq (call sequences: the value of a call depends on its arguments only, not on the history of the process. 64 (quick) / 400 (thorough) sequences of 30-60 steps, EACH IN ITS OWN FRESH INTERPRETER so that the harness's own "
    "uniform use of the tables cannot pre-set any state; a cast of 2-4 labels without tabulated radius (Z >= 97 in three letter cases, unknown strings, nuclides of such elements) and 3-5 with one (elements in three cases, exact table labels, "
    "generic C/Mn/Fe/Co, nuclides); steps: covalentradii.get(label | other case | atomic number | element, missing in {absent, 0, 0.5, 1, 1.8, 2.5, 4, 10}, units in {absent, bohr, angstrom, pm, nm}, return_tuple in {absent, False, True}), "
    "vdwradii.get likewise, periodictable.to_E/to_Z/to_mass/to_A/to_name; guess_connectivity on 2-5 atom chains of the cast whose consecutive pairs sit 1e-6 .. 0.8 bohr inside / outside the cutoff of the TABLE radii, symbols as list / tuple / object array, "
    "geometry as (n,3) / flat / Fortran array / nested list, 9 thresholds + random + default, default_connectivity; the same molecule again with other options on fresh objects or on the very objects of the earlier call; the caller clearing / appending to / "
    "reversing / popping a list (array) returned earlier and asking again; the caller overwriting its geometry (and symbols) objects in place and handing the same objects in again; compute_distance / angle / dihedral (1-3 rows, row / list / array forms), "
    "distance_matrix, measure_coordinates, Molecule.measure, repeated on the same objects with the other degrees flag. Every guess_connectivity / measurement step is judged: exact bond set from the data-file radii, textbook values at 1e-9, "
    "arguments equal to their pre-call snapshot, lists / arrays returned by earlier steps still equal to what was returned unless the caller edited them; every guess_connectivity step is also compared with both drivers. A failing sequence is cut after the failing call and ddmin-shrunk over its history (each trial a fresh interpreter). "
    "In-process conn tasks additionally check that the geometry / symbols objects are unchanged by the call and that covalentradii.get(s, missing=1.8) equals the data-file radius.) "
    "THREE-WAY: every D / A / H / BD / BA / BH / C driver line of every stream is answered by the hand model AND by the exact evaluators run on the terms regenerated from the source (exact rational arithmetic; the dihedral's x, y in Q(sqrt N)); "
    "any difference is a mismatch (distribution key three_way_lines). "
    "A case is distinct by its full input; non-trivial when points are in general position (no coordinate plane symmetry) or an error/bond "
    "branch is hit, and for layout cases when arguments share memory or the carrier is not a fresh writable C array."
)
LEVEL_TEXT = (
    "proof, partial: over every (ordered) field, invariance, sign-flip, reversal, textbook-agreement, exactness of the bond criterion and form agreement are proved for all "
    "inputs about the algebraic arguments; over R (Mathlib sqrt / arccos / Complex.arg) the measurements as coded are proved to lie in [0, inf), [0, pi], (-pi, pi] "
    "(degrees: * 180/pi, [0, 180], (-180, 180]), to be invariant under every proper rigid motion, to flip sign under reflection (exactly off the dihedral = pi edge, "
    "modulo 2 pi everywhere), to be unchanged by listing the points backwards and to equal the textbook definitions (arccos of the normalised dot product; the unique "
    "angle in (-pi, pi] with the IUPAC cosine and sine) for non-degenerate inputs. The row formulas of compute_distance / compute_angle / compute_dihedral and the pair loop of guess_connectivity are no longer hand transcriptions only: "
    "they are regenerated from the source text on every run and proved, for all inputs, to be the hand model's (Props/C18Src.lean), and all headline clauses are restated over the source-derived functions. "
    "Partial because: the translator's reading of numpy's row-wise semantics is trusted (and sampled three-way on every driver line); leading-axis handling, distance_matrix, measure_coordinates and default_connectivity are still tied by sampled correspondence only; libm / IEEE "
    "rounding of sqrt / arccos / arctan2 / degrees and of the float arithmetic in front of them is run-time only (differential, 1e-9); signed zero and nan are outside the real model. "
    "Covalent radii are no longer taken from the implementation: they are regenerated from the source data files and checked against the implementation exactly. "
    "The model is a pure function of the arguments; that the implementation is one too (no dependence on earlier calls in the process, on objects handed out earlier, on argument objects being reused) is sampled only: "
    "call sequences in fresh interpreters, judged against values computed from the arguments alone."
)
TECHNIQUE = "Lean 4 proof over generic commutative rings / ordered fields, lifted over R through Mathlib's sqrt / arccos / arg + formulas regenerated from the source by an ast translator and proved equal to the hand model + exact-rational three-way differential correspondence + regenerated radius tables"

TOL = 1e-9
TOL_COLLINEAR = 1e-6
TOL_FORMS = 1e-9
MARGIN = 1e-9

# --------------------------------------------------------------------------------------
# exact helpers


def F(x) -> Fr:
    return Fr(float(x))


def rs(q: Fr) -> str:
    return str(q.numerator) if q.denominator == 1 else f"{q.numerator}/{q.denominator}"


def pr(s: str) -> Fr:
    return Fr(s)


def pt_s(p) -> str:
    return ",".join(rs(c) for c in p)


def pts_s(ps) -> str:
    return ";".join(pt_s(p) for p in ps)


def fpts(ps):
    """list of float triples -> list of exact Fraction triples"""
    return [tuple(F(c) for c in p) for p in ps]


def sub(a, b):
    return (a[0] - b[0], a[1] - b[1], a[2] - b[2])


def dot(a, b):
    return a[0] * b[0] + a[1] * b[1] + a[2] * b[2]


def cross(a, b):
    return (a[1] * b[2] - a[2] * b[1], a[2] * b[0] - a[0] * b[2], a[0] * b[1] - a[1] * b[0])


def quat_rot(a, b, c, d):
    s = Fr(a * a + b * b + c * c + d * d)
    return [
        [(a * a + b * b - c * c - d * d) / s, 2 * (b * c - a * d) / s, 2 * (b * d + a * c) / s],
        [2 * (b * c + a * d) / s, (a * a - b * b + c * c - d * d) / s, 2 * (c * d - a * b) / s],
        [2 * (b * d - a * c) / s, 2 * (c * d + a * b) / s, (a * a - b * b - c * c + d * d) / s],
    ]


def householder(h):
    s = Fr(dot(h, h))
    return [[(1 if i == j else 0) - 2 * Fr(h[i] * h[j]) / s for j in range(3)] for i in range(3)]


def matvec(M, p):
    return tuple(M[i][0] * p[0] + M[i][1] * p[1] + M[i][2] * p[2] for i in range(3))


def apply_motion(mo, ps):
    """mo = {"q": [a,b,c,d], "h": None | [x,y,z], "t": ["p/q",…]} on exact points"""
    R = quat_rot(*mo["q"])
    H = householder(mo["h"]) if mo["h"] else None
    t = tuple(Fr(x) for x in mo["t"])
    out = []
    for p in ps:
        v = matvec(R, p)
        if H:
            v = matvec(H, v)
        out.append((v[0] + t[0], v[1] + t[1], v[2] + t[2]))
    return out


def to_floats(ps):
    return [[float(c) for c in p] for p in ps]


def hexpts(ps):
    return [[float(c).hex() for c in p] for p in ps]


def unhex(ps):
    return [[float.fromhex(c) for c in p] for p in ps]


def angdiff(a, b):
    """circular difference (dihedrals: -pi and +pi are the same angle)"""
    d = (a - b) % (2 * math.pi)
    return min(d, 2 * math.pi - d)


# textbook definitions, evaluated on exact rationals with one libm call (independent of the Lean model)
def tb_distance(p, q):
    v = sub(p, q)
    return math.sqrt(float(dot(v, v)))


def tb_angle(p1, p2, p3):
    a, b = sub(p1, p2), sub(p3, p2)
    c = cross(a, b)
    return math.atan2(math.sqrt(float(dot(c, c))), float(dot(a, b)))


def tb_dihedral(p1, p2, p3, p4):
    b1, b2, b3 = sub(p2, p1), sub(p3, p2), sub(p4, p3)
    n1, n2 = cross(b1, b2), cross(b2, b3)
    return math.atan2(math.sqrt(float(dot(b2, b2))) * float(dot(b1, n2)), float(dot(n1, n2)))


# transcendental step on the model's exact arguments: libm evaluation of the closed forms proved over R in Props/C18Real.lean
#   distR = sqrt(d2)                                   (definition of distR; distR_textbook)
#   angleR = atan2(sqrt(nn - dot^2), -dot)             (angleR_eq_args)
#   dihedralR = atan2(Y * sqrt(N), XN)                 (dihedralR_eq_args)
def ev_dist(d2: Fr) -> float:
    return math.sqrt(float(d2))


def ev_angle(dt: Fr, nn: Fr) -> float:
    # pi - arccos(dt / sqrt(nn)) == atan2(sqrt(nn - dt^2), -dt)   (numerically stable everywhere)
    return math.atan2(math.sqrt(float(max(nn - dt * dt, Fr(0)))), float(-dt))


def ev_dihedral(xn: Fr, y: Fr, n: Fr) -> float:
    return math.atan2(float(y) * math.sqrt(float(n)), float(xn))


def sin2(a, b):
    """sin^2 of the angle between exact vectors a, b"""
    c = cross(a, b)
    den = dot(a, a) * dot(b, b)
    if den == 0:  # a zero-length arm (coincident points): not in general position — the generators reject and resample
        return Fr(0)
    return dot(c, c) / den


# --------------------------------------------------------------------------------------
# implementation wrappers


def impl_err(e: BaseException) -> str:
    if isinstance(e, ValueError) and "broadcast" in str(e):
        return "Broadcast"
    if isinstance(e, (ValueError, KeyError, IndexError)):
        return type(e).__name__
    return "other:" + type(e).__name__


def call(fn, *a, **k):
    try:
        with warnings.catch_warnings():
            warnings.simplefilter("ignore")
            return ("ok", fn(*a, **k))
    except Exception as e:  # noqa
        return ("err", impl_err(e))


def util():
    import qcelemental.util as u

    return u


# --------------------------------------------------------------------------------------
# tasks.  A task is a JSON-able dict; `lines(task)` are the driver inputs, `check(task, model, out)` evaluates it.


def V(out: Outcome, kind, task, detail, observed=None, expected=None):
    out.violations.append(Finding(kind, {"task": task}, observed=observed, expected=expected, detail=detail))


def MM(out: Outcome, task, detail, observed=None, expected=None):
    out.mismatches.append(Finding("mismatch", {"task": task}, observed=observed, expected=expected, detail=detail))


def close(a, b, tol):
    return abs(a - b) <= tol


# ---- geom -------------------------------------------------------------------------------


def geom_lines(t):
    P = fpts(unhex(t["pts"]))
    Pe = apply_motion(t["motion"], P)  # exact image
    Pr = fpts(to_floats(Pe))  # what the implementation receives
    L = []
    for Q in (P, Pe, Pr):
        L += ["D|" + pts_s(Q[:2]), "A|" + pts_s(Q[:3]), "H|" + pts_s(Q)]
    mo = t["motion"]
    L.append("RIG|{}|{}|{}|{}".format(",".join(map(str, mo["q"])), "N" if not mo["h"] else ",".join(map(str, mo["h"])), ",".join(mo["t"]), pts_s(P)))
    return L


def parse_DAH(ls):
    d = pr(ls[0].split()[1])
    a = tuple(pr(x) for x in ls[1].split()[1:])
    h = tuple(pr(x) for x in ls[2].split()[1:])
    return d, a, h


def geom_check(t, model, out: Outcome):
    u = util()
    Pf = unhex(t["pts"])
    P = fpts(Pf)
    Pe = apply_motion(t["motion"], P)
    Prf = to_floats(Pe)
    Pr = fpts(Prf)
    improper = bool(t["motion"]["h"])
    sgn = -1.0 if improper else 1.0
    deg = t["degrees"]
    tol_a = TOL_COLLINEAR if t.get("collinear") else TOL
    out.evaluations += 1
    out.count("geom:" + t["style"] + (":improper" if improper else ":proper"))

    def impl3(Qf, degrees):
        rd = call(u.compute_distance, Qf[0], Qf[1])
        ra = call(u.compute_angle, Qf[0], Qf[1], Qf[2], degrees=degrees)
        rh = call(u.compute_dihedral, Qf[0], Qf[1], Qf[2], Qf[3], degrees=degrees) if not t.get("collinear") else ("skip", None)
        return rd, ra, rh

    res = {"P": impl3(Pf, False), "Pr": impl3(Prf, False)}
    for nm, r3 in res.items():
        for fnm, r in zip("DAH", r3):
            if r[0] == "err":
                V(out, "oracle:raises", t, f"{fnm} on {nm} raised {r[1]}")
                return
            if r[0] == "ok" and (np.shape(r[1]) != (1,) or not np.isfinite(r[1][0])):
                V(out, "oracle:shape_or_nan", t, f"{fnm} on {nm} returned {r[1]!r}")
                return
    d0, a0, h0 = (res["P"][0][1][0], res["P"][1][1][0], None if t.get("collinear") else res["P"][2][1][0])
    d1, a1, h1 = (res["Pr"][0][1][0], res["Pr"][1][1][0], None if t.get("collinear") else res["Pr"][2][1][0])
    # --- oracle: textbook definitions
    for nm, Q, (d, a, h) in (("P", P, (d0, a0, h0)), ("Pr", Pr, (d1, a1, h1))):
        if not close(d, tb_distance(Q[0], Q[1]), TOL):
            V(out, "oracle:distance_textbook", t, f"distance on {nm}", observed=d, expected=tb_distance(Q[0], Q[1]))
        if not close(a, tb_angle(*Q[:3]), tol_a):
            V(out, "oracle:angle_textbook", t, f"angle on {nm}", observed=a, expected=tb_angle(*Q[:3]))
        if h is not None and angdiff(h, tb_dihedral(*Q)) > TOL:
            V(out, "oracle:dihedral_textbook", t, f"dihedral on {nm}", observed=h, expected=tb_dihedral(*Q))
        # ranges
        if not (d >= 0):
            V(out, "oracle:range", t, "distance negative", observed=d)
        if not (0 <= a <= math.pi):
            V(out, "oracle:range", t, "angle outside [0, pi]", observed=a)
        if h is not None and not (-math.pi <= h <= math.pi):
            V(out, "oracle:range", t, "dihedral outside [-pi, pi]", observed=h)
    # --- oracle: rigid motion / reflection.  The moved points are the exact images ROUNDED to doubles (absolute error up to
    #     ~ulp(32) per coordinate), so the moved shape is the original one only up to that rounding relative to its arm
    #     lengths: negligible for ordinary shapes (arms >= 0.1: 3e-13), the dominant term for the shrunk ones.
    min_arm = min(math.sqrt(float(dot(sub(P[i], P[j]), sub(P[i], P[j])))) for i in range(4) for j in range(i))
    slack = 64 * 2.0**-52 * 32.0 / min_arm
    if not close(d0, d1, TOL + 64 * 2.0**-52 * 32.0):
        V(out, "oracle:distance_invariance", t, "distance changes under rigid motion", observed=d1, expected=d0)
    if not close(a0, a1, tol_a + slack):
        V(out, "oracle:angle_invariance", t, "angle changes under rigid motion", observed=a1, expected=a0)
    if h0 is not None and angdiff(sgn * h0, h1) > TOL + 4 * slack:
        V(out, "oracle:dihedral_reflection" if improper else "oracle:dihedral_invariance", t,
          "dihedral does not flip sign under reflection" if improper else "dihedral changes under proper rigid motion", observed=h1, expected=sgn * h0)
    # --- oracle: reversal / symmetry
    rd = call(u.compute_distance, Pf[1], Pf[0])
    ra = call(u.compute_angle, Pf[2], Pf[1], Pf[0])
    if rd[0] != "ok" or not close(rd[1][0], d0, TOL):
        V(out, "oracle:distance_symmetry", t, "d(q,p) != d(p,q)", observed=repr(rd[1]), expected=d0)
    if ra[0] != "ok" or not close(ra[1][0], a0, tol_a):
        V(out, "oracle:angle_reversal", t, "angle(p3,p2,p1) != angle(p1,p2,p3)", observed=repr(ra[1]), expected=a0)
    if h0 is not None:
        rh = call(u.compute_dihedral, Pf[3], Pf[2], Pf[1], Pf[0])
        if rh[0] != "ok" or angdiff(rh[1][0], h0) > TOL:
            V(out, "oracle:dihedral_reversal", t, "dihedral(p4,p3,p2,p1) != dihedral(p1,p2,p3,p4)", observed=repr(rh[1]), expected=h0)
    # --- oracle: degrees
    if deg:
        ra = call(u.compute_angle, Pf[0], Pf[1], Pf[2], degrees=True)
        if ra[0] != "ok" or not close(ra[1][0], a0 * 180.0 / math.pi, 1e-10):
            V(out, "oracle:degrees", t, "angle degrees != radians*180/pi", observed=repr(ra[1]), expected=a0 * 180.0 / math.pi)
        if h0 is not None:
            rh = call(u.compute_dihedral, Pf[0], Pf[1], Pf[2], Pf[3], degrees=True)
            if rh[0] != "ok" or not close(rh[1][0], h0 * 180.0 / math.pi, 1e-10):
                V(out, "oracle:degrees", t, "dihedral degrees != radians*180/pi", observed=repr(rh[1]), expected=h0 * 180.0 / math.pi)
    # bookkeeping
    if h0 is not None:
        out.count("dihedral_quadrant:%d" % (int((h0 + math.pi) // (math.pi / 2)) % 4))
    out.count("angle_bucket:%d" % min(5, int(a0 / (math.pi / 6))))
    if t["style"] not in ("lattice", "collinear"):
        out.nontrivial("g" + json.dumps(t["pts"]) + json.dumps(t["motion"]))
    # --- correspondence
    if model is None:
        return
    mP, mPe, mPr = parse_DAH(model[0:3]), parse_DAH(model[3:6]), parse_DAH(model[6:9])
    for nm, m, (d, a, h) in (("P", mP, (d0, a0, h0)), ("Pr", mPr, (d1, a1, h1))):
        e = ev_dist(m[0])
        if not close(d, e, TOL):
            MM(out, t, f"distance on {nm}: implementation vs sqrt(model d2)", observed=d, expected=e)
        e = ev_angle(*m[1])
        if not close(a, e, tol_a):
            MM(out, t, f"angle on {nm}: implementation vs pi-arccos(model args)", observed=a, expected=e)
        if h is not None:
            e = ev_dihedral(*m[2])
            if angdiff(h, e) > TOL:
                MM(out, t, f"dihedral on {nm}: implementation vs arctan2(model args)", observed=h, expected=e)
    # exact invariance of the executed model (the theorems, exhibited on this input)
    exp_h = (mP[2][0], -mP[2][1] if improper else mP[2][1], mP[2][2])
    if mPe[0] != mP[0] or mPe[1] != mP[1] or mPe[2] != exp_h:
        MM(out, t, "executed model is not exactly invariant under the exact rational motion", observed=[str(x) for x in mPe[2]], expected=[str(x) for x in exp_h])
    rig = model[9].split(" ", 1)
    if rig[0] != "RIG" or rig[1] != pts_s(Pe):
        MM(out, t, "Lean quatRot/householder motion differs from the harness motion", observed=model[9][:200], expected=pts_s(Pe)[:200])
    out.sample({"task": "geom", "style": t["style"], "dist": d0, "angle": a0, "dihedral": h0, "model_H": model[2], "improper": improper})


# ---- batch ------------------------------------------------------------------------------


def batch_lines(t):
    ls = [fpts(unhex(x)) for x in t["lists"]]
    L = ["BD|" + pts_s(ls[0]) + "|" + pts_s(ls[1]), "BA|" + "|".join(pts_s(x) for x in ls[:3]), "BH|" + "|".join(pts_s(x) for x in ls)]
    L.append("DM|" + pts_s(ls[0]) + "|" + pts_s(ls[1]))
    return L


def rows_of(lists, k):
    n = max(len(x) for x in lists[:k])
    if any(len(x) not in (1, n) for x in lists[:k]):
        return None
    return [[(x[0] if len(x) == 1 else x[i]) for x in lists[:k]] for i in range(n)]


def batch_check(t, model, out: Outcome):
    u = util()
    lists = unhex_lists(t["lists"])
    arrs = [np.array(x, dtype=float) for x in lists]
    deg = t["degrees"]
    out.evaluations += 1
    shape = ",".join(str(len(x)) for x in lists)
    fns = (("BD", "distance", u.compute_distance, 2, {}), ("BA", "angle", u.compute_angle, 3, {"degrees": deg}), ("BH", "dihedral", u.compute_dihedral, 4, {"degrees": deg}))
    for li, (tag, name, fn, k, kw) in enumerate(fns):
        fac = 180.0 / math.pi if (deg and name != "distance") else 1.0
        rows = rows_of(lists, k)
        r = call(fn, *arrs[:k], **kw)
        out.count(f"batch:{name}:" + ("valid" if rows is not None else "incompatible") + ":" + r[0])
        # --- oracle: batched form == row-wise scalar calls
        if rows is not None:
            kind = "oracle:dihedral_batched_broadcast" if name == "dihedral" else "oracle:forms_agree_batched"
            if r[0] != "ok":
                V(out, kind, t, f"batched compute_{name} with row counts {shape} raised {r[1]} although every row is measurable", observed=r[1])
            else:
                vals = np.asarray(r[1])
                if vals.shape != (len(rows),):
                    V(out, kind, t, f"batched compute_{name} returned shape {vals.shape}, expected ({len(rows)},)", observed=repr(vals))
                else:
                    for i, row in enumerate(rows):
                        s = call(fn, *row, **kw)
                        ok = s[0] == "ok" and ((angdiff(vals[i] / fac, s[1][0] / fac) <= TOL_FORMS) if name == "dihedral" else close(vals[i], s[1][0], TOL_FORMS * max(1.0, abs(s[1][0]))))
                        if not ok:
                            V(out, kind, t, f"row {i} of batched compute_{name} differs from the scalar call on that row", observed=float(vals[i]), expected=repr(s[1]))
                            break
        # --- correspondence
        if model is not None:
            ml = model[li].split()
            if ml[1:2] == ["err"]:
                if not (r[0] == "err" and r[1] == ml[2]):
                    MM(out, t, f"compute_{name}: model says {ml[2]}", observed=repr(r[1])[:200], expected=model[li][:200])
            elif r[0] != "ok":
                MM(out, t, f"compute_{name}: implementation raised {r[1]}, model has values", observed=r[1], expected=model[li][:200])
            else:
                vals = np.atleast_1d(np.asarray(r[1]))
                if len(vals) != len(ml) - 1:
                    MM(out, t, f"compute_{name}: result length", observed=len(vals), expected=len(ml) - 1)
                else:
                    for i, tok in enumerate(ml[1:]):
                        a = [pr(x) for x in tok.split(":")]
                        e = ev_dist(a[0]) if name == "distance" else (ev_angle(*a) if name == "angle" else ev_dihedral(*a))
                        bad = (angdiff(vals[i] / fac, e) > TOL) if name == "dihedral" else not close(vals[i] / fac, e, TOL)
                        if bad:
                            MM(out, t, f"compute_{name} row {i}", observed=float(vals[i]), expected=e * fac)
                            break
    # distance_matrix
    a, b = arrs[0], arrs[1]
    r = call(u.distance_matrix, a, b)
    if r[0] != "ok" or np.shape(r[1]) != (len(a), len(b)):
        V(out, "oracle:distance_matrix", t, "distance_matrix failed / wrong shape", observed=repr(r[1])[:200])
        return
    dm = r[1]
    for i in range(len(a)):
        for j in range(len(b)):
            s = call(u.compute_distance, a[i], b[j])
            if s[0] != "ok" or not close(dm[i][j], s[1][0], TOL_FORMS * max(1.0, abs(s[1][0]))):
                V(out, "oracle:forms_agree_matrix", t, f"distance_matrix[{i}][{j}] != compute_distance(a[{i}], b[{j}])", observed=float(dm[i][j]), expected=repr(s[1]))
                return
    if len(a) == len(b):
        s = call(u.compute_distance, a, b)
        if s[0] != "ok" or not np.allclose(np.diag(dm), s[1], rtol=TOL_FORMS, atol=TOL_FORMS):
            V(out, "oracle:forms_agree_matrix", t, "diag(distance_matrix) != compute_distance", observed=repr(np.diag(dm)), expected=repr(s[1]))
    if model is not None:
        mrows = model[3][3:].split(";")
        okm = len(mrows) == len(a)
        if okm:
            for i, row in enumerate(mrows):
                ent = row.split()
                if len(ent) != len(b):
                    okm = False
                    break
                for j, x in enumerate(ent):
                    if not close(dm[i][j], ev_dist(pr(x)), TOL):
                        okm = False
        if not okm:
            MM(out, t, "distance_matrix vs model", observed=repr(dm)[:200], expected=model[3][:200])
    if rows_of(lists, 4) is not None and len(lists[0]) >= 2:
        out.nontrivial("b" + json.dumps(t["lists"]))
    out.sample({"task": "batch", "rows": shape, "model_BH": model[2][:120] if model else None}, limit=8)


def unhex_lists(ls):
    return [unhex(x) for x in ls]


# ---- measure ----------------------------------------------------------------------------


def measure_lines(t):
    P = fpts(unhex(t["coords"]))
    if t["single"]:
        spec = "S|" + ",".join(map(str, t["spec"]))
    elif len(t["spec"]) == 0:
        spec = "L|-"
    else:
        spec = "L|" + ";".join(",".join(map(str, m)) for m in t["spec"])
    return ["M|" + pts_s(P) + "|" + spec]


def ev_meas(tok):
    k, *a = tok.split(":")
    a = [pr(x) for x in a]
    return k, (ev_dist(*a) if k == "D" else ev_angle(*a) if k == "A" else ev_dihedral(*a))


def measure_check(t, model, out: Outcome):
    u = util()
    coords = np.array(unhex(t["coords"]), dtype=float)
    spec = t["spec"]
    deg = t["degrees"]
    fac = 180.0 / math.pi if deg else 1.0
    out.evaluations += 1
    r = call(u.measure_coordinates, coords, spec, degrees=deg)
    out.count("measure:" + ("single" if t["single"] else "list") + ":" + (r[0] if r[0] == "ok" else r[1]))
    valid = t["valid"]
    ms = [spec] if t["single"] else spec
    # --- oracle: index-based form == row-wise form on the picked points (valid specs only)
    if valid:
        if r[0] != "ok":
            V(out, "oracle:forms_agree_index", t, f"measure_coordinates raised {r[1]} on a valid specification", observed=r[1])
        else:
            got = [r[1]] if t["single"] else list(r[1])
            if t["single"] and isinstance(r[1], (list, tuple, np.ndarray)):
                V(out, "oracle:forms_agree_index", t, "single measurement did not return a bare value", observed=repr(r[1]))
            elif len(got) != len(ms):
                V(out, "oracle:forms_agree_index", t, "wrong number of values", observed=len(got), expected=len(ms))
            else:
                for v, m in zip(got, ms):
                    pts = [coords[i] for i in m]
                    if len(m) == 2:
                        e = u.compute_distance(*pts)[0]
                        ok = close(v, e, TOL_FORMS * max(1.0, abs(e)))
                    elif len(m) == 3:
                        e = u.compute_angle(*pts, degrees=deg)[0]
                        ok = close(v, e, TOL_FORMS * max(1.0, abs(e)))
                    else:
                        e = u.compute_dihedral(*pts, degrees=deg)[0]
                        ok = angdiff(v / fac, e / fac) <= TOL_FORMS
                    if not ok:
                        V(out, "oracle:forms_agree_index", t, f"measure_coordinates({m}) differs from the row-wise function on the picked points", observed=float(v), expected=float(e))
                        break
        # Molecule.measure wrapper (degrees defaults to True)
        if t.get("molecule"):
            from qcelemental.models import Molecule

            try:
                mol = Molecule(symbols=t["molecule"], geometry=coords.ravel(), nonphysical=True)
            except Exception as e:  # noqa
                mol = None
                out.count("measure:molecule_rejected")
            if mol is not None:
                out.count("measure:molecule")
                r1 = call(mol.measure, spec)
                r2 = call(mol.measure, spec, degrees=deg)
                e1 = call(u.measure_coordinates, mol.geometry, spec, degrees=True)
                e2 = call(u.measure_coordinates, mol.geometry, spec, degrees=deg)
                for ra, ea, what in ((r1, e1, "default degrees=True"), (r2, e2, f"degrees={deg}")):
                    same = ra[0] == ea[0] and (ra[0] != "ok" or np.allclose(np.atleast_1d(ra[1]), np.atleast_1d(ea[1]), rtol=0, atol=TOL_FORMS))
                    if not same:
                        V(out, "oracle:molecule_measure", t, f"Molecule.measure ({what}) != measure_coordinates(mol.geometry, …)", observed=repr(ra[1]), expected=repr(ea[1]))
    if valid and len(coords) >= 4:
        out.nontrivial("m" + json.dumps(t["coords"]) + json.dumps(spec))
    elif not valid:
        out.nontrivial("m!" + json.dumps(spec) + str(len(coords)))
    # --- correspondence
    if model is None:
        return
    ml = model[0].split()
    if ml[1] == "err":
        if not (r[0] == "err" and r[1] == ml[2]):
            MM(out, t, "measure_coordinates error class", observed=repr(r[1])[:120], expected=model[0])
        return
    if r[0] != "ok":
        MM(out, t, "measure_coordinates raised, model has values", observed=r[1], expected=model[0][:200])
        return
    got = [r[1]] if ml[1] == "one" else list(r[1]) if isinstance(r[1], list) else None
    if got is None or len(got) != len(ml) - 2 or (ml[1] == "one") != t["single"]:
        MM(out, t, "measure_coordinates result structure", observed=repr(r[1])[:120], expected=model[0][:200])
        return
    for v, tok in zip(got, ml[2:]):
        k, e = ev_meas(tok)
        if k == "D":
            bad = not close(v, e, TOL)
        elif k == "A":
            bad = not close(v / fac, e, TOL)
        else:
            bad = angdiff(v / fac, e) > TOL
        if bad:
            MM(out, t, f"measure_coordinates value for {tok[:40]}", observed=float(v), expected=e * (1.0 if k == "D" else fac))
            return
    out.sample({"task": "measure", "spec": spec, "impl": repr(r[1])[:100], "model": model[0][:100]}, limit=10)


# ---- connectivity -----------------------------------------------------------------------


def radius_of(sym: str) -> float:
    """covalent radius in bohr as the property defines the criterion (C17's data; 1.8 if unknown/unavailable)"""
    import qcelemental as qcel

    try:
        return float(qcel.covalentradii.get(sym, missing=1.8))
    except qcel.exceptions.NotAnElementError:
        return 1.8


def brute_bonds(radii, P, thr):
    """oracle: exact pairs i<j with d < (ri+rj)*thr, plus the smallest relative margin"""
    thr = F(thr)
    out = []
    for i in range(len(P)):
        for j in range(i + 1, len(P)):
            v = sub(P[i], P[j])
            c = (F(radii[i]) + F(radii[j])) * thr
            if c > 0 and dot(v, v) < c * c:
                out.append((i, j))
    return out


def conn_safe(radii, P, thr) -> bool:
    """no pair within MARGIN of its cutoff (exact test)"""
    thr = F(thr)
    m = Fr(MARGIN)
    for i in range(len(P)):
        for j in range(i + 1, len(P)):
            v = sub(P[i], P[j])
            d2 = dot(v, v)
            c = (F(radii[i]) + F(radii[j])) * thr
            lo, hi = c - 2 * m, c + 2 * m
            if (lo <= 0 or d2 >= lo * lo) and d2 <= hi * hi:
                return False
    return True


def conn_line(radii, P, thr, dc):
    return "C|{}|{}|{}".format(rs(F(thr)), "N" if dc is None else rs(F(dc)), ";".join(rs(F(r)) + ":" + pt_s(p) for r, p in zip(radii, P)))


def hexs(x: str) -> str:
    return x.encode("utf-8").hex()


_CONV = None


def conv_field() -> str:
    """unit factors towards bohr for every unit the implementation's covalent table carries, read from the implementation
    (constants.conversion_factor is pint / C03's territory: a parameter of the radius model), `HEXUNIT=p/q;…`"""
    global _CONV
    if _CONV is None:
        import qcelemental as qcel

        items = []
        for u in sorted({str(d.units) for d in qcel.covalentradii.cr.values()}):
            try:
                f = float(qcel.constants.conversion_factor(u, "bohr"))
            except Exception:  # noqa
                continue
            if math.isfinite(f):
                items.append(f"{hexs(u)}={rs(F(f))}")
        _CONV = ";".join(items) if items else "-"
    return _CONV


def rad_line(symbols) -> str:
    return "RAD|{}|{}".format(conv_field(), ";".join(hexs(x) for x in symbols))


def conn_sym_line(symbols, P, thr, dc) -> str:
    return "CS|{}|{}|{}|{}".format(rs(F(thr)), "N" if dc is None else rs(F(dc)), conv_field(), ";".join(hexs(x) + ":" + pt_s(p) for x, p in zip(symbols, P)))


def conn_lines2(t):
    """lines for the second driver (Driver/C18Radii.lean): radii from the regenerated tables"""
    syms = t["symbols"]
    P = fpts(unhex(t["geom"]))
    perm = t["perm"]
    inv = [perm.index(i) for i in range(len(perm))]
    return [rad_line(sorted(set(syms))), conn_sym_line(syms, P, t["thr"], t["dc"]),
            conn_sym_line([syms[inv[i]] for i in range(len(P))], [P[inv[i]] for i in range(len(P))], t["thr"], t["dc"])]


def radii_check(t, symbols, rad_out, out: Outcome):
    """every distinct symbol: the table radius (regenerated from the source, C17's model) == the implementation's, exactly"""
    toks = rad_out.split(" ")
    syms = sorted(set(symbols))
    if toks[0] != "RAD" or len(toks) - 1 != len(syms):
        MM(out, t, "radii from the regenerated tables: malformed answer", observed=rad_out[:200], expected=len(syms))
        return
    for x, tok in zip(syms, toks[1:]):
        have = F(radius_of(x))
        if tok == "E" or pr(tok) != have:
            MM(out, t, f"covalent radius of {x!r} in bohr: implementation (covalentradii.get(s, missing=1.8) / 1.8 on NotAnElementError) vs the table regenerated from the data files through the radius model",
               observed=float(have), expected=tok if tok == "E" else float(pr(tok)))
            return
    out.count("conn:radii_compared_with_table", len(syms))


def conn_lines(t):
    P = fpts(unhex(t["geom"]))
    radii = [radius_of(s) for s in t["symbols"]]
    Pe = apply_motion(t["motion"], P)
    Pr = fpts(to_floats(Pe))
    perm = t["perm"]  # new index of old atom k
    inv = [perm.index(i) for i in range(len(perm))]
    Pp = [P[inv[i]] for i in range(len(P))]
    rp = [radii[inv[i]] for i in range(len(P))]
    return [conn_line(radii, P, t["thr"], t["dc"]), conn_line(radii, Pe, t["thr"], t["dc"]), conn_line(radii, Pr, t["thr"], t["dc"]), conn_line(rp, Pp, t["thr"], t["dc"])]


def canon_conn(res, dc):
    toks = []
    for x in res:
        if len(x) == 2:
            toks.append(f"{int(x[0])}-{int(x[1])}")
        else:
            toks.append(f"{int(x[0])}-{int(x[1])}:{rs(F(x[2]))}")
    return ("C " + " ".join(toks)).strip()


def conn_check(t, model, out: Outcome, model2=None):
    import qcelemental as qcel

    gc = qcel.molutil.guess_connectivity
    syms = t["symbols"]
    Gf = unhex(t["geom"])
    P = fpts(Gf)
    n = len(syms)
    thr, dc = t["thr"], t["dc"]
    radii = [radius_of(s) for s in syms]
    out.evaluations += 1
    kw = {"threshold": thr}
    if dc is not None:
        kw["default_connectivity"] = dc
    if t.get("default_thr"):
        kw.pop("threshold")
    garr = np.array(Gf).ravel() if t.get("flat") else np.array(Gf)
    gkeep, skeep = garr.copy(), list(syms)
    r = call(gc, syms, garr, **kw)
    if r[0] != "ok":
        V(out, "oracle:connectivity_raises", t, f"guess_connectivity raised {r[1]}", observed=r[1])
        return
    # --- oracle: the caller's coordinates / symbols are what they were (a later measurement on them must still be of the supplied points)
    if garr.shape != gkeep.shape or not (garr == gkeep).all() or list(syms) != skeep:
        V(out, "oracle:argument_mutated", t, "guess_connectivity changed the geometry / symbols object it was given", observed=repr(garr.tolist())[:200], expected=repr(gkeep.tolist())[:200])
    # --- oracle: the radii of the criterion are the tabulated covalent radii (data file read by ast; 1.8 bohr where there is none)
    for x in sorted(set(syms)):
        if F(radius_of(x)) != F(table_radius(x)):
            V(out, "oracle:connectivity_radius", t, f"covalent radius of {x!r} in bohr: covalentradii.get(s, missing=1.8) differs from factor * float(tabulated decimal) of qcelemental/data/alvarez_2008_covalent_radii.py",
              observed=radius_of(x), expected=table_radius(x))
            break
    res = list(r[1])
    pairs = [(int(x[0]), int(x[1])) for x in res]
    exp = brute_bonds(radii, P, thr)
    out.count("conn:n=%d" % n)
    out.count("conn:bonds", len(exp))
    if t.get("style") == "probe":
        out.count("conn:probe")
        out.count("conn:probe:" + ",".join(t["sides"]))
    out.count("conn:thr=%s" % ("default" if t.get("default_thr") else (repr(thr) if thr in THRESHOLDS else "random")))
    # --- oracle: exactly the pairs i<j closer than the scaled radius sum
    if len(set(pairs)) != len(pairs) or set(pairs) != set(exp) or any(i >= j for i, j in pairs):
        miss = sorted(set(exp) - set(pairs))
        extra = sorted(set(pairs) - set(exp))
        V(out, "oracle:connectivity_exact", t, f"bond list is not exactly the pairs under the criterion: missing {miss[:5]}, extra {extra[:5]}", observed=pairs[:40], expected=exp[:40])
    if dc:
        if any(len(x) != 3 or x[2] != dc for x in res):
            V(out, "oracle:connectivity_default", t, "default_connectivity not attached to every pair", observed=repr(res)[:200])
    elif any(len(x) != 2 for x in res):
        V(out, "oracle:connectivity_default", t, "pairs expected", observed=repr(res)[:200])
    # --- oracle: rigid motion (proper or improper) leaves the list unchanged
    Pe = apply_motion(t["motion"], P)
    Prf = to_floats(Pe)
    r2 = call(gc, syms, np.array(Prf), **kw)
    if r2[0] != "ok" or [(int(x[0]), int(x[1])) for x in r2[1]] != pairs:
        V(out, "oracle:connectivity_invariance", t, "bond list changes under rigid motion", observed=repr(r2[1])[:200], expected=pairs[:40])
    # --- oracle: relabelling
    perm = t["perm"]
    inv = [perm.index(i) for i in range(n)]
    r3 = call(gc, [syms[inv[i]] for i in range(n)], np.array([Gf[inv[i]] for i in range(n)]), **kw)
    want = sorted((min(perm[i], perm[j]), max(perm[i], perm[j])) for i, j in pairs)
    if r3[0] != "ok" or sorted((int(x[0]), int(x[1])) for x in r3[1]) != want:
        V(out, "oracle:connectivity_relabel", t, "bond list does not relabel consistently under atom reordering", observed=repr(r3[1])[:200], expected=want[:40])
    if exp and len(exp) < n * (n - 1) // 2:
        out.nontrivial("c" + json.dumps(t["geom"]) + json.dumps(syms) + repr(thr))
    # --- correspondence (exact)
    if model is None:
        return
    ci = canon_conn(res, dc)
    if model[0] != ci:
        MM(out, t, "guess_connectivity vs model", observed=ci[:300], expected=model[0][:300])
    if model[1] != model[0] or model[2] != model[0]:
        MM(out, t, "executed model is not invariant under the (exact / rounded) rigid motion", observed=model[1][:200], expected=model[0][:200])
    if r3[0] == "ok" and model[3] != canon_conn(list(r3[1]), dc):
        MM(out, t, "guess_connectivity vs model on the relabelled molecule", observed=canon_conn(list(r3[1]), dc)[:300], expected=model[3][:300])
    out.sample({"task": "conn", "symbols": syms, "thr": thr, "impl": ci[:120], "model": model[0][:120]}, limit=12)
    # --- correspondence from symbols: radii from the tables regenerated from the source tree (second driver)
    if model2 is None:
        return
    radii_check(t, syms, model2[0], out)
    if model2[1] != ci:
        MM(out, t, "guess_connectivity vs the model evaluated from the symbols with the regenerated table radii", observed=ci[:300], expected=model2[1][:300])
    if r3[0] == "ok" and model2[2] != canon_conn(list(r3[1]), dc):
        MM(out, t, "guess_connectivity vs the model from symbols on the relabelled molecule", observed=canon_conn(list(r3[1]), dc)[:300], expected=model2[2][:300])



# ---- layout -----------------------------------------------------------------------------
# The measured values depend on the point VALUES only.  Every other stream hands the implementation freshly built, independent,
# C-contiguous arrays (or lists); here the same values arrive as views of ONE coordinate buffer: overlapping / identical /
# interleaved / reversed slices, the very same object passed twice, 1-d row views, Fortran-ordered / column-sliced / row-strided /
# negatively strided / read-only carriers, with copies and lists mixed in.  Oracle: textbook value of the resolved point values
# (exact rationals + one libm call) and agreement with the call on independent copies.

CARRIERS = ["C", "F", "wide", "tall", "neg", "colrev"]
JUNK = 777.25


def lay_base(pts, carrier, readonly):
    """(n,3) array holding pts, laid out in memory as `carrier` says (a view of a larger / differently ordered buffer)"""
    A = np.array(pts, dtype=float).reshape(-1, 3)
    n = len(A)
    if carrier == "C":
        W = A.copy()
        sl = (slice(None), slice(None))
    elif carrier == "F":
        W = np.asfortranarray(A)
        sl = (slice(None), slice(None))
    elif carrier == "wide":  # columns 1..3 of a 5-column table
        W = np.full((n, 5), JUNK)
        W[:, 1:4] = A
        sl = (slice(None), slice(1, 4))
    elif carrier == "tall":  # every other row of a longer table
        W = np.full((2 * n + 1, 3), JUNK)
        W[1::2] = A
        sl = (slice(1, None, 2), slice(None))
    elif carrier == "neg":  # stored backwards, seen through a negative row stride
        W = A[::-1].copy()
        sl = (slice(None, None, -1), slice(None))
    elif carrier == "colrev":  # stored as (z,y,x), seen through a negative column stride
        W = A[:, ::-1].copy()
        sl = (slice(None), slice(None, None, -1))
    else:
        raise ValueError(carrier)
    if readonly:
        W.flags.writeable = False
    base = W[sl]
    assert base.shape == (n, 3) and (base == A).all()
    return base


def lay_args(base, specs, readonly=False):
    built = []
    for sp in specs:
        k = sp[0]
        if k in ("v", "c", "l"):
            x = base[slice(sp[1], sp[2], sp[3])]
            if k == "c":
                x = np.array(x, dtype=float, order="C", copy=True)
            elif k == "l":
                x = x.tolist()
        elif k in ("r", "rc", "rl"):
            x = base[sp[1]]
            if k == "rc":
                x = x.copy()
            elif k == "rl":
                x = x.tolist()
        elif k == "same":
            x = built[sp[1]]
        elif k == "flat":  # 1-d strided view of the flattened coordinates
            W = np.full(2 * base.size, JUNK)
            W[::2] = np.array(base, dtype=float).ravel()
            if readonly:
                W.flags.writeable = False
            x = W[::2]
        else:
            raise ValueError(k)
        built.append(x)
    return built


def lay_vals(args):
    """the point values each argument denotes: list (per argument) of float triples"""
    return [np.array(x, dtype=float).reshape(-1, 3).tolist() for x in args]


def lay_row_ok(E, k):
    """row of k exact points inside the quantifier: pairwise >= 0.1 apart, planes well defined"""
    if any(dot(sub(E[i], E[j]), sub(E[i], E[j])) < Fr(1, 100) for i in range(k) for j in range(i)):
        return False
    return k < 3 or general_position(E[:k])


LAY_K = {"dist": 2, "angle": 3, "dihedral": 4}


def lay_resolve(t):
    base = lay_base(unhex(t["buf"]), t["carrier"], t["readonly"])
    args = lay_args(base, t["args"], t["readonly"])
    return base, args, lay_vals(args)


def lay_measurements(t):
    return [t["spec"]] if t["single"] else t["spec"]


def layout_inside(t) -> bool:
    """is the task inside the property's quantifier (used by the generator; no qcelemental needed)"""
    _, _, vals = lay_resolve(t)
    E = [fpts(v) for v in vals]
    fn = t["fn"]
    if fn == "dm":
        return len(E[0]) >= 1 and len(E[1]) >= 1 and any(p != q for p in E[0] for q in E[1])
    if fn in LAY_K:
        rows = rows_of(E, LAY_K[fn])
        return rows is not None and all(lay_row_ok(rw, LAY_K[fn]) for rw in rows)
    if fn == "measure":
        n = len(E[0])
        return all(len(set(m)) == len(m) and all(0 <= i < n for i in m) and lay_row_ok([E[0][i] for i in m], len(m)) for m in lay_measurements(t))
    return True


def layout_lines(t):
    _, _, vals = lay_resolve(t)
    E = [fpts(v) for v in vals]
    fn = t["fn"]
    if fn == "dm":
        return ["DM|" + pts_s(E[0]) + "|" + pts_s(E[1])]
    if fn in LAY_K:
        return [{"dist": "BD|", "angle": "BA|", "dihedral": "BH|"}[fn] + "|".join(pts_s(x) for x in E)]
    if fn == "measure":
        spec = "S|" + ",".join(map(str, t["spec"])) if t["single"] else "L|" + ";".join(",".join(map(str, m)) for m in t["spec"])
        return ["M|" + pts_s(E[0]) + "|" + spec]
    c = t["conn"]
    return [conn_line([radius_of(s) for s in c["symbols"]], E[0], c["thr"], c["dc"])]


def tb_rows(fn, rows):
    f = {"dist": tb_distance, "angle": tb_angle, "dihedral": tb_dihedral}[fn]
    return [f(*rw) for rw in rows]


def lay_differs(fn, got, exp, fac=1.0):
    if fn == "dihedral":
        return angdiff(got / fac, exp) > TOL
    return not close(got / fac, exp, TOL)


def layout_lines2(t):
    if t["fn"] != "conn":
        return []
    _, _, vals = lay_resolve(t)
    c = t["conn"]
    return [conn_sym_line(c["symbols"], fpts(vals[0]), c["thr"], c["dc"])]


def layout_check(t, model, out: Outcome, model2=None):
    u = util()
    fn = t["fn"]
    base, args, vals = lay_resolve(t)
    E = [fpts(v) for v in vals]
    indep = [np.array(v, dtype=float) if np.ndim(a) == 2 else np.array(v[0], dtype=float) for a, v in zip(args, vals)]  # fresh, independent, C-contiguous
    arrs = [a for a in args if isinstance(a, np.ndarray)]
    shares = any(x is y or np.shares_memory(x, y) for i, x in enumerate(arrs) for y in arrs[:i])
    out.evaluations += 1
    out.count(f"layout:{fn}:{t['mode']}")
    out.count("layout:carrier:" + t["carrier"] + (":readonly" if t["readonly"] else ""))
    if shares:
        out.count("layout:arguments_share_memory")
    if fn in ("dm",) + tuple(LAY_K) and len(arrs) >= 2 and shares and len({np.shape(a) for a in arrs}) == 1 and all(x is not y for i, x in enumerate(arrs) for y in arrs[:i]):
        out.count(f"layout:{fn}:distinct_equal_shape_overlapping_views")
    if shares or t["carrier"] != "C" or t["readonly"]:
        out.nontrivial("L" + json.dumps([t["buf"], t["carrier"], t["readonly"], fn, t["args"], t.get("spec")]))
    kind = "oracle:layout:" + fn
    how = f"(arguments: {t['args']} of one '{t['carrier']}'{' read-only' if t['readonly'] else ''} coordinate buffer)"
    deg = t.get("degrees", False)
    fac = 180.0 / math.pi if deg else 1.0
    mvals = None  # model's expected floats, aligned with `got`

    if fn == "dm":
        r = call(u.distance_matrix, *args)
        na, nb = len(E[0]), len(E[1])
        if r[0] != "ok" or np.shape(r[1]) != (na, nb):
            V(out, kind, t, f"distance_matrix failed / wrong shape {how}", observed=repr(r[1])[:200], expected=[na, nb])
            return
        dm = np.asarray(r[1], dtype=float)
        ref = call(u.distance_matrix, *indep)
        done = False
        for i in range(na):
            for j in range(nb):
                if E[0][i] == E[1][j]:
                    continue  # coincident points are outside the quantifier (the model comparison below still covers them)
                e = tb_distance(E[0][i], E[1][j])
                if not close(dm[i][j], e, TOL):
                    V(out, kind, t, f"distance_matrix[{i}][{j}] is not |a_{i} - b_{j}| {how}", observed=float(dm[i][j]), expected=e)
                    done = True
                elif ref[0] == "ok" and not close(dm[i][j], ref[1][i][j], TOL_FORMS):
                    V(out, kind, t, f"distance_matrix[{i}][{j}] differs from the same call on independent copies of the arguments {how}", observed=float(dm[i][j]), expected=float(ref[1][i][j]))
                    done = True
                if done:
                    break
            if done:
                break
        if not done and na == nb:
            s = call(u.compute_distance, *indep)
            for i in range(na):
                if E[0][i] != E[1][i] and (s[0] != "ok" or not close(dm[i][i], s[1][i], TOL_FORMS * max(1.0, abs(s[1][i])))):
                    V(out, kind, t, f"diag(distance_matrix)[{i}] != row-wise compute_distance of the same points {how}", observed=float(dm[i][i]), expected=repr(s[1])[:200])
                    break
        if model is not None:
            mrows = model[0][3:].split(";")
            okm = len(mrows) == na and all(len(row.split()) == nb for row in mrows)
            if okm:
                okm = all(close(dm[i][j], ev_dist(pr(x)), TOL) for i, row in enumerate(mrows) for j, x in enumerate(row.split()))
            if not okm:
                MM(out, t, f"distance_matrix vs model {how}", observed=repr(dm)[:200], expected=model[0][:200])
        out.sample({"task": "layout", "fn": fn, "mode": t["mode"], "carrier": t["carrier"], "args": t["args"], "shares_memory": shares}, limit=6)
        return

    if fn in LAY_K:
        k = LAY_K[fn]
        f = {"dist": u.compute_distance, "angle": u.compute_angle, "dihedral": u.compute_dihedral}[fn]
        kw = {} if fn == "dist" else {"degrees": deg}
        if fn == "dist":
            fac = 1.0
        rows = rows_of(E, k)
        r = call(f, *args, **kw)
        if r[0] != "ok" or np.shape(r[1]) != (len(rows),):
            V(out, kind, t, f"compute_{fn} failed / wrong shape {how}", observed=repr(r[1])[:200], expected=[len(rows)])
            return
        got = [float(x) for x in r[1]]
        exp = tb_rows(fn, rows)
        ref = call(f, *indep, **kw)
        for i, (g, e) in enumerate(zip(got, exp)):
            if lay_differs(fn, g, e, fac):
                V(out, kind, t, f"row {i} of compute_{fn} is not the textbook value of that row's points {how}", observed=g, expected=e * fac)
                break
            if ref[0] == "ok" and lay_differs(fn, g, float(ref[1][i]) / fac, fac):
                V(out, kind, t, f"row {i} of compute_{fn} differs from the same call on independent copies of the arguments {how}", observed=g, expected=float(ref[1][i]))
                break
        if model is not None:
            ml = model[0].split()
            if ml[1:2] == ["err"] or len(ml) - 1 != len(got):
                MM(out, t, f"compute_{fn}: model has {model[0][:80]} {how}", observed=got[:8], expected=model[0][:200])
            else:
                mvals = []
                for tok in ml[1:]:
                    a = [pr(x) for x in tok.split(":")]
                    mvals.append(ev_dist(a[0]) if fn == "dist" else (ev_angle(*a) if fn == "angle" else ev_dihedral(*a)))
                for i, (g, e) in enumerate(zip(got, mvals)):
                    if lay_differs(fn, g, e, fac):
                        MM(out, t, f"compute_{fn} row {i} vs model {how}", observed=g, expected=e * fac)
                        break
        out.sample({"task": "layout", "fn": fn, "mode": t["mode"], "carrier": t["carrier"], "args": t["args"], "shares_memory": shares}, limit=6)
        return

    if fn == "measure":
        ms = lay_measurements(t)
        r = call(u.measure_coordinates, args[0], t["spec"], degrees=deg)
        if r[0] != "ok":
            V(out, kind, t, f"measure_coordinates raised {r[1]} on a valid specification {how}", observed=r[1])
            return
        got = [r[1]] if t["single"] else list(r[1])
        if (t["single"] and isinstance(r[1], (list, tuple, np.ndarray))) or len(got) != len(ms):
            V(out, kind, t, f"measure_coordinates result structure {how}", observed=repr(r[1])[:200], expected=len(ms))
            return
        for v, m in zip(got, ms):
            pts = [E[0][i] for i in m]
            name = {2: "dist", 3: "angle", 4: "dihedral"}[len(m)]
            e = tb_rows(name, [pts])[0]
            if lay_differs(name, float(v), e, 1.0 if name == "dist" else fac):
                V(out, kind, t, f"measure_coordinates({m}) is not the textbook value of the picked points {how}", observed=float(v), expected=e * (1.0 if name == "dist" else fac))
                break
        if model is not None:
            ml = model[0].split()
            if ml[1] == "err" or len(ml) - 2 != len(got) or (ml[1] == "one") != t["single"]:
                MM(out, t, f"measure_coordinates structure vs model {how}", observed=repr(r[1])[:120], expected=model[0][:200])
            else:
                for v, tok in zip(got, ml[2:]):
                    kk, e = ev_meas(tok)
                    name = {"D": "dist", "A": "angle", "H": "dihedral"}[kk]
                    if lay_differs(name, float(v), e, 1.0 if kk == "D" else fac):
                        MM(out, t, f"measure_coordinates value for {tok[:40]} vs model {how}", observed=float(v), expected=e)
                        break
        return

    # conn
    import qcelemental as qcel

    c = t["conn"]
    kw = {"threshold": c["thr"]}
    if c["dc"] is not None:
        kw["default_connectivity"] = c["dc"]
    if c.get("default_thr"):
        kw.pop("threshold")
    r = call(qcel.molutil.guess_connectivity, c["symbols"], args[0], **kw)
    if r[0] != "ok":
        V(out, kind, t, f"guess_connectivity raised {r[1]} {how}", observed=r[1])
        return
    res = list(r[1])
    pairs = [(int(x[0]), int(x[1])) for x in res]
    exp = brute_bonds([radius_of(s) for s in c["symbols"]], E[0], c["thr"])
    if len(set(pairs)) != len(pairs) or set(pairs) != set(exp) or any(i >= j for i, j in pairs):
        V(out, kind, t, f"bond list is not exactly the pairs under the criterion {how}", observed=pairs[:40], expected=exp[:40])
    if model is not None and model[0] != canon_conn(res, c["dc"]):
        MM(out, t, f"guess_connectivity vs model {how}", observed=canon_conn(res, c["dc"])[:300], expected=model[0][:300])
    if model2 is not None and model2[0] != canon_conn(res, c["dc"]):
        MM(out, t, f"guess_connectivity vs the model from symbols with the regenerated table radii {how}", observed=canon_conn(res, c["dc"])[:300], expected=model2[0][:300])


# ---- call sequences ---------------------------------------------------------------------
# Every other stream asks each question of a process whose only earlier use of the library is the harness's own, uniform one
# (covalentradii.get(s, missing=1.8) from `radius_of`, guess_connectivity with fresh arrays).  The property quantifies over the
# *arguments* only: the answer may not depend on what the process did with the public API before.  A `seq` task is one sequence of
# 30-60 public calls executed in ONE FRESH interpreter (harness/c18_worker.py): look-ups on the radius / periodic tables with the
# caller's own `missing=` / `units=` / `return_tuple=` / spelling / atomic number, guess_connectivity with other options, objects
# returned earlier modified by the caller, argument objects overwritten in place and handed in again — interleaved with checked
# guess_connectivity / measurement calls whose expected value is computed here from the arguments alone: textbook formulas on exact
# rationals, and for the bond criterion the radii read from the data file by ast (never from the table object living in that process).

_COV = None
_TRAD = {}
_ROOT = None


def cov_rows():
    """label -> decimal text, and the unit, of qcelemental/data/alvarez_2008_covalent_radii.py (ast.literal_eval; later rows overwrite)"""
    global _COV
    if _COV is None:
        cov, _ = gen_radii.read_sets(common.REPO)
        _COV = ({r[0]: r[1] for r in cov["covalent_radii"]}, cov["units"])
    return _COV


def table_lookup(sym: str):
    """tabulated covalent radius of `sym` in bohr, None if there is none.  Independent of the covalentradii object: exact labels and
    element symbols straight from the data file ('If multiple defined for element, returns largest'), the element of a nuclide / oddly
    cased label from the periodic table (C01's territory, a parameter here), angstrom -> bohr factor from constants (C03's, a parameter)"""
    if sym in _TRAD:
        return _TRAD[sym]
    import qcelemental as qcel
    from decimal import Decimal

    rows, units = cov_rows()
    val = None
    if sym in rows:
        val = Decimal(rows[sym])
    else:
        try:
            el = qcel.periodictable.to_E(sym)
        except qcel.exceptions.NotAnElementError:
            el = None
        if el is not None:
            alts = [Decimal(v) for k, v in rows.items() if k == el or k.split("_")[0] == el]
            if alts:
                val = max(alts)
    res = None if val is None else float(qcel.constants.conversion_factor(units, "bohr")) * float(val)
    _TRAD[sym] = res
    return res


def table_radius(sym: str) -> float:
    r = table_lookup(sym)
    return 1.8 if r is None else r


def impl_root() -> str:
    global _ROOT
    if _ROOT is None:
        import qcelemental as qcel
        from pathlib import Path

        _ROOT = str(Path(qcel.__file__).resolve().parent.parent)
    return _ROOT


def run_worker(steps, timeout=300):
    """execute the steps in one fresh interpreter; returns the list of records or raises"""
    import subprocess
    from pathlib import Path

    p = subprocess.run([sys.executable, str(Path(__file__).resolve().with_name("c18_worker.py"))], input=json.dumps({"root": impl_root(), "steps": steps}),
                       capture_output=True, text=True, timeout=timeout, cwd="/tmp")
    if p.returncode != 0:
        raise RuntimeError(f"c18_worker exited {p.returncode}: {p.stderr[-1500:]}")
    res = json.loads(p.stdout)
    if len(res["steps"]) != len(steps):
        raise RuntimeError("c18_worker: record count")
    return res["steps"]


SEQ_KINDS = {"conn": "oracle:sequence:connectivity", "meas": "oracle:sequence:measure", "molm": "oracle:sequence:measure"}
MEAS_K = {"distance": 2, "angle": 3, "dihedral": 4}
_SEQ_RES = {}
_SEQ_SHRINKS = [0]


def seq_step_lines(st):
    if st["op"] == "conn":
        P = fpts(unhex(st["geom"]))
        return [conn_line([table_radius(x) for x in st["symbols"]], P, st["thr"], st["dc"])]
    if st["op"] == "meas":
        E = [fpts(unhex(a)) for a in st["args"]]
        fn = st["fn"]
        if fn == "dm":
            return ["DM|" + pts_s(E[0]) + "|" + pts_s(E[1])]
        if fn in MEAS_K:
            return [{"distance": "BD|", "angle": "BA|", "dihedral": "BH|"}[fn] + "|".join(pts_s(x) for x in E)]
        spec = "S|" + ",".join(map(str, st["spec"])) if st["single"] else "L|" + ";".join(",".join(map(str, m)) for m in st["spec"])
        return ["M|" + pts_s(E[0]) + "|" + spec]
    return []


def seq_lines(t):
    return [ln for st in t["steps"] for ln in seq_step_lines(st)]


def seq_symbols(t):
    return sorted({x for st in t["steps"] if st["op"] == "conn" for x in st["symbols"]})


def seq_lines2(t):
    L = [rad_line(seq_symbols(t))]
    for st in t["steps"]:
        if st["op"] == "conn":
            L.append(conn_sym_line(st["symbols"], fpts(unhex(st["geom"])), st["thr"], st["dc"]))
    return L


def seq_history(steps, upto):
    """compact, human-readable account of the calls made before step `upto`"""
    hs = []
    for st in steps[:upto]:
        if st["op"] in ("cr_get", "vdw_get"):
            hs.append("{}({!r}{})".format("covalentradii.get" if st["op"] == "cr_get" else "vdwradii.get", st["atom"], "".join(f", {k}={v!r}" for k, v in st.get("kw", {}).items())))
        elif st["op"] == "pt":
            hs.append(f"periodictable.{st['fn']}({st['atom']!r})")
        elif st["op"] == "conn":
            hs.append("guess_connectivity({}, …{}{}{})".format(st["symbols"], "" if st.get("default_thr") else f", threshold={st['thr']}", "" if st["dc"] is None else f", default_connectivity={st['dc']}",
                                                                 f" [objects of step {st['reuse']} reused]" if st.get("reuse") is not None else ""))
        elif st["op"] == "meas":
            hs.append(f"{st['fn']}(…{'' if st['fn'] in ('distance', 'dm') else ', degrees=' + str(st['degrees'])})" + (f" [objects of step {st['reuse']} reused]" if st.get("reuse") is not None else ""))
        else:
            hs.append(st["op"] + (f"(of step {st['of']})" if "of" in st else ""))
    return "; ".join(hs)[-900:]


def seq_expected_meas(st, before):
    """textbook values (radians) of a meas / molm step on the point values the call received, flat list + shape"""
    if st["op"] == "molm":
        E0 = fpts([[float.fromhex(c) for c in before[0][3 * i: 3 * i + 3]] for i in range(len(before[0]) // 3)])
        ms = [st["spec"]] if st["single"] else st["spec"]
        vals, names = [], []
        for m in ms:
            name = {2: "distance", 3: "angle", 4: "dihedral"}[len(m)]
            vals.append({"distance": tb_distance, "angle": tb_angle, "dihedral": tb_dihedral}[name](*[E0[i] for i in m]))
            names.append(name)
        return vals, names, ([] if st["single"] else [len(ms)])
    E = [fpts(unhex(a)) for a in st["args"]]
    fn = st["fn"]
    if fn == "dm":
        return [tb_distance(p, q) for p in E[0] for q in E[1]], ["distance"] * (len(E[0]) * len(E[1])), [len(E[0]), len(E[1])]
    if fn in MEAS_K:
        rows = rows_of(E, MEAS_K[fn])
        f = {"distance": tb_distance, "angle": tb_angle, "dihedral": tb_dihedral}[fn]
        return [f(*rw) for rw in rows], [fn] * len(rows), [len(rows)]
    ms = [st["spec"]] if st["single"] else st["spec"]
    vals, names = [], []
    for m in ms:
        name = {2: "distance", 3: "angle", 4: "dihedral"}[len(m)]
        vals.append({"distance": tb_distance, "angle": tb_angle, "dihedral": tb_dihedral}[name](*[E[0][i] for i in m]))
        names.append(name)
    return vals, names, ([] if st["single"] else [len(ms)])


def seq_judge(t, recs, out: Outcome, model=None, model2=None, report=None):
    """evaluate the worker's records of one sequence.  `report(kind, idx, detail, observed, expected)` receives oracle findings."""
    steps = t["steps"]
    li = 0  # cursor in the first driver's answers
    l2 = 1  # cursor in the second driver's answers (0 is the RAD line)
    if model2 is not None:
        toks = model2[0].split(" ")
        syms = seq_symbols(t)
        if toks[0] != "RAD" or len(toks) - 1 != len(syms) or any(tok == "E" or pr(tok) != F(table_radius(x)) for x, tok in zip(syms, toks[1:])):
            MM(out, t, "sequence: the oracle's radii (data file by ast) vs the radius model on the regenerated tables", observed=[table_radius(x) for x in syms][:20], expected=model2[0][:300])
    for idx, (st, rec) in enumerate(zip(steps, recs)):
        op = st["op"]
        nl = len(seq_step_lines(st)) if model is not None else 0
        ml = model[li: li + nl] if model is not None else None
        li += nl
        ml2 = None
        if op == "conn" and model2 is not None:
            ml2 = model2[l2]
            l2 += 1
        if rec.get("changed_earlier"):
            k = rec["changed_earlier"][0]
            src = next((x for x in steps[:idx] if x.get("id") == k), {})
            report("oracle:sequence:result_changed", idx, f"the {'bond list' if src.get('op') == 'conn' else 'array'} returned to the caller by step id {k} ({src.get('op')} {src.get('fn', '')}) "
                   f"no longer holds the values it was returned with after step {idx} ({op}{' of step ' + str(st['of']) if 'of' in st else ''}), which is not an edit of that object by the caller; history: {seq_history(steps, idx)}", rec["changed_earlier"], [])
        if rec.get("watch_error"):
            out.count("seq:watch_error")
        if op not in SEQ_KINDS:
            out.count("seq:step:" + op + ":" + str(rec.get("st")))
            continue
        kind = SEQ_KINDS[op]
        hist = seq_history(steps, idx)
        if rec.get("st") == "skip":
            out.count("seq:skipped:" + str(rec.get("res"))[:30])
            continue
        if op == "conn":
            declared = {"syms": list(st["symbols"]), "geom": [c for p in st["geom"] for c in p]}
            if rec["before"] != declared:
                out.count("seq:stale_reference")  # only after steps were removed by shrinking (or after an already reported mutation)
                continue
            out.count("seq:conn_checked")
            if rec.get("reused"):
                out.count("seq:conn_checked:objects_reused")
            if rec["st"] != "ok":
                report("oracle:sequence:raises", idx, f"guess_connectivity raised {rec['res']} after: {hist}", rec["res"], None)
                continue
            if rec["after"] != declared:
                report("oracle:sequence:argument_mutated", idx, f"guess_connectivity changed the symbols / geometry object it was given (step {idx})", rec["after"], declared)
            P = fpts(unhex(st["geom"]))
            exp = brute_bonds([table_radius(x) for x in st["symbols"]], P, st["thr"])
            pairs = [(x[0], x[1]) for x in rec["res"]]
            out.count("seq:conn_bonds", len(exp))
            if len(set(pairs)) != len(pairs) or set(pairs) != set(exp) or any(i >= j for i, j in pairs) or not rec.get("res_is_list"):
                report(kind, idx, f"step {idx}: guess_connectivity({st['symbols']}, …, threshold={st['thr']}) is not exactly the pairs closer than threshold*(Ri+Rj) "
                       f"(missing {sorted(set(exp) - set(pairs))[:5]}, extra {sorted(set(pairs) - set(exp))[:5]}) after this history in the same process: {hist}", pairs[:40], exp[:40])
            elif (st["dc"] and any(len(x) != 3 or float.fromhex(x[2]) != st["dc"] for x in rec["res"])) or (not st["dc"] and any(len(x) != 2 for x in rec["res"])):
                report(kind, idx, f"step {idx}: default_connectivity={st['dc']} not reflected in the result after: {hist}", repr(rec["res"])[:200], st["dc"])
            ci = ("C " + " ".join(f"{x[0]}-{x[1]}" + (":" + rs(F(float.fromhex(x[2]))) if len(x) == 3 else "") for x in rec["res"])).strip()
            if ml is not None and ml[0] != ci:
                MM(out, t, f"sequence step {idx}: guess_connectivity vs model", observed=ci[:300], expected=ml[0][:300])
            if ml2 is not None and ml2 != ci:
                MM(out, t, f"sequence step {idx}: guess_connectivity vs the model from symbols with the regenerated table radii", observed=ci[:300], expected=ml2[:300])
            continue
        # measurements
        if op == "meas":
            declared = [[c for p in a for c in p] for a in st["args"]]
            if rec["before"] != declared:
                out.count("seq:stale_reference")
                continue
        out.count("seq:meas_checked:" + (st["fn"] if op == "meas" else "Molecule.measure"))
        if rec.get("reused"):
            out.count("seq:meas_checked:objects_reused")
        if rec["st"] != "ok":
            report("oracle:sequence:raises", idx, f"{st.get('fn', 'Molecule.measure')} raised {rec['res']} after: {hist}", rec["res"], None)
            continue
        if rec["after"] != rec["before"]:
            report("oracle:sequence:argument_mutated", idx, f"{st.get('fn', 'Molecule.measure')} changed the coordinate object it was given (step {idx})", repr(rec["after"])[:200], repr(rec["before"])[:200])
        exp, names, shape = seq_expected_meas(st, rec["before"])
        deg = st.get("degrees", False) if op == "meas" else (True if st.get("degrees") is None else st["degrees"])
        got = [float.fromhex(x) for x in rec["res"]]
        what = st.get("fn", "Molecule.measure")
        if rec["shape"] != shape or len(got) != len(exp):
            report(kind, idx, f"step {idx}: {what} returned shape {rec['shape']}, expected {shape}, after: {hist}", rec["shape"], shape)
            continue
        for j, (g, e, name) in enumerate(zip(got, exp, names)):
            fac = 180.0 / math.pi if (deg and name != "distance") else 1.0
            bad = (not math.isfinite(g)) or ((angdiff(g / fac, e) > TOL) if name == "dihedral" else not close(g / fac, e, TOL))
            if bad:
                report(kind, idx, f"step {idx}: value {j} of {what}(degrees={deg}) is not the textbook {name} of the supplied points after this history in the same process: {hist}", g, e * fac)
                break
        if ml is not None and ml and op == "meas":
            toks = ml[0].split()
            fn = st["fn"]
            mv = None
            if fn == "dm":
                rowsm = ml[0][3:].split(";")
                if len(rowsm) == shape[0] and all(len(r_.split()) == shape[1] for r_ in rowsm):
                    mv = [ev_dist(pr(x)) for r_ in rowsm for x in r_.split()]
            elif fn in MEAS_K:
                if toks[1:2] != ["err"] and len(toks) - 1 == len(got):
                    mv = []
                    for tok in toks[1:]:
                        a = [pr(x) for x in tok.split(":")]
                        mv.append(ev_dist(a[0]) if fn == "distance" else (ev_angle(*a) if fn == "angle" else ev_dihedral(*a)))
            elif toks[1] != "err" and len(toks) - 2 == len(got) and (toks[1] == "one") == st["single"]:
                mv = [ev_meas(tok)[1] for tok in toks[2:]]
            if mv is None:
                MM(out, t, f"sequence step {idx}: {fn} structure vs model", observed=rec["shape"], expected=ml[0][:200])
            else:
                for g, e, name in zip(got, mv, names):
                    fac = 180.0 / math.pi if (deg and name != "distance") else 1.0
                    if (angdiff(g / fac, e) > TOL) if name == "dihedral" else not close(g / fac, e, TOL):
                        MM(out, t, f"sequence step {idx}: {fn} vs model", observed=g, expected=e * fac)
                        break


def seq_first_failure(t, recs):
    """(kind, step index) of the first oracle finding of a sequence, or None — oracle only, no model"""
    found = []
    seq_judge(t, recs, Outcome(), report=lambda kind, idx, detail, obs, exp: found.append((kind, idx)))
    return min(found, key=lambda x: x[1]) if found else None


def seq_check(t, model, out: Outcome, model2=None):
    out.evaluations += 1
    recs = _SEQ_RES.pop(id(t), None)
    if recs is None:
        try:
            recs = run_worker(t["steps"])
        except Exception as e:  # noqa
            recs = e
    if isinstance(recs, Exception):
        out.mismatches.append(Finding("mismatch", {"task": t}, observed=str(recs)[:500], detail="sequence worker failed (harness fault or the library cannot be imported in a fresh interpreter)"))
        return
    found = []
    seq_judge(t, recs, out, model, model2, report=lambda kind, idx, detail, obs, exp: found.append((kind, idx, detail, obs, exp)))
    out.count("seq:sequences")
    out.count("seq:steps", len(t["steps"]))
    out.nontrivial("q" + json.dumps(t["steps"])[:4000])
    if not found:
        out.sample({"task": "seq", "steps": len(t["steps"]), "first": seq_history(t["steps"], 6)}, limit=4)
        return
    found.sort(key=lambda x: x[1])
    kind, idx, detail, obs, exp = found[0]
    # the reported case: the sequence up to the failing call (the process is deterministic, the rest cannot matter), then ddmin over the history
    small = {"kind": "seq", "shrunk": True, "steps": t["steps"][: idx + 1]}
    if not t.get("shrunk") and _SEQ_SHRINKS[0] < 2 and idx >= 1:
        _SEQ_SHRINKS[0] += 1
        last = small["steps"][-1]

        def still(prefix):
            cand = {"kind": "seq", "steps": prefix + [last]}
            try:
                ff = seq_first_failure(cand, run_worker(cand["steps"]))
            except Exception:  # noqa
                return False
            return ff is not None and ff[0] == kind and ff[1] == len(prefix)

        try:
            if still([]):
                small["steps"] = [last]
            else:
                small["steps"] = common.shrink_list(small["steps"][:-1], still, max_steps=28) + [last]
        except Exception:  # noqa
            pass
        ids = {st.get("id") for st in small["steps"]}
        small["steps"] = [{k: v for k, v in st.items() if not (k == "reuse" and v not in ids)} for st in small["steps"]]  # objects of removed steps: built afresh anyway
        # re-derive the message for the shrunk sequence
        try:
            f2 = []
            seq_judge(small, run_worker(small["steps"]), Outcome(), report=lambda k, i, d, o, e: f2.append((k, i, d, o, e)))
            f2 = [x for x in f2 if x[0] == kind]
            if f2:
                _, _, detail, obs, exp = f2[-1]
        except Exception:  # noqa
            pass
    out.violations.append(Finding(kind, {"task": small}, observed=obs, expected=exp, detail=detail))
    for k2, i2, d2, o2, e2 in found[1:4]:
        if k2 != kind:
            out.violations.append(Finding(k2, {"task": {"kind": "seq", "shrunk": True, "steps": t["steps"][: i2 + 1]}}, observed=o2, expected=e2, detail=d2))


TASKS = {
    "layout": (layout_lines, layout_check),
    "geom": (geom_lines, geom_check),
    "batch": (batch_lines, batch_check),
    "measure": (measure_lines, measure_check),
    "conn": (conn_lines, conn_check),
    "seq": (seq_lines, seq_check),
}
# lines for the second driver (radii from the regenerated tables); only tasks that call guess_connectivity have any
TASKS2 = {"conn": conn_lines2, "layout": layout_lines2, "seq": seq_lines2}

# --------------------------------------------------------------------------------------
# generators

STYLES = ["uniform", "decimal", "lattice", "cluster", "chain", "dyadic"]


def gen_point(rng, style, centre=None):
    if style == "uniform":
        return [rng.uniform(-10, 10) for _ in range(3)]
    if style == "decimal":
        k = rng.choice([1, 2, 3, 6])
        return [round(rng.uniform(-10, 10), k) for _ in range(3)]
    if style == "lattice":
        return [float(rng.randint(-4, 4)) * rng.choice([0.5, 1.0, 1.0, 2.0]) for _ in range(3)]
    if style == "dyadic":
        return [rng.randint(-10 * 64, 10 * 64) / 64.0 for _ in range(3)]
    if style == "cluster":
        c = centre
        s = rng.choice([0.3, 1.0, 2.5])
        return [min(10.0, max(-10.0, c[i] + rng.gauss(0, s))) for i in range(3)]
    raise ValueError(style)


def gen_points(rng, style, k):
    """k points in [-10,10]^3, pairwise distance >= 0.1"""
    while True:
        if style == "chain":
            # bonded chain with molecule-like bond lengths and angles
            p = [[rng.uniform(-5, 5) for _ in range(3)]]
            while len(p) < k:
                d = [rng.gauss(0, 1) for _ in range(3)]
                nrm = math.sqrt(sum(x * x for x in d)) or 1.0
                L = rng.uniform(1.5, 3.5)
                q = [p[-1][i] + L * d[i] / nrm for i in range(3)]
                if all(abs(x) <= 10 for x in q):
                    p.append(q)
            pts = p
        else:
            centre = [rng.uniform(-7, 7) for _ in range(3)]
            pts = [gen_point(rng, style, centre) for _ in range(k)]
        E = fpts(pts)
        if all(dot(sub(E[i], E[j]), sub(E[i], E[j])) >= Fr(1, 100) for i in range(k) for j in range(i)):
            return pts


def general_position(E) -> bool:
    """every consecutive triple has sin^2 >= 1e-4 (planes of angle / dihedral are well defined)"""
    for i in range(len(E) - 2):
        if sin2(sub(E[i], E[i + 1]), sub(E[i + 2], E[i + 1])) < Fr(1, 10000):
            return False
    return True


def gen_motion(rng, improper=None):
    while True:
        q = [rng.randint(-6, 6) for _ in range(4)]
        if any(q):
            break
    if improper is None:
        improper = rng.random() < 0.4
    h = None
    if improper:
        while True:
            h = [rng.randint(-5, 5) for _ in range(3)]
            if any(h):
                break
    den = rng.choice([1, 2, 8, 10, 3])
    t = [rs(Fr(rng.randint(-10 * den, 10 * den), den)) for _ in range(3)]
    if rng.random() < 0.1:
        q = rng.choice([[1, 0, 0, 0], [0, 1, 0, 0], [1, 1, 0, 0], [1, 1, 1, 1]])
    return {"q": q, "h": h, "t": t}


def shrink_points(rng, pts):
    """The same shape at a small scale somewhere in the box: every point moved towards the first one by a factor 2^-k
    (k = 10, 17, 24: arm lengths of about 1e-3, 1e-5, 1e-7), or only ONE arm made tiny beside ordinary ones.  Still
    non-degenerate (no coincident points; angles are those of the unscaled shape), still inside [-10,10]^3."""
    s = 2.0 ** -rng.choice([10, 17, 24])
    c = pts[0]
    if rng.random() < 0.7:
        return [list(c)] + [[c[i] + s * (p[i] - c[i]) for i in range(3)] for p in pts[1:]], f"tiny(2^{int(math.log2(s))})"
    return [list(c), [c[i] + s * (pts[1][i] - c[i]) for i in range(3)]] + [list(p) for p in pts[2:]], f"one-tiny-arm(2^{int(math.log2(s))})"


def gen_geom(rng):
    style = rng.choice(STYLES)
    while True:
        pts = gen_points(rng, style, 4)
        if rng.random() < 0.15:
            pts, sub_style = shrink_points(rng, pts)
            style = style + ":" + sub_style
        if general_position(fpts(pts)):
            break
        style = style.split(":")[0]
    return {"kind": "geom", "style": style, "pts": hexpts(pts), "motion": gen_motion(rng), "degrees": rng.random() < 0.5}


def gen_collinear(rng):
    while True:
        p2 = [float(rng.randint(-5, 5)) for _ in range(3)]
        d = [float(rng.randint(-2, 2)) for _ in range(3)]
        if not any(d):
            continue
        a, b = rng.choice([1, 2]), rng.choice([-2, -1, 1, 2])
        p1 = [p2[i] + a * d[i] for i in range(3)]
        p3 = [p2[i] + b * d[i] for i in range(3)]
        if p1 == p3:
            continue
        p4 = gen_point(rng, "lattice")
        if p4 in (p1, p2, p3):
            continue
        if all(abs(x) <= 10 for x in p1 + p3):
            break
    # motions restricted to exact ones on the lattice (signed permutations), so collinearity stays exact
    mo = {"q": rng.choice([[1, 0, 0, 0], [1, 1, 0, 0], [1, 1, 1, 1], [0, 1, 0, 0]]), "h": rng.choice([None, [1, 0, 0], [1, -1, 0]]), "t": [str(rng.randint(-3, 3)) for _ in range(3)]}
    return {"kind": "geom", "style": "collinear", "collinear": True, "pts": hexpts([p1, p2, p3, p4]), "motion": mo, "degrees": rng.random() < 0.5}


def gen_batch(rng):
    n = rng.choice([1, 2, 2, 3, 3, 4, 5, 6])
    mode = rng.random()
    lens = [n] * 4
    if mode < 0.25 and n > 1:
        for i in range(4):
            if rng.random() < 0.4:
                lens[i] = 1
    elif mode < 0.35 and n > 1:
        i = rng.randrange(4)
        lens[i] = rng.choice([x for x in (2, 3, 4, 5) if x != n])
    style = rng.choice(STYLES)
    tiny_rows = lens == [n] * 4 and rng.random() < 0.15  # some rows at a small scale (only without broadcasting: rows stay the generated shapes)
    while True:
        rows = []
        for _ in range(max(lens)):
            while True:
                pts = gen_points(rng, style, 4)
                if tiny_rows and rng.random() < 0.5:
                    pts = shrink_points(rng, pts)[0]
                if general_position(fpts(pts)):
                    rows.append(pts)
                    break
        lists = [[rows[i][c] for i in range(lens[c])] for c in range(4)]
        # every broadcast row must itself be non-degenerate
        ok = True
        rws = rows_of(lists, 4)
        if rws is not None:
            for rw in rws:
                E = fpts(rw)
                if not general_position(E) or any(dot(sub(E[i], E[j]), sub(E[i], E[j])) < (Fr(1, 10**20) if tiny_rows else Fr(1, 100)) for i in range(4) for j in range(i)):
                    ok = False
        else:
            for k in (2, 3):
                r2 = rows_of(lists, k)
                if r2 is not None:
                    for rw in r2:
                        E = fpts(rw)
                        if not general_position(E) or any(dot(sub(E[i], E[j]), sub(E[i], E[j])) < Fr(1, 100) for i in range(k) for j in range(i)):
                            ok = False
        if ok:
            break
    return {"kind": "batch", "lists": [hexpts(x) for x in lists], "degrees": rng.random() < 0.5}


ELEMENTS = None


def elements():
    global ELEMENTS
    if ELEMENTS is None:
        import qcelemental as qcel

        els = []
        for z in range(1, 118):
            try:
                els.append(qcel.periodictable.to_E(z))
            except Exception:
                break
        ELEMENTS = els
    return ELEMENTS


def gen_measure(rng):
    n = rng.choice([1, 2, 3, 4, 4, 5, 6, 8])
    style = rng.choice(STYLES)
    while True:
        pts = gen_points(rng, style, n)
        E = fpts(pts)
        # every triple in general position so that any index selection without repeats is measurable
        if all(sin2(sub(E[i], E[j]), sub(E[k], E[j])) >= Fr(1, 10000) for i in range(n) for j in range(n) for k in range(n) if len({i, j, k}) == 3):
            break
    mode = rng.random()
    valid = True

    def one_valid():
        ks = [k for k in (2, 3, 4) if k <= n]
        if not ks:
            return None
        k = rng.choice(ks)
        return rng.sample(range(n), k)

    if mode < 0.6 and n >= 2:
        single = rng.random() < 0.4
        spec = one_valid() if single else [one_valid() for _ in range(rng.randint(1, 5))]
    elif mode < 0.7 and n >= 2:
        # negative (wrap-around) indices, which the function accepts as Python indexing does: index -k addresses atom n-k, and the
        # index-based form must agree with the row-wise functions on THOSE atoms
        single = False
        spec = []
        for _ in range(rng.randint(1, 3)):
            m = one_valid()
            m = [i - n if rng.random() < 0.5 else i for i in m]
            spec.append(m)
        valid = True
    else:
        valid = False
        single = rng.random() < 0.3
        kind = rng.choice(["oob", "arity", "empty", "oob+arity", "below", "late", "emptym"])
        good = one_valid() or [0, 0]
        if kind == "oob":
            m = list(good)
            m[rng.randrange(len(m))] = n + rng.randint(0, 2)
        elif kind == "arity":
            m = [rng.randrange(n) for _ in range(rng.choice([1, 5, 6]))]
        elif kind == "oob+arity":
            m = [rng.randrange(n) for _ in range(rng.choice([1, 5]))] + [n]
        elif kind == "below":
            m = list(good)
            m[rng.randrange(len(m))] = -n - rng.randint(1, 2)
            if rng.random() < 0.3:
                m = m + [0, 0, 0]
        elif kind == "emptym":
            m = []
        else:
            m = list(good)
        if kind == "empty":
            single, spec = False, []
        elif kind == "late":
            single = False
            bad = rng.choice([[n, 0], [0], [0, 0, 0, 0, 0], [0, -n - 1]])
            spec = [list(good), bad, [n + 1, 0, 0]]
        elif single:
            if not m:
                single, spec = False, [[]]
            else:
                spec = m
        else:
            spec = [list(good), m] if rng.random() < 0.5 else [m]
    t = {"kind": "measure", "coords": hexpts(pts), "single": single, "spec": spec, "valid": valid, "degrees": rng.random() < 0.5}
    if valid and rng.random() < 0.5:
        t["molecule"] = [rng.choice(elements()[:36]) for _ in range(n)]
    return t


THRESHOLDS = [0.8, 1.0, 1.1, 1.2, 1.2, 1.3, 1.5, 2.0, 0.5, 0.0, 0, 0.001, 1, 2]  # incl. zero (no pair is closer than 0), a tiny scale, and int spellings


def gen_conn(rng):
    els = elements()
    while True:
        n = rng.choice([1, 2, 3, 4, 5, 6, 8, 10, 12, 15])
        pool = rng.choice(["organic", "organic", "light", "all", "odd"])
        if pool == "organic":
            syms = [rng.choice(["H", "H", "H", "C", "C", "N", "O", "S", "Cl"]) for _ in range(n)]
        elif pool == "light":
            syms = [rng.choice(els[:36]) for _ in range(n)]
        elif pool == "all":
            syms = [rng.choice(els) for _ in range(n)]
        else:
            syms = [rng.choice(["H", "C", "X", "Xx", "Lr", "Cf", "h", "D", "He4", "Og", "c"]) for _ in range(n)]
        thr = rng.choice(THRESHOLDS) if rng.random() < 0.8 else round(rng.uniform(0.3, 2.5), rng.choice([2, 6]))
        default_thr = rng.random() < 0.15
        if default_thr:
            thr = 1.2
        # grow a cluster with neighbour distances around typical bonding distances so that both outcomes occur
        pts = [[rng.uniform(-4, 4) for _ in range(3)]]
        tries = 0
        while len(pts) < n and tries < 2000:
            tries += 1
            base = rng.choice(pts)
            d = [rng.gauss(0, 1) for _ in range(3)]
            nrm = math.sqrt(sum(x * x for x in d)) or 1.0
            L = rng.uniform(0.8, 4.5) * rng.choice([1.0, 1.0, 1.6])
            q = [base[i] + L * d[i] / nrm for i in range(3)]
            if rng.random() < 0.3:
                q = [round(x, rng.choice([1, 2, 3])) for x in q]
            if all(abs(x) <= 10 for x in q) and all(sum((q[i] - p[i]) ** 2 for i in range(3)) >= 0.25 for p in pts):
                pts.append(q)
        if len(pts) < n:
            continue
        if n >= 2 and rng.random() < 0.08:
            # two centres on exactly the same point (a dummy / ghost centre placed on an atom): distance 0 is below every positive
            # cutoff, so the rule lists the pair; rigid motion keeps them coincident (same arithmetic on equal inputs)
            i_, j_ = rng.sample(range(n), 2)
            pts[j_] = list(pts[i_])
        radii = [radius_of(s) for s in syms]
        mo = gen_motion(rng)
        P = fpts(pts)
        if not conn_safe(radii, P, thr):
            continue
        if not conn_safe(radii, fpts(to_floats(apply_motion(mo, P))), thr):
            continue
        perm = list(range(n))
        rng.shuffle(perm)
        dc = rng.choice([None, None, None, 1.0, 1.5, 0.0, 2])
        return {"kind": "conn", "symbols": syms, "geom": hexpts(pts), "thr": thr, "default_thr": default_thr, "dc": dc, "motion": mo, "perm": perm, "flat": rng.random() < 0.3}


LAYOUT_DM_MODES = ["overlap", "overlap", "overlap", "overlap_strided", "overlap_unequal", "same_object", "same_view", "disjoint", "interleaved", "reversed", "overlap_copy", "independent"]
LAYOUT_ROW_MODES = ["windows", "windows", "windows", "windows_reversed", "interleaved", "row_views", "broadcast", "windows_mixed", "independent"]


def _win(s, m, step=1):
    """slice spec for rows s, s+step, … (m rows); negative step walks down from s"""
    stop = s + m * step
    return [s, None if stop < 0 else stop, step]


def gen_layout_args(rng, fn, n):
    """argument view specs into an n-row buffer; returns (mode, specs) or None if n is too small for the mode drawn"""
    if fn == "dm":
        mode = rng.choice(LAYOUT_DM_MODES)
        if mode in ("overlap", "overlap_copy", "independent"):
            m = rng.randint(2, n - 1)
            k = rng.randint(1, min(m - 1, n - m))
            s = rng.randint(0, n - m - k)
            kb = "v" if mode == "overlap" else "c"
            return mode, [["c" if mode == "independent" else "v"] + _win(s, m), [kb] + _win(s + k, m)]
        if mode == "overlap_strided":
            if (n - 1) // 2 < 2:
                return None
            m = rng.randint(2, (n - 1) // 2)
            k = rng.randint(1, m - 1)
            if 2 * (m - 1 + k) > n - 1:
                return None
            return mode, [["v"] + _win(0, m, 2), ["v"] + _win(2 * k, m, 2)]
        if mode == "overlap_unequal":
            s1, s2 = rng.randint(0, n - 3), rng.randint(0, n - 3)
            m1, m2 = rng.randint(2, n - s1), rng.randint(2, n - s2)
            if m1 == m2 or max(s1, s2) >= min(s1 + m1, s2 + m2):
                return None
            return mode, [["v"] + _win(s1, m1), ["v"] + _win(s2, m2)]
        if mode in ("same_object", "same_view"):
            m = rng.randint(2, n)
            s = rng.randint(0, n - m)
            return mode, [["v"] + _win(s, m), ["same", 0] if mode == "same_object" else ["v"] + _win(s, m)]
        if mode == "disjoint":
            h = rng.randint(1, n - 1)
            return mode, [["v", 0, h, 1], ["v", h, n, 1]]
        if mode == "interleaved":
            return mode, [["v", 0, None, 2], ["v", 1, None, 2]]
        if mode == "reversed":
            m = rng.randint(2, n)
            s = rng.randint(0, n - m)
            return mode, [["v"] + _win(s, m), ["v"] + _win(s + m - 1, m, -1)]
        raise ValueError(mode)
    k = LAY_K[fn]
    mode = rng.choice(LAYOUT_ROW_MODES)
    if mode in ("windows", "windows_reversed", "windows_mixed", "broadcast", "independent"):
        d = rng.choice([1, 1, 1, 2, 3])
        if n - (k - 1) * d < 1:
            return None
        m = rng.randint(1, n - (k - 1) * d)
        s = rng.randint(0, n - (k - 1) * d - m)
        if mode == "windows_reversed":
            specs = [["v"] + _win(s + j * d + m - 1, m, -1) for j in range(k)]
        else:
            specs = [["c" if mode == "independent" else "v"] + _win(s + j * d, m) for j in range(k)]
        if rng.random() < 0.3:
            specs.reverse()
        if mode == "windows_mixed":
            for j in rng.sample(range(k), rng.randint(1, k - 1)):
                specs[j][0] = rng.choice(["c", "l"])
        if mode == "broadcast":
            for j in rng.sample(range(k), rng.randint(1, k - 1)):
                i = rng.randrange(n)
                specs[j] = rng.choice([["r", i], ["r", i], ["rl", i], ["v", i, i + 1, 1]])
        return mode, specs
    if mode == "interleaved":
        m = n // k
        if m < 1:
            return None
        return mode, [["v", j, min(n, j + k * m), k] for j in range(k)]
    if mode == "row_views":
        if n < k:
            return None
        idx = rng.sample(range(n), k)
        return mode, [[rng.choice(["r", "r", "r", "rc", "rl"]), i] for i in idx]
    raise ValueError(mode)


def gen_layout(rng, fn):
    carrier = rng.choice(CARRIERS)
    readonly = rng.random() < 0.25
    if fn == "conn":
        c = gen_conn(rng)
        flat = rng.random() < 0.3
        return {"kind": "layout", "fn": "conn", "mode": "flat_view" if flat else "whole", "buf": c["geom"], "carrier": carrier, "readonly": readonly,
                "args": [["flat"]] if flat else [["v", None, None, 1]], "conn": {k: c[k] for k in ("symbols", "thr", "default_thr", "dc")}}
    while True:
        n = rng.randint(4, 12)
        pts = gen_points(rng, rng.choice(STYLES), n)
        t = {"kind": "layout", "fn": fn, "buf": hexpts(pts), "carrier": carrier, "readonly": readonly, "degrees": rng.random() < 0.5}
        for _ in range(6):
            if fn == "measure":
                mode, spec0 = rng.choice([("whole", ["v", None, None, 1]), ("reversed", ["v", None, None, -1]), ("every_other", ["v", rng.randint(0, 1), None, 2]),
                                          ("window", ["v"] + _win(rng.randint(0, 2), n - 2))])
                t["mode"], t["args"] = mode, [spec0]
                nn = len(range(n)[slice(*spec0[1:])])
                ks = [k for k in (2, 3, 4) if k <= nn]
                if not ks:
                    continue
                t["single"] = rng.random() < 0.3
                ms = [rng.sample(range(nn), rng.choice(ks)) for _ in range(1 if t["single"] else rng.randint(1, 4))]
                t["spec"] = ms[0] if t["single"] else ms
            else:
                got = gen_layout_args(rng, fn, n)
                if got is None:
                    continue
                t["mode"], t["args"] = got
            if layout_inside(t):
                return t


PROBE_OFFSETS = [4e-9, 1e-8, 1e-7, 1e-6, 1e-4]
PROBE_LABELS = ["C_sp3", "C_sp2", "C_sp", "Mn_lowspin", "Mn_highspin", "Fe_lowspin", "Fe_highspin", "Co_lowspin", "Co_highspin"]
PROBE_ODD = ["X", "Xx", "Zz", "Lr", "Cf", "Es", "Og", "Q", "h", "c", "cL", "NA", "D", "T", "He4", "c13", "U238", "hydrogen", "Carbon"]


def gen_probe(rng):
    """a conn task whose consecutive atoms sit just inside / just outside their cutoff (ri+rj)*thr: the bond list then
    determines the radius the implementation really uses for each symbol to within the offset (4e-9 .. 1e-4 bohr)"""
    els = elements()

    def sym():
        r = rng.random()
        if r < 0.6:
            return rng.choice(els)
        if r < 0.72:
            return rng.choice(PROBE_LABELS)
        return rng.choice(PROBE_ODD)

    while True:
        n = rng.choice([2, 2, 3, 4])
        syms = [sym() for _ in range(n)]
        radii = [radius_of(x) for x in syms]
        thr = rng.choice(THRESHOLDS) if rng.random() < 0.7 else round(rng.uniform(0.5, 2.0), rng.choice([2, 6]))
        pts = [[rng.uniform(-3, 3) for _ in range(3)]]
        sides = []
        for k in range(1, n):
            c = (radii[k - 1] + radii[k]) * thr
            side = rng.choice(["in", "out"])
            off = rng.choice(PROBE_OFFSETS)
            d = c - off if side == "in" else c + off
            u = [rng.gauss(0, 1) for _ in range(3)]
            nrm = math.sqrt(sum(x * x for x in u)) or 1.0
            pts.append([pts[-1][i] + d * u[i] / nrm for i in range(3)])
            sides.append(side)
        if any(abs(x) > 10 for p in pts for x in p):
            continue
        P = fpts(pts)
        if any(dot(sub(P[i], P[j]), sub(P[i], P[j])) < Fr(1, 100) for i in range(n) for j in range(i)):
            continue
        mo = gen_motion(rng)
        if not conn_safe(radii, P, thr) or not conn_safe(radii, fpts(to_floats(apply_motion(mo, P))), thr):
            continue
        # the consecutive pairs must really be on the intended side (exact test)
        bonds = set(brute_bonds(radii, P, thr))
        if any(((k - 1, k) in bonds) != (sides[k - 1] == "in") for k in range(1, n)):
            continue
        perm = list(range(n))
        rng.shuffle(perm)
        return {"kind": "conn", "style": "probe", "sides": sides, "symbols": syms, "geom": hexpts(pts), "thr": thr, "default_thr": False,
                "dc": rng.choice([None, None, 1.0]), "motion": mo, "perm": perm, "flat": rng.random() < 0.3}


SEQ_QUICK, SEQ_THOROUGH, SEQ_PAR = 64, 400, 8
SEQ_MISSING = [0.0, 0.5, 1.0, 1.8, 2.5, 4.0, 10.0]
SEQ_UNITS = ["bohr", "angstrom", "pm", "nm"]
SEQ_UNKNOWN = ["X", "Xx", "Zz", "Q", "Gh", "hydrogen"]
SEQ_NUCLIDES = ["D", "T", "H2", "He4", "C13", "c13", "O18", "U238", "Cf251", "Es252"]
SEQ_OFFSETS = [1e-6, 1e-4, 1e-2, 0.1, 0.3, 0.8]
_SEQ_POOLS = None


def seq_pools():
    """(special, tabulated): labels without / with a tabulated covalent radius, in several spellings"""
    global _SEQ_POOLS
    if _SEQ_POOLS is None:
        els = elements()
        bare = [e for e in els if table_lookup(e) is None]
        special = bare + [e.lower() for e in bare] + [e.upper() for e in bare] + SEQ_UNKNOWN + [x for x in SEQ_NUCLIDES if table_lookup(x) is None]
        have = [e for e in els if table_lookup(e) is not None]
        tab = have + [e.lower() for e in have[:40]] + [e.upper() for e in have[:40]] + PROBE_LABELS * 3 + ["H", "C", "N", "O", "Mn", "Fe", "Co"] * 6 + [x for x in SEQ_NUCLIDES if table_lookup(x) is not None] * 2
        _SEQ_POOLS = (special, tab)
    return _SEQ_POOLS


def seq_spelling(rng, s):
    """another way a caller may name the same species in a table look-up"""
    import qcelemental as qcel

    r = rng.random()
    if r < 0.55:
        return s
    if r < 0.7:
        return s.lower()
    if r < 0.8:
        return s.upper()
    try:
        el = qcel.periodictable.to_E(s)
        return int(qcel.periodictable.to_Z(el)) if r < 0.9 else el
    except Exception:  # noqa
        return s


def seq_chain(rng, syms, thr, tries=40):
    """points for `syms`: consecutive atoms SEQ_OFFSETS inside / outside their cutoff (table radii), every pair clear of its cutoff by 2e-9, inside the box"""
    radii = [table_radius(x) for x in syms]
    n = len(syms)
    for _ in range(tries):
        pts = [[rng.uniform(-2, 2) for _ in range(3)]]
        for k in range(1, n):
            c = (radii[k - 1] + radii[k]) * thr
            off = rng.choice(SEQ_OFFSETS)
            d = c - off if rng.random() < 0.5 else c + off
            if d < 0.2:
                d = c + off
            u = [rng.gauss(0, 1) for _ in range(3)]
            nrm = math.sqrt(sum(x * x for x in u)) or 1.0
            pts.append([pts[-1][i] + d * u[i] / nrm for i in range(3)])
        if any(abs(x) > 10 for p in pts for x in p):
            continue
        P = fpts(pts)
        if any(dot(sub(P[i], P[j]), sub(P[i], P[j])) < Fr(1, 100) for i in range(n) for j in range(i)):
            continue
        if conn_safe(radii, P, thr):
            return pts
    return None


def seq_thr(rng):
    return rng.choice(THRESHOLDS) if rng.random() < 0.8 else round(rng.uniform(0.5, 2.0), rng.choice([2, 6]))


def seq_meas_points(rng, fn):
    """argument point lists (floats) + forms for a checked measurement inside the quantifier"""
    if fn == "dm":
        na, nb = rng.randint(1, 4), rng.randint(1, 4)
        pts = gen_points(rng, rng.choice(STYLES), na + nb)
        return [pts[:na], pts[na:]], [rng.choice(["2d", "F"]) for _ in range(2)]  # distance_matrix is documented for ndarrays only
    if fn == "measure":
        n = rng.choice([4, 5, 6])
        while True:
            pts = gen_points(rng, rng.choice(STYLES), n)
            E = fpts(pts)
            if all(sin2(sub(E[i], E[j]), sub(E[k], E[j])) >= Fr(1, 10000) for i in range(n) for j in range(n) for k in range(n) if len({i, j, k}) == 3):
                return [pts], [rng.choice(["2d", "list", "F"])]
    k = MEAS_K[fn]
    n = rng.choice([1, 1, 2, 3])
    rows = []
    while len(rows) < n:
        pts = gen_points(rng, rng.choice(STYLES), k)
        if k < 3 or general_position(fpts(pts)):
            rows.append(pts)
    args = [[rows[i][c] for i in range(n)] for c in range(k)]
    forms = [(rng.choice(["row", "row_list", "2d"]) if n == 1 else rng.choice(["2d", "2d", "list"])) for _ in range(k)]
    return args, forms


def gen_seq(rng):
    special, tab = seq_pools()
    cast_s = rng.sample(special, rng.randint(2, 4))
    cast_t = rng.sample(tab, rng.randint(3, 5))
    cast = cast_s + cast_t
    steps = []
    vals = {}  # id of a conn step -> [symbols, geom(hex), sym_as, geom_as] currently held by ITS argument objects (shared between steps that reuse them)
    conn_ids, meas_ids, mol_ids = [], [], []
    L = rng.randint(30, 60)

    def nid():
        return len(steps)

    def conn_opts():
        dt = rng.random() < 0.15
        return (1.2 if dt else seq_thr(rng)), dt, rng.choice([None, None, None, 1.0, 1.5, 0.0, 2])

    def add_conn(syms, geomhex, thr, dt, dc, sym_as=None, geom_as=None, reuse=None):
        st = {"op": "conn", "id": nid(), "symbols": list(syms), "geom": geomhex, "thr": thr, "default_thr": dt, "dc": dc}
        if reuse is None:
            st["sym_as"] = sym_as or rng.choice(["list", "list", "tuple", "array"])
            st["geom_as"] = geom_as or rng.choice(["2d", "2d", "flat", "list", "F"])
            vals[st["id"]] = [list(syms), geomhex, st["sym_as"], st["geom_as"]]
        else:
            st["reuse"] = reuse
            vals[st["id"]] = vals[reuse]  # the same objects
        conn_ids.append(st["id"])
        steps.append(st)

    def new_molecule(syms=None):
        for _ in range(20):
            thr, dt, dc = conn_opts()
            if syms is None:
                n = rng.choice([2, 2, 3, 3, 4, 5])
                ss = [rng.choice(cast_s) if rng.random() < 0.45 else rng.choice(cast) for _ in range(n)]
            else:
                ss = syms
            pts = seq_chain(rng, ss, thr)
            if pts is not None:
                return ss, hexpts(pts), thr, dt, dc
        return None

    while len(steps) < L:
        r = rng.random()
        if r < 0.30:
            kw = {}
            if rng.random() < 0.75:
                kw["missing"] = rng.choice(SEQ_MISSING)
            if rng.random() < 0.4:
                kw["units"] = rng.choice(SEQ_UNITS)
            if rng.random() < 0.25:
                kw["return_tuple"] = rng.random() < 0.6
            steps.append({"op": "cr_get", "id": nid(), "atom": seq_spelling(rng, rng.choice(cast_s) if rng.random() < 0.6 else rng.choice(cast)), "kw": kw})
        elif r < 0.34:
            kw = {}
            if rng.random() < 0.7:
                kw["missing"] = rng.choice(SEQ_MISSING)
            if rng.random() < 0.4:
                kw["units"] = rng.choice(SEQ_UNITS)
            steps.append({"op": "vdw_get", "id": nid(), "atom": seq_spelling(rng, rng.choice(cast)), "kw": kw})
        elif r < 0.38:
            steps.append({"op": "pt", "id": nid(), "fn": rng.choice(["to_E", "to_Z", "to_mass", "to_A", "to_name"]), "atom": seq_spelling(rng, rng.choice(cast))})
        elif r < 0.64:
            if conn_ids and rng.random() < 0.3:
                # the same molecule again with other options (fresh objects, or the very objects of the earlier call)
                k = rng.choice(conn_ids)
                syms, geomhex = vals[k][0], vals[k][1]
                for _ in range(6):
                    thr, dt, dc = conn_opts()
                    if conn_safe([table_radius(x) for x in syms], fpts(unhex(geomhex)), thr):
                        add_conn(syms, geomhex, thr, dt, dc, reuse=k if rng.random() < 0.5 else None)
                        break
            else:
                m = new_molecule()
                if m is not None:
                    add_conn(*m)
        elif r < 0.74:
            # the caller edits something the library returned earlier, then asks the same question again
            pool = conn_ids + meas_ids
            arrs = [k for k in meas_ids if steps[k].get("fn") in ("dm", "distance", "angle", "dihedral") and steps[k].get("reuse") is None and not steps[k].get("dirty")]
            if pool:
                # array-valued answers (distance matrix, row-wise measurements) are edited in place as often as bond lists
                k = rng.choice(arrs) if arrs and rng.random() < 0.5 else rng.choice(pool)
                steps.append({"op": "mut_result", "id": nid(), "of": k, "how": rng.choice(["clear", "append", "reverse", "pop", "dup"])})
                src = steps[k]
                if src["op"] == "conn":
                    if [src["symbols"], src["geom"]] == vals[k][:2]:
                        add_conn(src["symbols"], src["geom"], src["thr"], src["default_thr"], src["dc"], sym_as=src.get("sym_as"), geom_as=src.get("geom_as"))
                elif src.get("reuse") is None and not src.get("dirty"):
                    st = dict(src, id=nid())
                    meas_ids.append(st["id"])
                    steps.append(st)
        elif r < 0.82:
            # the caller overwrites its own argument objects in place and hands the same objects in again
            ks = [k for k in conn_ids if vals[k][3] in ("2d", "flat", "list", "F")]
            if ks:
                k = rng.choice(ks)
                syms = list(vals[k][0])
                change_syms = vals[k][2] in ("list", "array") and rng.random() < 0.5
                if change_syms:
                    syms = [rng.choice(cast) if rng.random() < 0.5 else x for x in syms]
                    rng.shuffle(syms)
                m = new_molecule(syms)
                if m is not None:
                    if change_syms:
                        steps.append({"op": "mut_syms", "id": nid(), "of": k, "symbols": list(syms)})
                    steps.append({"op": "mut_geom", "id": nid(), "of": k, "geom": m[1]})
                    vals[k][0], vals[k][1] = list(syms), m[1]
                    add_conn(syms, m[1], m[2], m[3], m[4], reuse=k)
        elif r < 0.95:
            ks = [k for k in meas_ids if steps[k]["fn"] in ("angle", "dihedral", "measure") and not steps[k].get("dirty")]
            if ks and rng.random() < 0.35:
                # same argument objects, the other degrees flag
                k = rng.choice(ks)
                st = dict(steps[k], id=nid(), degrees=not steps[k]["degrees"], reuse=k)
                meas_ids.append(st["id"])
                steps.append(st)
            else:
                fn = rng.choice(["distance", "angle", "dihedral", "dihedral", "dm", "measure"])
                args, forms = seq_meas_points(rng, fn)
                st = {"op": "meas", "id": nid(), "fn": fn, "args": [hexpts(a) for a in args], "as": forms, "degrees": rng.random() < 0.5}
                if fn == "measure":
                    n = len(args[0])
                    st["single"] = rng.random() < 0.4
                    ms = [rng.sample(range(n), rng.choice([2, 3, 4])) for _ in range(1 if st["single"] else rng.randint(1, 4))]
                    st["spec"] = ms[0] if st["single"] else ms
                meas_ids.append(st["id"])
                steps.append(st)
        else:
            if mol_ids and rng.random() < 0.5:
                k = rng.choice(mol_ids)
                st = dict(steps[k], id=nid(), degrees=rng.choice([None, True, False]), reuse=k)
            else:
                args, _ = seq_meas_points(rng, "measure")
                n = len(args[0])
                single = rng.random() < 0.4
                ms = [rng.sample(range(n), rng.choice([2, 3, 4])) for _ in range(1 if single else rng.randint(1, 3))]
                st = {"op": "molm", "id": nid(), "symbols": [rng.choice(elements()[:36]) for _ in range(n)], "geom": hexpts(args[0]), "single": single,
                      "spec": ms[0] if single else ms, "degrees": rng.choice([None, True, False])}
            mol_ids.append(st["id"])
            steps.append(st)
    return {"kind": "seq", "steps": steps}


def fixed_tasks():
    """hand-written regression inputs (always run first)"""
    T = []
    ident = {"q": [1, 0, 0, 0], "h": None, "t": ["0", "0", "0"]}
    # the batched-dihedral defect witness (n = 3 silently wrong, n = 2 raised) — fixed in /repo, must stay fixed
    rows = [[[1.0, 0.5, 0.0], [0.0, 0.0, 0.0], [0.0, 3.0, 4.0], [1.0, 3.0, 5.0]],
            [[-1.0, 2.0, 0.5], [0.0, 0.0, 1.0], [2.0, 3.0, 7.0], [2.5, 1.0, 9.0]],
            [[0.0, -1.5, 2.0], [1.0, 1.0, 1.0], [2.0, 3.0, 3.0], [4.0, 3.0, 2.0]]]
    for n in (2, 3):
        T.append({"kind": "batch", "lists": [hexpts([rows[i][c] for i in range(n)]) for c in range(4)], "degrees": False})
    # test-suite style right angles and a water-like triple
    T.append({"kind": "geom", "style": "lattice", "pts": hexpts([[1.0, 0, 0], [0, 0, 0], [0, 1.0, 0], [0, 1.0, 1.0]]), "motion": {"q": [1, 2, 3, 4], "h": [1, 1, 0], "t": ["1", "2", "3"]}, "degrees": True})
    T.append({"kind": "geom", "style": "lattice", "pts": hexpts([[1.0, 0, 0], [0, 0, 0], [0, 1.0, 0], [0, 1.0, 1.0]]), "motion": ident, "degrees": False})
    # consecutive points / consecutive torsions along one chain buffer: arguments are overlapping views of the same memory
    chain = hexpts([[0.0, 0.0, 0.0], [1.5, 0.25, 0.0], [2.0, 1.75, 0.5], [3.5, 2.0, 1.75], [4.0, 3.5, 1.5], [5.25, 3.75, 2.75], [5.5, 5.0, 3.5]])
    T.append({"kind": "layout", "fn": "dm", "mode": "overlap", "buf": chain, "carrier": "C", "readonly": False, "degrees": False, "args": [["v", 0, 6, 1], ["v", 1, 7, 1]]})
    T.append({"kind": "layout", "fn": "dihedral", "mode": "windows", "buf": chain, "carrier": "C", "readonly": False, "degrees": True,
              "args": [["v", 0, 4, 1], ["v", 1, 5, 1], ["v", 2, 6, 1], ["v", 3, 7, 1]]})
    T.append({"kind": "conn", "symbols": ["O", "H", "H"], "geom": hexpts([[0, 0, -0.12], [0, -1.43, 0.98], [0, 1.43, 0.98]]), "thr": 1.2, "default_thr": True, "dc": None, "motion": ident, "perm": [2, 0, 1], "flat": True})
    # "closer than" is strict: a pair EXACTLY at its cutoff is not bonded.  Two unknown symbols (radius 1.8 bohr each, connectivity.py:39-41) on an axis at
    # distance (1.8 + 1.8) * thr for thr in {1, 2, 1/2}: every float operation involved is exact (doubling, scaling by a power of two, sqrt(fl(x*x)) = x),
    # so implementation, model and oracle all see d == cutoff exactly — the only inputs that tell `<` from `<=`.
    for thr, d in ((1.0, 3.6), (2.0, 7.2), (0.5, 1.8)):
        T.append({"kind": "conn", "symbols": ["Xx", "Xx", "Xx"], "geom": hexpts([[0.0, 0.0, 0.0], [d, 0.0, 0.0], [d, 40.0, 0.0]]), "thr": thr, "default_thr": False, "dc": None, "motion": ident, "perm": [1, 0, 2], "flat": False, "edge_exact": True})
    return T


def gen_tasks(ctx: Ctx):
    rng = ctx.rng
    T = fixed_tasks()
    for _ in range(ctx.scale(3000, 15000)):
        T.append(gen_geom(rng))
    for _ in range(ctx.scale(300, 1500)):
        T.append(gen_collinear(rng))
    for _ in range(ctx.scale(800, 4000)):
        T.append(gen_batch(rng))
    for _ in range(ctx.scale(1200, 6000)):
        T.append(gen_measure(rng))
    for _ in range(ctx.scale(1000, 5000)):
        T.append(gen_conn(rng))
    # memory-layout / aliasing stream (generated last so the earlier streams keep their per-seed inputs)
    for fn, nq, nt in (("dm", 700, 3500), ("dist", 300, 1500), ("angle", 300, 1500), ("dihedral", 400, 2000), ("measure", 250, 1250), ("conn", 250, 1250)):
        for _ in range(ctx.scale(nq, nt)):
            T.append(gen_layout(rng, fn))
    # cutoff-edge probes (generated after everything else, same reason)
    for _ in range(ctx.scale(1500, 7500)):
        T.append(gen_probe(rng))
    # call sequences, each in its own fresh interpreter (generated after everything else, same reason)
    for _ in range(ctx.scale(SEQ_QUICK, SEQ_THOROUGH)):
        T.append(gen_seq(rng))
    return T


# --------------------------------------------------------------------------------------


THREE_WAY_OPS = {"D", "A", "H", "BD", "BA", "BH", "C"}


def evaluate(ctx: Ctx, tasks, out: Outcome):
    all_lines, spans = [], []
    all_lines2, spans2 = [], []
    for t in tasks:
        ls = TASKS[t["kind"]][0](t)
        spans.append((len(all_lines), len(ls)))
        all_lines += ls
        ls2 = TASKS2[t["kind"]](t) if t["kind"] in TASKS2 else []
        spans2.append((len(all_lines2), len(ls2)))
        all_lines2 += ls2
    # sequences run in fresh interpreters, SEQ_PAR at a time, while the drivers work
    seqs = [t for t in tasks if t["kind"] == "seq"]
    pool = futs = None
    if len(seqs) > 1:
        from concurrent.futures import ThreadPoolExecutor

        pool = ThreadPoolExecutor(max_workers=SEQ_PAR)
        futs = [(t, pool.submit(run_worker, t["steps"])) for t in seqs]
    model = model2 = None
    src_diffs = {}
    if ctx.model_available:
        model = list(ctx.run_model(DRIVER, all_lines))
        # three-way: the driver answers D / A / H / BD / BA / BH / C lines twice (hand model; exact evaluators on the terms regenerated
        # from the source) and prints `SRCDIFF <hand> ## <source-derived>` where they differ
        for i, m in enumerate(model):
            if m.startswith("SRCDIFF "):
                hand, _, src = m[len("SRCDIFF "):].partition(" ## ")
                src_diffs[i] = (hand, src)
                model[i] = hand
        out.count("three_way_lines", sum(1 for l in all_lines if l.split("|", 1)[0] in THREE_WAY_OPS))
        nbad = sum(1 for m in model if m == "bad-op")
        if nbad:
            out.mismatches.append(Finding("mismatch", {"task": None}, observed=f"{nbad} bad-op lines", detail="driver rejected generated lines"))
        model2 = ctx.run_model(DRIVER_RADII, all_lines2)
        nbad = sum(1 for m in model2 if m == "bad-op")
        if nbad:
            out.mismatches.append(Finding("mismatch", {"task": None}, observed=f"{nbad} bad-op lines", detail="radii driver rejected generated lines"))
    if futs:
        for t, f in futs:
            try:
                _SEQ_RES[id(t)] = f.result()
            except Exception as e:  # noqa
                _SEQ_RES[id(t)] = e
        pool.shutdown()
    for t, (a, k), (a2, k2) in zip(tasks, spans, spans2):
        ml = model[a : a + k] if model is not None else None
        if ml is not None and any(m == "bad-op" for m in ml):
            ml = None
        for i in range(a, a + k):
            if i in src_diffs:
                MM(out, t, "source-derived exact part (Gen/MeasureSrc.lean, regenerated from util/misc.py / molutil/connectivity.py) differs from the hand model on line "
                   + all_lines[i][:160], observed=src_diffs[i][1][:300], expected=src_diffs[i][0][:300])
                break
        if k2:
            ml2 = model2[a2 : a2 + k2] if model2 is not None else None
            if ml2 is not None and any(m == "bad-op" for m in ml2):
                ml2 = None
            TASKS[t["kind"]][1](t, ml, out, ml2)
        else:
            TASKS[t["kind"]][1](t, ml, out)
    out.count("driver_lines", len(all_lines))
    out.count("radii_driver_lines", len(all_lines2))


def run(ctx: Ctx) -> Outcome:
    out = Outcome()
    tasks = gen_tasks(ctx)
    evaluate(ctx, tasks, out)
    out.exhaustive = False
    out.notes.append("all streams sampled from VERIF_SEED; 10 hand-written regression tasks run first")
    out.notes.append("seq stream: one fresh interpreter per sequence (harness/c18_worker.py); distribution keys seq:sequences, seq:steps, seq:step:<history op>:<ok|err|skip>, seq:conn_checked[:objects_reused], "
                     "seq:meas_checked:<fn>, seq:conn_bonds; findings oracle:sequence:connectivity / :measure / :argument_mutated / :result_changed / :raises carry the shrunk sequence (replayed in a fresh interpreter)")
    out.notes.append("layout stream: distribution keys layout:<fn>:<mode>, layout:carrier:<memory layout>[:readonly], layout:arguments_share_memory, "
                     "layout:<fn>:distinct_equal_shape_overlapping_views (two different, equally shaped, memory-overlapping views — e.g. distance_matrix(P[:-1], P[1:]))")
    out.notes.append("transcendental step: the closed forms proved in Props/C18Real.lean (distR = sqrt d2; angleR_eq_args; dihedralR_eq_args) evaluated in Python (libm) on the model's exact rational arguments; tolerance 1e-9 (1e-6 on exactly collinear triples)")
    out.notes.append("radii: every conn / probe / layout-conn task is also evaluated from its symbols by Driver/C18Radii.lean with radii from Gen/Radii.lean + Gen/PT.lean (regenerated from the source tree before the build); "
                     "conn:radii_compared_with_table counts exact radius comparisons, conn:probe:<sides> the cutoff-edge probes")
    return out


def replay(ctx: Ctx, case) -> Outcome:
    out = Outcome()
    t = case["task"] if isinstance(case, dict) and "task" in case else case
    if not t:
        return run(ctx)
    evaluate(ctx, [t], out)
    return out
