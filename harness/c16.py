"""C16 — orientation into the canonical inertial frame.

Correspondence: every call of `numpy.linalg.eigh` made by `Molecule._orient_molecule_internal` is
captured (by wrapping `numpy.linalg.eigh`, no source hooks); the exact rational values of the doubles
the implementation saw (masses, geometry) together with the captured eigenvectors/eigenvalues go to
the Lean driver, which recomputes centring, tensor, rotation, phase loop and `float_prep` exactly in
rationals, certifies the eigen-frame, and the results are compared (tensor, certificate, geometry).

Oracle: a direct Python statement of the property on the implementation's outputs (distances, centre
of mass, diagonal ascending inertia, sign convention, untouched fields, rigid copies, double
orientation), with tolerances derived from the documented geometry rounding.  The inertia clauses (off-diagonal entries, ascending moments)
are evaluated a second time per captured call with the tolerance PROVED for that call's certificate (Props/C16Approx.lean,
inertia_diagonal_driver: B_off, B_diag computed by the driver from the exact residuals) plus the exact float_prep rounding term - see
proved_bound_claims; the older ad-hoc slack 2e-13 (scale + 1) stays in base_claims, so the tighter of the two decides.

Position in space: every case is also oriented from a FAR rigid copy (fresh rotation, translation of
10^2.5 .. 10^6.5 bohr: axis-aligned, diagonal or generic direction), and ~15% of the cases have the
primary molecule itself far from the origin.  There the doubles of the input still resolve the
geometry far below the 1e-8 rounding (ulp(3e6) = 4.7e-10), so the property demands the same oriented
coordinates; the only extra allowance is the floating-point resolution of the input, 4e-15 * (1 + max|x|),
propagated through the same first-order perturbation bound as every other input displacement.

Call sequences: the model is a pure function of (masses, geometry, eigh output); the implementation is a method of a class living in a
long-running process.  The family stream (gen_family / run_family) orients one structure and its relatives (other masses on bit-identical
coordinates, other fields, displaced / permuted / moved coordinates, ...) one after another in this process, through all entry points, with
reused objects and a reused argument buffer, and demands the property of every single call with that call's own molecule; it also checks that
nothing the caller holds (arguments, unoriented molecule, earlier results) is modified.  A replay of a family re-runs the whole sequence.
"""
from __future__ import annotations

import contextlib
import io
import json
import math
from fractions import Fraction as Fr

import numpy as np

import c16_src
from common import Ctx, Finding, Outcome, err_class

PROPERTY = "C16"
LEAN_TARGETS = ["QcelVerif.Props.C16", "QcelVerif.Lemmas.OrientUnique", "QcelVerif.Props.C16Unique", "QcelVerif.Props.C16Masses",
                "QcelVerif.Model.OrientApprox", "QcelVerif.Lemmas.OrientApprox", "QcelVerif.Props.C16Approx", "QcelVerif.Driver.C16",
                "QcelVerif.Model.OrientAst", "QcelVerif.Model.OrientSrc", "QcelVerif.Props.C16Src"]
# molecule.py (_orient_molecule_internal, _inertial_tensor, GEOMETRY_NOISE) -> lean/QcelVerif/Gen/OrientSrc.lean, by `ast`, on every run
TRANSLATORS = [c16_src.translate]
DRIVER = "QcelVerif/Driver/C16.lean"
N = "QcelVerif.Orient."
THEOREMS = [
    (N + "orient_com_zero", "orientCore = ok out -> the mass-weighted sum of out is 0 (any V, any field, total mass /= 0)"),
    (N + "orient_isometry", "V Vt = 1 -> orientCore = ok out -> out = xs.map f with f preserving every squared distance (centring, rotation and the sign flips together)"),
    (N + "orient_isometry_get", "indexed form: distSq out[i] out[j] = distSq xs[i] xs[j] for all atoms i, j"),
    (N + "isometry_defect", "for ANY V: |pV - qV|^2 - |p - q|^2 = (p-q)(V Vt - 1)(p-q)t, so the certified residual of V Vt bounds the distortion"),
    (N + "isometry_approx", "certified bound, no exactness assumed: max|V Vt - 1| <= eps -> every squared distance changes by at most 3*eps times itself under the rotation"),
    (N + "isEigFrame_exact", "the certificate function the driver evaluates, at tolerance 0, yields exactly the hypotheses Orth V, Vt T V = diag l, l ascending"),
    (N + "inertia_transforms", "Orth V -> inertia ms (rotate g V) = Vt (inertia ms g) V   (any commutative ring, any number of atoms)"),
    (N + "orient_inertia_diagonal", "Orth V -> Vt T V = diag(l) for T the tensor handed to eigh -> the inertia tensor of the oriented geometry is exactly diag(l); with l ascending the moments ascend"),
    (N + "phaseLoop_eq_colSign", "the three-column in-place loop of the code equals the per-column rule: sign = -1 iff the first entry with not |v| < noise is negative"),
    (N + "phase_convention", "0 < noise -> in each column of the phased geometry every entry before the first off-plane one is within noise and that first off-plane entry is >= noise (> 0)"),
    (N + "phase_column_pm", "each column of the phased geometry is the input column or its negation (nothing else is changed by the loop)"),
    (N + "nongeometric_untouched", "orientMol changes only the geometry: masses and the whole non-geometric payload are returned as they were"),
    (N + "orient_rigid_invariant_partial", "PARTIAL: rigid copy y = xR + t, eigen-frame uniqueness hypothesis V' = Rt V D (D = diag(+-1)), every column has an off-plane atom -> both orient to the same coordinates"),
    (N + "orient_idempotent_partial", "PARTIAL: Orth V, second-pass eigenvectors V2 = diag(+-1) (uniqueness hypothesis), every column has an off-plane atom -> orienting the oriented geometry returns it unchanged"),
    (N + "eigframe_unique_of_regular", "any commutative ring, 3x3: V, V' orthogonal, both diagonalise the same T to the same diag(l), the differences l_i - l_j (i /= j) not zero divisors -> V' = V diag(d) with d_i^2 = 1 (symmetry of T not assumed: it follows)"),
    (N + "eigframe_unique", "no zero divisors (every field): V, V' orthogonal eigen-frames of T for the same pairwise DISTINCT l -> V' = V diag(d0,d1,d2), each d_i = 1 or -1"),
    (N + "eigvals_unique", "linearly ordered ring: two exact eigen-frames of the same T, l strictly ascending, l' ascending -> l' = l (the ascending eigenvalue triple is unique)"),
    (N + "eigframe_degenerate_not_unique", "sharpness witness over Q: with a repeated eigenvalue (T = diag(1,1,2), V = 1, V' = quarter turn) every other hypothesis of eigframe_unique holds and the conclusion fails"),
    (N + "orientTensor_rigid", "y = xR + t, R orthogonal, one mass per row, total mass /= 0 -> tensor handed to eigh for y = Rt (tensor for x) R"),
    (N + "eigframe_rigid", "... and if V is orthogonal with Vt T(x) V = L then Rt V is orthogonal with (Rt V)t T(y) (Rt V) = L: eigen-frames move with the molecule, moments unchanged"),
    (N + "isEigFrame_of_exact", "converse of isEigFrame_exact: Orth V, Vt T V = diag l, l ascending -> the tolerance-0 certificate function returns true"),
    (N + "isEigFrame_rigid", "a tolerance-0 certificate (V, l) for x yields the certificate (Rt V, l) for the rigid copy y (the second hypothesis of orient_rigid_invariant is satisfiable whenever the first is)"),
    (N + "rigid_moments_invariant", "two exact certificates, one for x with distinct moments and one for the rigid copy y: the certified moment triples are equal"),
    (N + "idempotent_moments", "exact certificate (distinct moments) for x, out = oriented x, any exact certificate (V2, l2) for out -> l2 = l"),
    (N + "orient_rigid_invariant", "FULL (exact arithmetic): y = xR + t, R orthogonal; ANY exact certificates (V,l) for x and (V',l') for y, l.x < l.y < l.z, every column of the rotated geometry has an off-plane atom -> orientCore y V' = orientCore x V; no relation between V and V' assumed (V' = Rt V diag(+-1) is derived)"),
    (N + "orient_idempotent", "FULL (exact arithmetic): exact certificate (V,l) for x with l.x < l.y < l.z, orientCore x V = ok out, ANY exact certificate (V2,l2) for out, every column of out has an off-plane atom -> orientCore out V2 = ok out (V2 = diag(+-1), l2 = l derived); the implementation re-orients the ROUNDED geometry - known finding C16-flushed-decider-idempotence"),
    (N + "orientCore_zero_mass", "masses summing to zero -> the model returns the ZeroDivision error (np.average), never a repaired geometry"),
    (N + "flushed_decider_witness", "concrete exact-rational witness (kernel-evaluated test) of the known finding: a legitimate eigen-frame, atom 0 at 3e-7 off a plane decides the sign, float_prep prints it as 0 and the first non-zero atom of that column is negative"),
    (N + "floatPrep_small", "|v| < 10^-8 -> float_prep(v, 8) = 0 (sub-noise columns, e.g. planar/linear molecules, print as exact zeros whatever their sign)"),
    (N + "wsum_center_other", "centring with masses ms, weighing with OTHER masses ms' (one per atom, total /= 0): sum m'_i (x_i - c_ms) = (sum m') (c_ms' - c_ms)"),
    (N + "orient_com_other_masses", "stale frame: out = geometry oriented with masses ms (V Vt = 1); for any other masses ms' the ms'-weighted sum of out is 0 IFF the centre of mass of the input under ms' equals the one under ms (so the com clause evaluated with a molecule's OWN masses exposes a frame computed for another isotopologue whenever the two centres differ)"),
    (N + "stale_frame_witness", "concrete exact-rational witness (kernel-evaluated test): H-H-H on a line, frame for masses [1,1,1] is centred for [1,1,1] and not for the isotopologue [2,1,1]"),
    # ---- Props/C16Approx.lean: the same conclusions for the APPROXIMATE certificates the driver actually has (explicit bounds, any ordered field)
    (N + "orient_com_approx", "centre of mass needs NO certificate: for any residuals (any V) the mass-weighted sum of the oriented coordinates is exactly 0 in the model (rounding of the weighted mean is outside the model)"),
    (N + "inertia_defect", "for ANY V (any commutative ring, any atoms): inertia(xV) = Vt inertia(x) V + (sum m p(VVt-1)pt) 1 - (sum m |p|^2)(VtV-1); inertia_transforms is the case of zero defect"),
    (N + "inertia_flip", "whole-column sign flips (a^2 = b^2 = c^2 = 1) conjugate the tensor by diag(a,b,c): |I_ab| and I_aa are unchanged by the phase loop"),
    (N + "inertia_rotated_approx", "max|VtV-1| <= ea, max|VVt-1| <= eb, max|Vt T V - diag l| <= e2 -> tensor I of the ROTATED geometry: |I_aa - l_a| <= e2 + (3 eb + ea) S, |I_ab| <= e2 + ea S, S = sum |m_i| |p_i|^2"),
    (N + "inertia_diagonal_approx", "same three residual bounds for the tensor handed to eigh, orientCore = ok out -> inertia tensor of the ORIENTED geometry out (recomputed from the rotated, phased coordinates): |I_aa - l_a| <= B_diag = e2 + (3 eb + ea) S, |I_ab| <= B_off = e2 + ea S (a /= b), I symmetric; S = sum |m_i| |x_i - c|^2; no exactness, any masses"),
    (N + "inertia_diagonal_maxAbs", "max-entry-norm form: max|I(out) - diag l| <= B_diag"),
    (N + "inertia_diagonal_of_cert", "from the certificate function the driver evaluates at ANY tolerances: isEigFrame T V l eo ed = true -> |I_aa - l_a| <= ed + 4 eo S, |I_ab| <= ed + eo S, l ascending"),
    (N + "inertia_diagonal_driver", "for exactly the numbers the driver prints per call (inertiaBounds = (S, B_off, B_diag) from the call's own exact residuals): |I_ab(out)| <= B_off and |I_aa(out) - l_a| <= B_diag with no hypothesis on V or l at all"),
    (N + "absS_half_trace", "non-negative masses: 2 S = trace of the tensor handed to eigh, so the bounds are functions B(e1, e2, tr T)"),
    (N + "cert_entries", "the third residual entry by entry (Gershgorin data): diagonal of Vt T V within e2 of l, off-diagonal within e2 of 0"),
    (N + "moments_ascending_approx", "residual bounds + l ascending -> moments of the oriented geometry ascend up to 2 B_diag (I_xx <= I_yy + 2B, I_yy <= I_zz + 2B), strictly when consecutive l are more than 2 B_diag apart"),
    (N + "eigenvalue_near_certified_partial", "PARTIAL: T (V w) = mu (V w), w /= 0, max|VtV-1| <= ea, max|VtTV - diag l| <= e2 -> mu within 3 (e2 + |mu| ea) of one of the certified l (every eigenvalue with an eigenvector in the range of V; surjectivity of V for small residuals not proved)"),
    (N + "approxFrame_of_cert", "isEigFrame T V l eo ed = true -> ApproxFrame T V l eo ed (the three residual bounds; the hypothesis form of the uniqueness theorems)"),
    (N + "approxFrame_of_exact", "an exact eigen-frame (Orth V, Vt T V = diag l) is an ApproxFrame at tolerances 0, 0"),
    (N + "overlap_offdiag_approx", "two approximate eigen-frames (V,l) of T and (V',l') of T' (residuals e1, e2; max|T|, max|T'| <= tau; max|T-T'| <= theta): every entry of M = Vt V' satisfies |(l_i - l'_j) M_ij| <= (1+e1)(6 e2 + 3 theta + 18 tau e1) (exact frames: = 0)"),
    (N + "eigframe_unique_approx", "QUANTITATIVE eigen-frame uniqueness (3x3, explicit constants): as above with moments separated by gamma > 0 (|l_i - l'_j| >= gamma, i /= j) -> signs d_i in {1,-1} with max|V' - V diag(d)| <= frameBound(e1, delta/gamma) = (1+e1)(kappa + 2 eta + 3 e1), eta = delta/gamma, kappa = e1 + 3 e1 (1+e1) + 2 eta^2: O(eps/gap); equals 0 for exact certificates"),
    (N + "second_pass_frame_approx_partial", "PARTIAL (frame level): out oriented with residuals (ea, eb, e2); ANY approximate eigen-frame (V2,l2) of the tensor of out with tolerances (e1, E2 >= B_diag), moments separated from l by gamma -> V2 = diag(+-1) within frameBound(e1, overlapDelta(e1,E2,tau,0)/gamma); geometry-level idempotence up to a bound additionally needs stable phase decisions (not proved)"),
    (N + "eigframe_rigid_approx_partial", "PARTIAL (frame level): y = xR + t, R exactly orthogonal; approximate eigen-frames (V,l) for x and (V',l') for y, gap gamma -> max|R V' - V diag(d)| <= frameBound(3 e1, overlapDelta(3 e1, e2, tau, 0)/gamma); equality of the two oriented geometries up to a bound additionally needs stable phase decisions (not proved)"),
    (N + "src_inertia_eq", "[regenerated from molecule.py] the body of _inertial_tensor as read from the source (np.zeros, the six assignments, np.sum, weight, geom[:, j] ** 2.0, -1.0 *) evaluates to Model/Orient.lean's inertia, entry by entry, for ALL weights and geometries over any ordered field"),
    (N + "src_centre_eq", "[regenerated] the vector `new_geometry -= np.average(new_geometry, axis=0, weights=np_mass)` subtracts equals the model's com, with np.average's two refusals (length mismatch -> Shape, weights summing to zero -> ZeroDivision), for all inputs"),
    (N + "src_centred_eq", "[regenerated] the centred geometry of the source = center ms xs (same refusals)"),
    (N + "src_tensorStage_eq", "[regenerated] the tensor the source hands to np.linalg.eigh (centring, then _inertial_tensor(new_geometry, weight=np_mass)) = orientTensor ms xs, for all inputs"),
    (N + "src_rot_eq", "[regenerated] `new_geometry = np.dot(new_geometry, evecs)` evaluated as a general 2-d array product with shape check and conversion back to (n,3) rows = rotate g V, for ALL geometries and ALL eigh outputs V"),
    (N + "body_step", "[regenerated] one pass of the inner-loop body as written in the source (flag test, read new_geometry[num, x], `abs(val) < geom_noise`, set flag, `val < 0` -> in-place `new_geometry[:, x] *= -1`) on the in-place array state = one colStep of the hand model's sign-tracking state on that column"),
    (N + "src_phase_eq", "[regenerated] the whole phase loop of the source with its in-place semantics (for num in range(n): for x in range(3): body; optional `if sum(phase_check) == 3: break`) returns exactly phase noise g, for every threshold, every geometry, with or without the break; no IndexError arises"),
    (N + "src_break_irrelevant", "[regenerated] the `break` of the source only skips iterations that change nothing: with and without it the source-derived loop returns the same geometry"),
    (N + "src_afterEigh_eq", "[regenerated] everything after the eigh call as read from the source (centring, rotation, phase loop, geom_noise = 10 ** (-GEOMETRY_NOISE)) = orientCore at that threshold: for ALL masses, ALL geometries and ALL eigh outputs, errors included"),
    (N + "srcNoise_eq", "[regenerated] geom_noise of the source = 1/100000000, the threshold the driver runs the hand model at"),
    (N + "ratOps_eq", "the Mathlib-free rational operations record the driver evaluates the regenerated code with equals the generic field record at Q (so the driver's source-derived column is the object of these theorems)"),
    (N + "driver_src_eq_model", "three-way, proved side: the four source-derived functions the driver compares per call (centring vector, tensor handed to eigh, rotated geometry, returned geometry) and geom_noise equal the hand model's for ALL rational inputs"),
    (N + "src_com_origin", "headline restated over the source-derived functions: on success the centring vector the SOURCE computes for its own returned geometry is (0,0,0) (any V, total mass /= 0)"),
    (N + "src_isometry", "headline restated: V Vt = 1 -> the source-derived returned geometry is the image of the input under one map preserving every squared distance"),
    (N + "src_isometry_get", "headline restated, indexed: distSq out[i] out[j] = distSq xs[i] xs[j] for all atoms i, j of the source-derived output"),
    (N + "src_inertia_diagonal", "headline restated (source-derived on both sides): T = tensor the source hands to eigh, Orth V, Vt T V = diag l -> the source's _inertial_tensor of the source's returned geometry is exactly diag l; with l ascending the moments ascend"),
    (N + "src_phase_convention", "headline restated: in each column of the source-derived returned geometry every entry before the first off-plane one is within geom_noise and that first off-plane entry is >= geom_noise > 0"),
    (N + "src_idempotent", "headline restated (exact arithmetic): exact certificates for the tensors the source hands to eigh for xs and for its own output, distinct moments, an off-plane atom in every column -> the source-derived function returns its output unchanged"),
    (N + "src_rigid_invariant", "headline restated (exact arithmetic): y = xR + t, R orthogonal, ANY exact certificates for the source's tensors of x and y, distinct moments, off-plane atoms -> the source-derived function returns the same geometry for both"),
    (N + "src_prep_eq", "[regenerated from molecule.py] float_prep's array branch as read from the source (array = np.around(array, around) taken as rint(v 10^d)/10^d with ties to even; array[np.abs(array) < 5 ** (-(around + 1))] = 0) = floatPrepK d v / 10^d of the hand model, for every d and every value, over any floor ring field"),
    (N + "driver_prep_eq", "three-way, proved side, rounding: the source-derived float_prep entry the driver evaluates at Q (Mathlib-free rint over core Rat) equals the hand model's floatPrepK d v / 10^d for all d, v"),
    (N + "src_inputs_only", "the source-derived function is a function of (masses, geometry, evecs) only and agrees with the geometry field of the hand-modelled wrapper orientMol; the wrapper itself (Molecule(orient=True, **dict), float_prep) stays hand-modelled"),
]
TRUSTED_BASE = [
    "Lean 4.33 kernel + Mathlib (ring/linear_combination/order lemmas); axioms per theorem audited on every run",
    "hand-written model Model/Orient.lean of molecule.py:1074-1152, 381-384, 564-568, 60-68, tied by differential correspondence on every captured eigh call. "
    "Since C16c its core is no longer trusted as a transcription: orientCore / orientTensor / com / inertia / rotate / phase are PROVED equal (Props/C16Src.lean, all inputs, all eigh outputs) to the "
    "code regenerated from molecule.py on every run (Gen/OrientSrc.lean). float_prep's array branch (np.around + zero band, with strictness and fill value) is regenerated and proved equal to floatPrepK too (src_prep_eq), and the translator demands "
    "`values['geometry'] = float_prep(self._orient_molecule_internal(), geometry_noise)` with `geometry_noise = kwargs.pop('geometry_noise', GEOMETRY_NOISE)` in the validator. Still hand-modelled and tied only "
    "differentially: the wrapper (Molecule(orient=True, **self.dict()), orient_molecule, from_data) and that nothing but `geometry` is assigned there (oracle: fields)",
    "translator harness/c16_src.py (Python `ast`): locates Molecule._orient_molecule_internal, Molecule._inertial_tensor and GEOMETRY_NOISE by name, demands the exact statement sequence and variable names "
    "(copy, np.array(self.masses), `new_geometry -= np.average(...)`, tensor call, eigh, `new_geometry = <dot/T expression>`, flags, geom_noise, the two loops, return) and re-expresses the variable parts as a term of "
    "Model/OrientAst.lean (centring: weighted or not; every tensor assignment with its expression tree; the rotation expression; the loop body statement by statement with comparison operators, index order, "
    "axis and factor of the in-place multiplication; presence of the break); anything else raises. TRUSTED: Python's ast, the translator's reading of each construct, and the numpy MEANING the evaluator of "
    "Model/OrientAst.lean gives them (elementwise * + ** over equal-length arrays, np.sum, np.average = sum(w x)/sum(w) with ZeroDivisionError, np.dot = row-by-column products with inner-dimension check, "
    "2-d indexing [i, j], in-place `[:, j] *= c`, range loops with continue/break, np.around(a, d) = rint(a 10^d)/10^d with ties to even, boolean-mask assignment); np.linalg.eigh is an opaque step whose second output is an input of everything after it",
    "numpy.linalg.eigh is NOT trusted: its output is certified per call (VtV, VVt, VtTV, order) exactly in rationals by the driver. The theorems of Props/C16.lean, C16Unique.lean assume the exact versions "
    "of the certified relations; those of Props/C16Approx.lean assume only the certified residual bounds themselves (distances: isometry_approx; inertia tensor / moments: inertia_diagonal_driver; "
    "eigen-frame uniqueness: eigframe_unique_approx) and the driver prints the resulting bounds B_off, B_diag per call (Model/OrientApprox.lean inertiaBounds, evaluated in exact rationals)",
    "the oracle clauses 'inertia off-diagonal' and 'moments ascending' now ALSO run with tolerance = that proved bound + the exact rounding term of float_prep + the stated floating-point allowance "
    "4e-15 (1 + max|x|) per coordinate (harness proved_bound_claims; tensor of the output evaluated exactly in integers); the floating-point allowance itself remains an assumption about numpy arithmetic",
    "numpy elementwise IEEE arithmetic (compared with the exact rational value under stated tolerances), np.around = rint(x*10^k)/10^k",
    "harness/c16.py generators, tolerances and the Python oracle",
    "call-sequence stream: CPython object identity / numpy buffer semantics (one caller-owned geometry buffer reused for every constructor / from_data call; "
    "snapshots of arguments, unoriented molecules and returned molecules compared as JSON of .dict() + bytes of the geometry array)",
]
ASSUMPTIONS = [
    "validated molecules of 1-12 atoms (plus a 12-case unvalidated stream with zero total mass to exercise the ZeroDivisionError branch of the model; no oracle demand there)",
    "theorems are over exact (ordered) fields. With EXACT certificates (Orth V, Vt T V = diag l): everything in Props/C16.lean, C16Unique.lean. With the APPROXIMATE certificates the driver has "
    "(residuals ~1e-15, explicit bounds, Props/C16Approx.lean): centre of mass (exact, no certificate needed), distances (isometry_approx: 3 eps |p-q|^2), diagonal inertia tensor and moments = l "
    "(inertia_diagonal_approx / _driver: B_off = e2 + ea S, B_diag = e2 + (3 eb + ea) S), ascending order up to 2 B_diag, closeness of eigenvalues reachable through V to the certified l (partial), and "
    "uniqueness of the eigen-frame up to signs within O(eps/gap) (eigframe_unique_approx; second pass and rigid copies at the level of FRAMES). NOT proved for approximate certificates: the geometry-level "
    "rigid-invariance / idempotence statements (they need the phase decisions to be stable under the O(eps/gap) perturbation; the harness checks that per case with a first-order bound) and anything about "
    "floating-point arithmetic of the implementation, which stays covered by the correspondence tolerances only",
    "uniqueness claims (rigid copies, double orientation) are demanded for asymmetric tops with relative gaps between consecutive moments >= 1e-3; eigen-frame uniqueness is proved (eigframe_unique / eigvals_unique) for EXACT certificates with pairwise distinct moments and used in orient_rigid_invariant / orient_idempotent; the quantitative (perturbation) version for the ~1e-15 certified residuals is proved at the level of frames (eigframe_unique_approx: max|V' - V diag(+-1)| <= frameBound(e1, delta/gap)) - for the residuals seen in practice (e1 ~ 2e-15, e2 ~ 1.5e-15 scale, tau <= scale) and the relative gap >= 1e-3 demanded here that bound is ~1e-10 per frame entry - but is not yet propagated to the oriented coordinates, so the oracle's rigid-copy / idempotence tolerances (perturb_bounds: first order, factor 2) remain harness-derived",
    "source-derived evaluator (Model/OrientAst.lean): arrays of one call have equal lengths where numpy would demand it (weights vs rows are checked by the centring step exactly like np.average; "
    "elementwise products inside _inertial_tensor truncate to the shorter operand, unreachable after that check); tensor / column indices are the literals 0, 1, 2 (the translator rejects others); "
    "a read or in-place multiplication outside the array is an IndexError result, never a default",
    "'within the geometry rounding' = float_prep as implemented: rounding to 1e-8 and flushing |x| < 5^-9 = 5.12e-7 to zero",
    "call sequences: orientation is taken to be a function of the molecule it is applied to - every call in a sequence of related molecules made in one process must "
    "satisfy the property with that molecule's own masses, coordinates and fields; the caller's arguments, the unoriented molecule and molecules returned earlier must "
    "not be modified by any call (the property's 'preserves ... all non-geometric fields' read on the objects the caller holds). Histories explored: one process, "
    "4-8 relatives per family, 10-30 calls, preceded by the whole single-case stream; state that only shows across processes, threads, or after more than ~10^5 calls "
    "(e.g. eviction of a large cache) is not explored. Equality of two orientations of bit-identical input is demanded for asymmetric tops only (the rigid-copy claim at "
    "the identity motion), within rounding + the same floating-point allowance",
    "known finding C16-from-data-kwargs-into-input-dict: Molecule.from_data(dict, **options) writes the options into the caller's dict; reported under its own kind "
    "(exactly the options of that call were added, nothing else changed), every other modification of an argument is oracle:input_mutated",
    "rigid motions: integer-quaternion rotations x rational translations of up to 40 bohr (near copy) and of 10^2.5..10^6.5 bohr (far copy / far primary); "
    "longer translations are not generated: a floating-point allowance of 4e-15*(1+max|input coordinate|) bohr per coordinate (18 ulp of the input; "
    "(2n+1) roundings of the weighted mean at n = 12 are 2.8e-15) is granted to the implementation, and beyond ~3e6 bohr that allowance itself exceeds the 1e-8 rounding",
]
RULE = (
    "case = (shape class, symbols, masses mode [default | isotopes via mass_numbers | user masses | nonphysical masses], ghosts, "
    "geometry as exact doubles, non-geometric fields, integer quaternion + rational translation, entry path ctor/method/from_data); "
    "shapes: asymmetric (jittered lattice, 1-12 atoms), linear, planar, symmetric/spherical tops (C3..C6 rings, tetrahedral, octahedral), "
    "near-degenerate tops, and 'band' molecules with an early atom 2e-9..1e-4 bohr off a principal plane; each case yields 5 orientation "
    "calls (primary, geometry_noise=14, second pass, near rigid copy, FAR rigid copy), each a model line. The far copy uses a second integer "
    "quaternion and a translation of log-uniform length 10^2.5..10^6.5 bohr (axis-aligned | diagonal | generic direction, integer or k/3, k/7, k/8 "
    "components), and ~15% of the cases place the primary itself that far out (so second pass, sign convention and both copies start from a "
    "far input); every claim (distances, centre of mass, diagonal ascending inertia, same coordinates as the primary) is demanded of the far "
    "copy. Distinct by (shape, n, masses mode, path, quaternion, decider pattern, decade of the far translation, far primary); non-trivial when n >= 2. "
    "CALL-SEQUENCE stream (after the single cases, same process): family = one generated molecule + 3-7 relatives drawn from {same, other masses (default | user | "
    "nonphysical), ONE atom's mass changed, isotopes via mass_numbers, other ghosts, other non-geometric fields (name, comment, extras, labels, fragments, connectivity, "
    "fix_com/fix_orientation), conformer (1..n atoms displaced by 1e-7..0.3 bohr), atom permutation, other elements on the same coordinates, rigid copy, one atom removed, "
    "and combinations; relatives of relatives too} - relatives keep the coordinates BIT-IDENTICAL unless the variation is geometric. The calls of a family (each member at "
    "geometry_noise 8 and 14 at least once, plus random repeats at 6/8/10/12/14 through ctor | orient_molecule() | from_data, plus re-orientations of results returned "
    "earlier) are shuffled and interleaved; one unoriented Molecule per member serves all its orient_molecule() calls; one geometry buffer per atom count is overwritten "
    "and passed to every ctor/from_data call. Every call is a model line and is judged by the oracle with its own molecule's masses/fields: distances, centre of mass, "
    "diagonal ascending inertia, fields, sign convention (deciders from the geometry_noise=14 call on the same input), arguments / unoriented molecule / earlier results "
    "unmodified, repeated orientation of bit-identical input equal (asymmetric tops). Distinct by (shape, n, set of variations, number of calls). "
    "Every model line additionally carries the proved bounds (S, B_off, B_diag) of that call; for every validated call the exact inertia tensor of the implementation's output is compared with them "
    "(off-diagonal <= B_off + rounding term; consecutive moments descend by at most 2 B_diag + rounding terms; moments within B_diag + rounding term of the eigenvalues eigh returned). "
    "THREE-WAY: every model line also carries the exact comparison of the code regenerated from molecule.py on this run (centring vector, tensor handed to eigh, rotated geometry, returned geometry, geom_noise) "
    "with the hand model; any difference is a broken tie (mismatch:source_vs_model) naming the stage, and says which of the two the implementation's rounded output agrees with."
)
LEVEL_TEXT = (
    "proof (partial): centring, isometry, tensor transformation law, diagonal tensor with the certified eigenvalues as moments, the exact "
    "behaviour of the phase loop and untouched fields are proved for all inputs over any (ordered) field; idempotence and rigid invariance "
    "are proved in exact arithmetic for any two exact eigen-frame certificates, under the property's own qualifiers (pairwise distinct "
    "principal moments, an off-plane atom in every column); eigen-frame uniqueness is proved, not assumed. eigh is a parameter "
    "certified per call, and for the certificates it actually gets (residuals ~1e-15, not 0) explicit-bound versions are proved for every conclusion that is continuous in the certificate: "
    "centre of mass (independent of it), distances, diagonal inertia tensor with the eigenvalues as moments (bounds B_off, B_diag printed per call and used as the oracle's tolerance), ascending order up to 2 B_diag, "
    "and eigen-frame uniqueness up to signs within O(residual/gap) (frame level only: propagation to the oriented coordinates through the phase loop is not proved); "
    "floating point is tied by tolerance-based correspondence, not proved. That the result depends on nothing but the molecule is "
    "true of the model by construction (a pure function; orient_com_other_masses says when a frame computed for other masses would still pass); of the implementation "
    "it is only TESTED, on sampled call sequences within one process. "
    "REGENERATED FROM SOURCE (C16c): the bodies of _orient_molecule_internal and _inertial_tensor are re-read from molecule.py by `ast` on every run, emitted as an array-statement AST and evaluated over any ordered field "
    "with the source's in-place semantics; centre of mass, tensor handed to eigh, rotated frame, phase-fixed returned geometry are proved equal to the hand model for all inputs and all eigh outputs, and the headline theorems "
    "(centre of mass at the origin, diagonal ascending inertia under the certified relations, sign convention, idempotence, distances, rigid copies) are restated over the source-derived functions; the driver compares "
    "implementation, hand model and source-derived evaluation on every captured call. float_prep's array branch is regenerated and proved equal to the hand model's rounding as well. Not regenerated: the Molecule wrapper / entry points (hand model + oracle on fields), numpy's floating-point arithmetic (tolerances)."
)
TECHNIQUE = "Lean 4 proof over generic fields + source-to-AST translator with proved equality to the hand model + per-call eigen-frame certificate + exact-rational three-way differential correspondence + Python oracle"

_CERT = {"orth": 0.0, "diag_rel": 0.0}
# proved-bound oracle (Props/C16Approx.lean: inertia_diagonal_driver): largest observed |quantity| / tolerance, and the size of the proved bound
_PB = {"off": 0.0, "asc": 0.0, "mom": 0.0, "Bo_rel": 0.0, "Bd_rel": 0.0, "off14": 0.0, "slack_over_Bo": float("inf")}
NOISE = 1e-8
FLUSH8 = 5.0 ** -9
ISO = {"H": [2, 3], "C": [13, 14], "N": [15], "O": [17, 18], "F": [18], "S": [33, 34, 36], "Cl": [37], "Br": [81], "Li": [6], "B": [10], "Ne": [22], "Si": [29, 30]}
ELEMS = ["H", "H", "H", "C", "C", "N", "O", "O", "F", "S", "Cl", "Li", "B", "Ne", "Si", "P", "Na", "Mg", "Al", "Ar", "K", "Fe", "Cu", "Br", "Zn", "I", "Xe", "Au", "Pb", "U"]


# --------------------------------------------------------------------------------------
# eigh capture


class EighTap:
    """Record (tensor, eigenvalues, eigenvectors) of every numpy.linalg.eigh call."""

    def __init__(self):
        self.calls = []

    def __enter__(self):
        self.orig = np.linalg.eigh
        tap = self

        def eigh(a, *args, **kw):
            r = tap.orig(a, *args, **kw)
            tap.calls.append((np.array(a, dtype=float), np.array(r[0], dtype=float), np.array(r[1], dtype=float)))
            return r

        np.linalg.eigh = eigh
        return self

    def __exit__(self, *a):
        np.linalg.eigh = self.orig


# --------------------------------------------------------------------------------------
# exact helpers


def fr(x) -> Fr:
    return Fr(float(x))


def frs(x: Fr) -> str:
    return str(x.numerator) if x.denominator == 1 else f"{x.numerator}/{x.denominator}"


def quat_rot(q):
    a, b, c, d = q
    n = a * a + b * b + c * c + d * d
    R = [
        [a * a + b * b - c * c - d * d, 2 * (b * c - a * d), 2 * (b * d + a * c)],
        [2 * (b * c + a * d), a * a - b * b + c * c - d * d, 2 * (c * d - a * b)],
        [2 * (b * d - a * c), 2 * (c * d + a * b), a * a - b * b - c * c + d * d],
    ]
    return [[Fr(x, n) for x in row] for row in R]


def rigid(geom, q, t):
    """exact x R + t on the rational values of the doubles, then nearest doubles"""
    R = quat_rot(q)
    tt = [Fr(s) for s in t]
    out = []
    for p in geom:
        pf = [fr(v) for v in p]
        out.append([float(sum(pf[a] * R[a][b] for a in range(3)) + tt[b]) for b in range(3)])
    return out


# --------------------------------------------------------------------------------------
# generator


def _lattice_points(rng, n, dims=3, spacing=1.45, jitter=0.3, digits=None):
    side = 2 if n <= 6 else 3
    cells = [(i, j, k) for i in range(-side, side + 1) for j in range(-side, side + 1) for k in (range(-side, side + 1) if dims == 3 else [0])]
    pts = []
    for c in rng.sample(cells, n):
        d = digits if digits is not None else rng.choice([1, 3, 6, 10])
        pts.append([round(c[a] * spacing + rng.uniform(-jitter, jitter), d) for a in range(3)])
    return pts


def gen_geometry(rng, shape):
    """returns (list of [x,y,z], groups) where groups lists sets of atoms that must be the same nuclide"""
    if shape == "asym":
        n = rng.choice([1, 2, 3, 3, 4, 4, 5, 5, 6, 7, 8, 9, 10, 11, 12])
        return _lattice_points(rng, n), []
    if shape == "linear":
        n = rng.choice([2, 2, 3, 3, 4, 5, 6, 8])
        d = rng.choice([(0, 0, 1), (1, 0, 0), (1, 1, 0), (1, 2, 2), (2, -1, 3), (0, 3, 4)])
        a = [rng.randint(-3, 3) * 0.5 for _ in range(3)]
        ts = rng.sample(range(-8, 9), n)
        s = rng.choice([0.5, 0.75, 1.0])
        return [[a[k] + s * t * d[k] for k in range(3)] for t in ts], []
    if shape == "planar":
        n = rng.choice([3, 3, 4, 5, 6, 8, 10, 12])
        u, v = rng.choice([((1, 0, 0), (0, 1, 0)), ((1, 1, 0), (0, 0, 1)), ((1, 2, 2), (2, 1, -2)), ((2, -1, 0), (0, 0, 1)), ((1, 1, 1), (1, -1, 0))])
        base = _lattice_points(rng, n, dims=2, spacing=1.0, jitter=0.25, digits=2)
        a = [rng.randint(-2, 2) * 0.25 for _ in range(3)]
        return [[a[k] + p[0] * u[k] + p[1] * v[k] for k in range(3)] for p in base], []
    if shape in ("symtop", "neardeg"):
        kind = rng.choice(["ring3", "ring4", "ring4", "ring5", "ring6", "tetra", "octa"])
        pts, groups = [], []
        if kind.startswith("ring"):
            k = int(kind[4:])
            nax = rng.choice([0, 1, 2])
            for j in range(nax):
                pts.append([0.0, 0.0, round(rng.uniform(-1.0, 1.0) + 2.2 * j, 3)])
            nring = 1 if k >= 5 or rng.random() < 0.5 else 2
            for rr in range(nring):
                rad = round(rng.uniform(1.3, 2.6), 3)
                h = round(rng.uniform(-1.5, 1.5) - 3.0 * rr - 1.2, 3)
                ph = rng.choice([0.0, 0.3])
                idx = []
                for j in range(k):
                    if k == 4 and ph == 0.0:
                        c, s = [(1, 0), (0, 1), (-1, 0), (0, -1)][j]
                    else:
                        c, s = math.cos(ph + 2 * math.pi * j / k), math.sin(ph + 2 * math.pi * j / k)
                    idx.append(len(pts))
                    pts.append([rad * c, rad * s, h])
                groups.append(idx)
        elif kind == "tetra":
            r = rng.choice([1.0, 1.25, 2.0])
            pts = [[0.0, 0.0, 0.0]] + [[r * a, r * b, r * c] for a, b, c in [(1, 1, 1), (1, -1, -1), (-1, 1, -1), (-1, -1, 1)]]
            groups = [[1, 2, 3, 4]]
        else:
            r = rng.choice([1.5, 2.0, 2.75])
            pts = [[0.0, 0.0, 0.0]] + [[r * a, r * b, r * c] for a, b, c in [(1, 0, 0), (-1, 0, 0), (0, 1, 0), (0, -1, 0), (0, 0, 1), (0, 0, -1)]]
            groups = [[1, 2, 3, 4, 5, 6]]
        if shape == "neardeg":
            eps = rng.choice([1e-6, 1e-5, 1e-4, 1e-3])
            pts = [[v + rng.uniform(-eps, eps) for v in p] for p in pts]
        order = list(range(len(pts)))
        rng.shuffle(order)
        inv = {o: i for i, o in enumerate(order)}
        return [pts[o] for o in order], [[inv[i] for i in g] for g in groups]
    if shape == "band":
        # built in its principal frame: mirror pairs (x, y, +-z) make z a principal axis; one early atom sits delta off the plane
        npair = rng.choice([1, 2, 2, 3, 4])
        delta = rng.choice([2e-9, 8e-9, 1.2e-8, 3e-8, 2e-7, 4.5e-7, 6e-7, 3e-6, 1e-4]) * rng.choice([-1, 1]) * rng.uniform(0.8, 1.2)
        pts, groups = [], []
        near = [round(rng.uniform(-2, 2), 2), round(rng.uniform(-2, 2), 2), delta]
        for j in range(npair):
            x, y, z = round(rng.uniform(-3, 3), 2), round(rng.uniform(-3, 3) + 0.01 * j, 2), round(rng.uniform(0.6, 2.5), 2)
            x += 3.3 * (j % 2) * rng.choice([-1, 1])
            i0 = len(pts)
            pair = [[x, y, -z], [x, y, z]]
            rng.shuffle(pair)
            pts += pair
            groups.append([i0, i0 + 1])
        pos = rng.choice([0, 0, 0, 1])
        pts.insert(pos, near)
        groups = [[i + (1 if i >= pos else 0) for i in g] for g in groups]
        if rng.random() < 0.4:
            pts.append([round(rng.uniform(-4, 4), 2), round(rng.uniform(4.2, 5), 2), 0.0])
        return pts, groups
    raise ValueError(shape)


def min_dist(pts):
    m = 1e9
    for i in range(len(pts)):
        for j in range(i):
            m = min(m, math.dist(pts[i], pts[j]))
    return m


def gen_case(rng, shape):
    for _ in range(50):
        pts, groups = gen_geometry(rng, shape)
        if len(pts) <= 12 and (len(pts) < 2 or min_dist(pts) > 0.75):
            break
    else:
        pts, groups = _lattice_points(rng, 3), []
    n = len(pts)
    symbols = [rng.choice(ELEMS) for _ in range(n)]
    for g in groups:
        for i in g:
            symbols[i] = symbols[g[0]]
    mode = rng.choice(["default", "default", "isotopes", "user", "nonphysical"])
    kw = {"symbols": symbols}
    if mode == "isotopes":
        import qcelemental as qcel

        A = [(rng.choice(ISO[s]) if (s in ISO and rng.random() < 0.6) else -1) for s in symbols]
        for g in groups:
            for i in g:
                A[i] = A[g[0]]
        kw["mass_numbers"] = A
    elif mode in ("user", "nonphysical"):
        import qcelemental as qcel

        ms = []
        for s in symbols:
            m0 = float(qcel.periodictable.to_mass(s))
            if mode == "user":
                ms.append(round(m0 + rng.uniform(-0.4, 0.4), rng.choice([2, 6, 10])))
            else:
                ms.append(round(rng.choice([rng.uniform(0.6, 3.0), rng.uniform(3, 60), rng.uniform(60, 400)]), rng.choice([1, 5, 9])))
        for g in groups:
            for i in g:
                ms[i] = ms[g[0]]
        kw["masses"] = ms
        if mode == "nonphysical":
            kw["nonphysical"] = True
    if rng.random() < 0.3 and n >= 2:
        real = [rng.random() > 0.3 for _ in range(n)]
        if not any(real):
            real[0] = True
        for g in groups:
            for i in g:
                real[i] = real[g[0]]
        kw["real"] = real
    # non-geometric payload
    if rng.random() < 0.5:
        kw["name"] = "mol%d" % rng.randint(0, 999)
    if rng.random() < 0.3:
        kw["comment"] = "c16 case"
    if rng.random() < 0.3:
        kw["id"] = rng.choice(["42", "mol-7f3a", 12345])  # optional bookkeeping fields are non-geometric fields like any other
    if rng.random() < 0.2:
        kw["identifiers"] = {"molecular_formula": "X", "smiles": "C"}
    if rng.random() < 0.3:
        kw["extras"] = {"tag": rng.randint(0, 9), "nested": {"k": [1, 2.5]}}
    if rng.random() < 0.3:
        kw["atom_labels"] = [rng.choice(["", "a", "b2", "x_1"]) for _ in range(n)]
    if rng.random() < 0.3 and n >= 2:
        bonds = set()
        for _ in range(rng.randint(1, min(4, n))):
            i, j = rng.sample(range(n), 2)
            bonds.add((min(i, j), max(i, j)))
        kw["connectivity"] = [[i, j, float(rng.choice([1, 1.5, 2]))] for i, j in sorted(bonds)]
    if rng.random() < 0.3 and n >= 2:
        cut = rng.randint(1, n - 1)
        kw["fragments"] = [list(range(cut)), list(range(cut, n))]
    if rng.random() < 0.4:
        kw["fix_com"] = rng.random() < 0.5
        kw["fix_orientation"] = rng.random() < 0.5
    if "fragments" not in kw and rng.random() < 0.4:
        # an explicit, valid total charge and multiplicity (non-geometric fields that orientation must leave alone; through from_data
        # they are passed as options of the call every other time)
        import qcelemental as qcel

        ne = sum(int(qcel.periodictable.to_Z(sy)) for sy, rl in zip(symbols, kw.get("real", [True] * n)) if rl)
        c = rng.choice([0, 0, 1, -1, 2])
        if ne - c >= 0:
            lo = 1 + (ne - c) % 2
            kw["molecular_charge"] = float(c)
            kw["molecular_multiplicity"] = lo + (2 if (rng.random() < 0.3 and ne - c >= lo + 1) else 0)
    q = [rng.randint(-6, 6) for _ in range(4)]
    if not any(q):
        q = [1, 2, -1, 3]
    if rng.random() < 0.1:
        q = rng.choice([[1, 0, 0, 0], [0, 1, 0, 0], [1, 1, 0, 0], [1, 1, 1, 1]])
    t = ["%d/%d" % (rng.randint(-40, 40), rng.choice([1, 2, 3, 7, 8, 10])) for _ in range(3)]
    if shape == "band" or rng.random() < 0.5:
        # present the molecule in a tilted frame so that the input coordinates themselves are generic
        q0 = [rng.randint(-5, 5) for _ in range(4)]
        if not any(q0):
            q0 = [2, 1, 1, -1]
        pts = rigid(pts, q0, ["%d/4" % rng.randint(-8, 8) for _ in range(3)])
    path = rng.choice(["ctor", "ctor", "method", "from_data"])
    # position in space: a far rigid copy for every case, and sometimes a far primary
    qf = [rng.randint(-6, 6) for _ in range(4)]
    if not any(qf) or rng.random() < 0.15:
        qf = rng.choice([[1, 0, 0, 0], [1, 0, 0, 0], [0, 0, 1, 0], [1, 1, 0, 0], [1, -1, 1, 1]])
    tf = far_trans(rng)
    if rng.random() < 0.15:
        pts = rigid(pts, [1, 0, 0, 0], far_trans(rng))
    return {"shape": shape, "kw": kw, "geometry": [[float(v) for v in p] for p in pts], "quat": q, "trans": t, "path": path,
            "quat_far": qf, "trans_far": tf}


def far_trans(rng):
    """translation of log-uniform length 10^2.5 .. 10^6.5 bohr as exact rationals (strings)"""
    mag = 10.0 ** rng.uniform(2.5, 6.5)
    mode = rng.choice(["axis", "diag", "generic", "generic"])
    if mode == "axis":
        comps = [0.0, 0.0, 0.0]
        comps[rng.randrange(3)] = mag * rng.choice([-1, 1])
    elif mode == "diag":
        comps = [mag * rng.choice([-1, 1]) for _ in range(3)]
    else:
        v = [rng.uniform(-1, 1) for _ in range(3)]
        top = max(abs(x) for x in v) or 1.0
        comps = [mag * x / top for x in v]
    den = rng.choice([1, 1, 3, 7, 8])
    return ["%d/%d" % (int(round(c * den)), den) for c in comps]


def trans_len(t):
    return max(abs(float(Fr(s))) for s in t)


SHAPES = ["asym"] * 8 + ["planar"] * 3 + ["linear"] * 2 + ["symtop"] * 3 + ["neardeg"] * 2 + ["band"] * 4


# --------------------------------------------------------------------------------------
# running the implementation


def _quiet():
    return contextlib.redirect_stdout(io.StringIO())


def build_kwargs(case, geometry):
    kw = dict(case["kw"])
    kw["geometry"] = np.array(geometry, dtype=float).ravel()
    return kw


def orient_call(path, kw, noise=None):
    """one orientation through the requested entry path; returns (input geometry seen by orient, masses, molecule, eigh calls)"""
    from qcelemental.models import Molecule

    extra = {} if noise is None else {"geometry_noise": noise}
    with _quiet():
        if path == "method":
            base = Molecule(**kw)
            gin = np.array(base.geometry, dtype=float)
            with EighTap() as tap:
                if noise is None:
                    mol = base.orient_molecule()
                else:
                    mol = Molecule(orient=True, **extra, **base.dict())
        elif path == "from_data":
            gin = np.array(kw["geometry"], dtype=float).reshape(-1, 3)
            d = dict(kw)
            # the charge / multiplicity of the record given as keyword OPTIONS of from_data instead of dictionary entries (every other
            # call; decided by the geometry so that a replay makes the same choice): options must combine, orient=True included
            opt = {k: d.pop(k) for k in ("molecular_charge", "molecular_multiplicity", "fragment_charges", "fragment_multiplicities")
                   if k in d and int(abs(float(gin.ravel()[0])) * 1e6) % 2 == 0}
            with EighTap() as tap:
                mol = Molecule.from_data(d, orient=True, **extra, **opt)
        else:
            gin = np.array(kw["geometry"], dtype=float).reshape(-1, 3)
            with EighTap() as tap:
                mol = Molecule(orient=True, **extra, **kw)
    return gin, np.array(mol.masses, dtype=float), mol, tap.calls


def model_line(d, masses, gin, call):
    T, w, V = call
    return "orient|%d|%s|%s|%s|%s" % (
        d,
        " ".join(frs(fr(m)) for m in masses),
        " ".join(frs(fr(v)) for v in np.asarray(gin).ravel()),
        " ".join(frs(fr(v)) for v in V.ravel()),
        " ".join(frs(fr(v)) for v in w),
    )


# --------------------------------------------------------------------------------------
# oracle (implementation only)


def coord_err(out, d, L):
    """per-coordinate bound on |out - exact| implied by float_prep(., d): half a unit, or the flush band where out == 0"""
    half = 0.5 * 10.0 ** -d
    flush = 5.0 ** -(d + 1) + 10.0 ** -d
    e = np.where(out == 0.0, flush, half)
    return e + 4e-15 * (1.0 + L)


def own_tensor(m, g):
    x, y, z = g[:, 0], g[:, 1], g[:, 2]
    T = np.zeros((3, 3))
    T[0, 0] = np.sum(m * (y * y + z * z))
    T[1, 1] = np.sum(m * (x * x + z * z))
    T[2, 2] = np.sum(m * (x * x + y * y))
    T[0, 1] = T[1, 0] = -np.sum(m * x * y)
    T[0, 2] = T[2, 0] = -np.sum(m * x * z)
    T[1, 2] = T[2, 1] = -np.sum(m * y * z)
    return T


def classify(m, G):
    """asym / degenerate / near from the moments of the input (own tensor, eigvalsh)"""
    c = (m[:, None] * G).sum(0) / m.sum()
    T = own_tensor(m, G - c)
    lam = np.linalg.eigvalsh(T)
    top = max(lam[2], 1e-300)
    gaps = [(lam[1] - lam[0]) / top, (lam[2] - lam[1]) / top]
    if len(m) == 1:
        return "atom", lam, gaps
    if min(gaps) >= 1e-3:
        return "asym", lam, gaps
    if min(gaps) <= 1e-9:
        return "degenerate", lam, gaps
    return "near", lam, gaps


def base_claims(tag, m, G, out, d):
    """distances, centre of mass, diagonal + ascending inertia of `out` (an oriented image of G rounded at d decimals).
    returns list of (clause, message)"""
    bad = []
    n = len(m)
    G, out = np.asarray(G), np.asarray(out)
    if G.shape != (n, 3) or out.shape != (n, 3):
        # (a result of the wrong shape handed back in as an input lands here too)
        return [("fields", f"{tag}: geometry is not an (n, 3) array of the molecule's {n} atoms: input {G.shape}, oriented {out.shape}")]
    M = m.sum()
    c = (m[:, None] * G).sum(0) / M
    # floating-point allowance: 4e-15 * (1 + size of the numbers the implementation had to work with), i.e. of the input
    # coordinates themselves (far-away molecules) as well as of the centred ones
    L = max(float(np.abs(G - c).max()), float(np.abs(G).max())) if n else 0.0
    e = coord_err(out, d, L)
    # distances
    for i in range(n):
        for j in range(i):
            d0 = math.dist(G[i], G[j])
            d1 = math.dist(out[i], out[j])
            tol = float(e[i].sum() + e[j].sum())
            if abs(d1 - d0) > tol:
                bad.append(("distances", f"{tag}: |r{i}-r{j}| {d0!r} -> {d1!r} (tol {tol:.2e})"))
                break
        if bad:
            break
    # centre of mass
    com = (m[:, None] * out).sum(0) / M
    ctol = (m[:, None] * e).sum(0) / M
    if np.any(np.abs(com) > ctol):
        bad.append(("com", f"{tag}: centre of mass {com.tolist()} (tol {ctol.tolist()})"))
    # inertia
    T = own_tensor(m, out)
    scale = float(np.sum(m * (out * out).sum(1)))
    slack = 2e-13 * (scale + 1.0)
    A = np.abs(out)
    for a in range(3):
        for b in range(a):
            tol = float(np.sum(m * (A[:, a] * e[:, b] + A[:, b] * e[:, a] + e[:, a] * e[:, b]))) + slack
            if abs(T[a, b]) > tol:
                bad.append(("inertia_offdiag", f"{tag}: I[{a}{b}] = {T[a, b]!r} (tol {tol:.2e})"))
    dtol = [float(np.sum(m * sum(2 * A[:, k] * e[:, k] + e[:, k] ** 2 for k in range(3) if k != a))) + slack for a in range(3)]
    for a in range(2):
        if T[a, a] > T[a + 1, a + 1] + dtol[a] + dtol[a + 1]:
            bad.append(("moments_ascending", f"{tag}: I[{a}{a}] = {T[a, a]!r} > I[{a+1}{a+1}] = {T[a+1, a+1]!r}"))
    return bad


def deciders(H):
    """per column: (index, value) of the first atom with |H| >= NOISE in the high-resolution oriented geometry;
    index None: no off-plane atom; 'knife' when some examined value is within 1e-12 of the threshold"""
    res = []
    for c in range(3):
        r = (None, 0.0)
        for i in range(H.shape[0]):
            v = float(H[i, c])
            if abs(abs(v) - NOISE) < 1e-12:
                r = ("knife", v)
                break
            if abs(v) >= NOISE:
                r = (i, v)
                break
        res.append(r)
    return res


def cmp_dicts(a, b, skip=("geometry",)):
    diffs = []
    for k in sorted(set(a) | set(b)):
        if k in skip:
            continue
        if k not in a or k not in b:
            diffs.append(k)
            continue
        va, vb = a[k], b[k]
        try:
            same = json.dumps(_plain(va), sort_keys=True) == json.dumps(_plain(vb), sort_keys=True)
        except Exception:
            same = repr(va) == repr(vb)
        if not same:
            diffs.append(k)
    return diffs


def _plain(v):
    if isinstance(v, np.ndarray):
        return [_plain(x) for x in v.tolist()]
    if isinstance(v, (list, tuple)):
        return [_plain(x) for x in v]
    if isinstance(v, dict):
        return {str(k): _plain(x) for k, x in v.items()}
    if isinstance(v, (np.integer,)):
        return int(v)
    if isinstance(v, (np.floating,)):
        return float(v)
    if isinstance(v, (np.bool_,)):
        return bool(v)
    return v


# --------------------------------------------------------------------------------------
# oracle clauses whose tolerance is the PROVED bound printed by the driver (field B of the model line)
#
# Props/C16Approx.lean `inertia_diagonal_driver`: for the call's own exact residuals r = (|VtV-1|, |VVt-1|, |VtTV-diag l|) and
# S = sum |m_i| |x_i - c|^2, the inertia tensor I of the model's oriented geometry g (exact, before float_prep; any column signs)
# satisfies |I_ab| <= B_off = r3 + r1 S (a /= b) and |I_aa - l_a| <= B_diag = r3 + (3 r2 + r1) S.  The implementation's output `out`
# is float_prep(g) up to the stated floating-point allowance, |out - g| <= e = coord_err (half a unit of 10^-d, or the flush band
# where out == 0, plus 4e-15 (1 + max|x|)); hence, exactly,
#     |I_ab(out)|        <= B_off  + sum |m| (|out_a| e_b + |out_b| e_a + e_a e_b)
#     |I_aa(out) - l_a|  <= B_diag + sum |m| sum_{k /= a} (2 |out_k| e_k + e_k^2)
#     I_aa(out) <= I_bb(out) + 2 B_diag + (both rounding terms)          for consecutive a < b, l certified ascending.
# The tensor of `out` is evaluated EXACTLY (integers: every double times 2^1074), so no allowance for the oracle's own arithmetic.
# These clauses are in addition to base_claims (whose ad-hoc slack 2e-13 (scale + 1) stays as it was): the tighter one decides.

_SH = 1074


def _sint(v, k=1):
    """the double v times 2**(1074 k) as an exact integer (the denominator of a double is a power of two <= 2**1074)"""
    n, dd = float(v).as_integer_ratio()
    return n * ((1 << (_SH * k)) // dd)


def proved_bound_claims(tag, m, G, out, d, w, B30, asc):
    """returns list of (kind, message); kinds 'oracle:*' are property violations, 'mismatch:*' a broken tie"""
    bad = []
    S30, Bo30, Bd30 = B30
    up = 1.0 + 1e-9
    Bo, Bd = Bo30 / 1e30 * up, Bd30 / 1e30 * up
    m = np.asarray(m, dtype=float)
    n = len(m)
    c = (m[:, None] * G).sum(0) / m.sum()
    L = max(float(np.abs(G - c).max()), float(np.abs(G).max())) if n else 0.0
    e = coord_err(out, d, L) + 2e-20  # 2e-20: the model geometry is printed as floor(y 1e20); then |out - g| <= e is exactly what the per-coordinate tie verifies
    A = np.abs(out)
    am = np.abs(m)
    mi = [_sint(v) for v in m]
    X = [[_sint(v) for v in out[:, k]] for k in range(3)]
    den = 1 << (3 * _SH)
    scale = float(np.sum(am * (out * out).sum(1)))
    slack_old = 2e-13 * (scale + 1.0)
    _PB["Bo_rel"] = max(_PB["Bo_rel"], Bo / (scale + 1.0))
    _PB["Bd_rel"] = max(_PB["Bd_rel"], Bd / (scale + 1.0))
    if Bo > 0:
        _PB["slack_over_Bo"] = min(_PB["slack_over_Bo"], slack_old / Bo)
    # off-diagonal entries against B_off
    for a in range(3):
        for b in range(a):
            Tab = -sum(mm * x * y for mm, x, y in zip(mi, X[a], X[b]))
            rnd = float(np.sum(am * (A[:, a] * e[:, b] + A[:, b] * e[:, a] + e[:, a] * e[:, b])))
            tol = (Bo + rnd) * up
            ti = _sint(tol, 3)
            if ti > 0:
                r = abs(Tab) / ti
                _PB["off"] = max(_PB["off"], r)
                if d == 14:
                    _PB["off14"] = max(_PB["off14"], r)
            if abs(Tab) > ti:
                bad.append(("oracle:inertia_offdiag", f"{tag}: I[{a}{b}] = {abs(Tab) / den!r} exceeds the PROVED bound B_off = {Bo:.3e} (certified residuals, Props/C16Approx.lean) "
                            f"+ rounding term {rnd:.3e} of geometry_noise={d} (the ad-hoc slack of the plain clause would be {slack_old:.3e})"))
    # diagonal entries against the eigenvalues eigh returned, and their order
    Taa, drnd = [], []
    for a in range(3):
        others = [k for k in range(3) if k != a]
        Taa.append(sum(mm * (X[others[0]][i] ** 2 + X[others[1]][i] ** 2) for i, mm in enumerate(mi)))
        drnd.append(float(np.sum(am * sum(2 * A[:, k] * e[:, k] + e[:, k] ** 2 for k in others))))
    for a in range(3):
        tol = (Bd + drnd[a]) * up
        ti = _sint(tol, 3)
        dev = abs(Taa[a] - _sint(w[a], 3))
        if ti > 0:
            _PB["mom"] = max(_PB["mom"], dev / ti)
        if dev > ti:
            bad.append(("mismatch:moments", f"{tag}: moment I[{a}{a}] = {Taa[a] / den!r} of the implementation's oriented geometry differs from the eigenvalue {float(w[a])!r} eigh returned "
                        f"by {dev / den:.3e} > PROVED B_diag = {Bd:.3e} + rounding term {drnd[a]:.3e}"))
    if asc == 1:
        for a in range(2):
            tol = (2 * Bd + drnd[a] + drnd[a + 1]) * up
            ti = _sint(tol, 3)
            if ti > 0 and Taa[a] > Taa[a + 1]:
                _PB["asc"] = max(_PB["asc"], (Taa[a] - Taa[a + 1]) / ti)
            if Taa[a] - Taa[a + 1] > ti:
                bad.append(("oracle:moments_ascending", f"{tag}: I[{a}{a}] = {Taa[a] / den!r} > I[{a+1}{a+1}] = {Taa[a + 1] / den!r} by more than the PROVED 2 B_diag = {2 * Bd:.3e} "
                            f"+ rounding terms {drnd[a] + drnd[a + 1]:.3e}"))
    return bad


# --------------------------------------------------------------------------------------
# correspondence of one captured call


def tie_call(tag, d, masses, gin, call, out_geom, line):
    """compare one model line with the implementation; returns (list of (kind, message), knife: bool)"""
    T, w, V = call
    bad = []
    if np.asarray(gin).shape != (len(masses), 3) or np.asarray(out_geom).shape != (len(masses), 3):
        return [("mismatch:geometry", f"{tag}: geometry handed to / returned by the orientation is not an (n, 3) array of the {len(masses)} atoms: "
                 f"input {np.asarray(gin).shape}, output {np.asarray(out_geom).shape}")], False
    if line.startswith("err") or line == "bad-op":
        return [("mismatch", f"{tag}: model says {line!r}, implementation returned a geometry")], False
    parts = line.split("|")
    if len(parts) != 8 or parts[0] != "ok" or not parts[7].startswith("src "):
        return [("mismatch", f"{tag}: unparsable model line {line[:80]!r}")], False
    # three-way: the code regenerated from molecule.py on this run (Gen/OrientSrc.lean, evaluated exactly at Q) against the hand model
    src_head, _, src_extra = parts[7].partition(";")
    src_flags = src_head.split()[1:]
    if len(src_flags) != 6 or any(f not in ("0", "1") for f in src_flags):
        return [("mismatch", f"{tag}: unparsable source-derived field {parts[7][:80]!r}")], False
    if src_flags != ["1"] * 6:
        stages = [nm for nm, f in zip(("centring vector", "tensor handed to eigh", "rotated geometry", "returned geometry", "geom_noise", "float_prep of the returned geometry"), src_flags) if f == "0"]
        agree = ""
        if src_flags[3] == "0" and d == 8:
            try:
                Ks = [int(x) for x in src_extra.split()] if not src_extra.startswith("err") else None
                Km = [int(x) for x in parts[1].split()]
                impl = [int(round(float(v) * 1e8)) for v in np.asarray(out_geom, dtype=float).ravel()]
                agree = "; implementation's rounded output equals: hand model %s, source-derived %s" % (
                    impl == Km, (impl == Ks) if Ks is not None else "n/a (source-derived evaluation raises %s)" % src_extra)
            except Exception:  # noqa
                agree = ""
        bad.append(("mismatch:source_vs_model", f"{tag}: code regenerated from molecule.py differs from the hand model in: {', '.join(stages)}{agree}"))
    K = [int(x) for x in parts[1].split()]
    Y = [int(x) for x in parts[2].split()]
    S = parts[3].split()
    R = [int(x) for x in parts[4].split()]
    Tm = [int(x) for x in parts[5].split()]
    B30 = [int(x) for x in parts[6].split()]
    if len(B30) != 3:
        return [("mismatch", f"{tag}: model returned {len(B30)} bound fields")], False
    n = len(masses)
    if len(K) != 3 * n or len(Y) != 3 * n:
        return [("mismatch", f"{tag}: model returned {len(K)} coordinates for {n} atoms")], False
    m = np.asarray(masses, dtype=float)
    c = (m[:, None] * gin).sum(0) / m.sum()
    L = float(np.abs(gin - c).max())
    # floating-point window (bohr) on any oriented coordinate: as before relative to the extent of the molecule, and never less
    # than 18 ulp of the input coordinates themselves (molecules far from the origin: the centre of mass carries that error)
    fpw = max(1e-12 * (1.0 + L), 4e-15 * (1.0 + float(np.abs(gin).max())))
    fpY = fpw * 1e20
    scale = float(np.sum(m * ((gin - c) ** 2).sum(1))) + 1.0
    # tensor handed to eigh
    Tmod = [x / 1e12 for x in Tm]
    Timp = [T[0, 0], T[0, 1], T[0, 2], T[1, 1], T[1, 2], T[2, 2]]
    if not np.allclose(T, T.T, rtol=0, atol=0):
        bad.append(("mismatch:tensor", f"{tag}: tensor handed to eigh is not symmetric"))
    for a, b_ in zip(Timp, Tmod):
        if abs(a - b_) > 2e-12 * scale + 2e-12:
            bad.append(("mismatch:tensor", f"{tag}: tensor handed to eigh {Timp} vs model {Tmod}"))
            break
    # certificate
    ro, ro2, rd, asc = R[0] / 1e20, R[1] / 1e20, R[2] / 1e20, R[3]
    _CERT["orth"] = max(_CERT["orth"], ro, ro2)
    _CERT["diag_rel"] = max(_CERT["diag_rel"], rd / scale)
    if ro > 1e-13 or ro2 > 1e-13 or rd > 1e-12 * scale or asc != 1:
        bad.append(("mismatch:certificate", f"{tag}: eigen-frame certificate fails against the model tensor: |VtV-1|={ro:.2e} |VVt-1|={ro2:.2e} |VtTV-diag|={rd:.2e} (scale {scale:.2e}) ascending={asc}"))
    # the property's inertia clauses with the PROVED tolerance for this call's certificate (independent of the phase decisions:
    # column signs change neither |I_ab| nor I_aa), validated molecules only
    if tag != "zero_mass":
        bad += proved_bound_claims(tag, m, np.asarray(gin, dtype=float), np.asarray(out_geom, dtype=float).reshape(-1, 3), d, w, B30, asc)
    # knife edges of the phase decision
    knife = False
    for col in range(3):
        dec = int(S[3 + col])
        last = dec if dec >= 0 else n - 1
        for i in range(last + 1):
            if abs(abs(Y[3 * i + col]) - 10**12) < fpY:  # | |y| - 1e-8 | < fpw = 1e-12 (1+L) for molecules near the origin
                knife = True
    if knife:
        return bad, True
    out = np.asarray(out_geom, dtype=float).reshape(-1, 3)
    if d == 8:
        for i in range(n):
            for col in range(3):
                y12 = Y[3 * i + col] % 10**12  # fractional part of y*1e8 in units of 1e-12
                if abs(y12 - 5 * 10**11) < fpY or fpY >= 2.5e11:
                    # rounding tie within the floating-point window (1e-4 (1+L) units near the origin), or an input so far away
                    # that the window is a sizeable part of a unit: the rounded value is not determined, compare with tolerance
                    y = Y[3 * i + col] / 1e20
                    o = float(out[i, col])
                    if not (abs(o - y) <= 0.5e-8 + fpw + 1e-20 or (o == 0.0 and abs(y) < FLUSH8 + 1e-8 + fpw)):
                        bad.append(("mismatch:geometry", f"{tag}: atom {i} column {col}: implementation {o!r}, model exact {y!r} (window {fpw:.1e})"))
                        return bad, False
                    continue
                exp = K[3 * i + col] / 1e8
                if float(out[i, col]) != exp:
                    bad.append(("mismatch:geometry", f"{tag}: atom {i} column {col}: implementation {float(out[i, col])!r}, model {exp!r} (exact {Y[3*i+col]/1e20!r})"))
                    return bad, False
    else:
        half = 0.5 * 10.0**-d
        flush = 5.0 ** -(d + 1)
        for i in range(n):
            for col in range(3):
                y = Y[3 * i + col] / 1e20
                o = float(out[i, col])
                f14 = 4e-15 * (1.0 + max(L, float(np.abs(gin).max())))
                ok = abs(o - y) <= half + 1e-20 + f14 or (o == 0.0 and abs(y) < flush + 2 * half + f14)
                if not ok:
                    bad.append(("mismatch:geometry", f"{tag}: atom {i} column {col}: implementation {o!r}, model exact {y!r} (geometry_noise={d})"))
                    return bad, False
    return bad, False


# --------------------------------------------------------------------------------------
# one case


def run_case(ctx, out: Outcome, case, use_model=True):
    from qcelemental.models import Molecule

    findings_v, findings_m = [], []
    path = case["path"]
    G0 = np.array(case["geometry"], dtype=float)
    kw = build_kwargs(case, G0)
    try:
        with _quiet():
            base = Molecule(**kw)
    except Exception as e:  # generator produced something validation refuses: not a case
        out.count("discarded:" + err_class(e))
        return
    out.evaluations += 1
    shape = case["shape"]
    out.count("shape:" + shape)
    out.count("path:" + path)
    out.count("n:%d" % len(G0))
    mode = "nonphysical" if "nonphysical" in case["kw"] else "user" if "masses" in case["kw"] else "isotopes" if "mass_numbers" in case["kw"] else "default"
    out.count("masses:" + mode)
    if "real" in case["kw"]:
        out.count("with_ghosts")
    V = lambda kind, msg, obs=None: findings_v.append(Finding(kind, case, observed=obs, detail=msg))  # noqa

    calls = []  # (tag, d, masses, gin, eigh call, output geometry)

    def do(tag, pth, kw_, noise=None):
        gin, ms, mol, ec = orient_call(pth, kw_, noise)
        if len(ec) != 1:
            findings_m.append(Finding("mismatch:eigh_calls", case, observed=len(ec), expected=1, detail=f"{tag}: expected exactly one numpy.linalg.eigh call per orientation"))
        else:
            calls.append((tag, 8 if noise is None else noise, ms, gin, ec[0], np.array(mol.geometry, dtype=float)))
        return gin, ms, mol

    try:
        gin, m, mol1 = do("primary", path, kw)
        _, _, molH = do("hires", path, kw, noise=14)
        O = np.array(mol1.geometry, dtype=float)
        H = np.array(molH.geometry, dtype=float)
        with _quiet(), EighTap() as tap2:
            mol2 = mol1.orient_molecule()
        O2 = np.array(mol2.geometry, dtype=float)
        if len(tap2.calls) == 1:
            calls.append(("second", 8, np.array(mol1.masses, dtype=float), O.copy(), tap2.calls[0], O2))
        Gr = np.array(rigid(G0, case["quat"], case["trans"]), dtype=float)
        ginr, _, molR = do("rigid", path, build_kwargs(case, Gr))
        OR = np.array(molR.geometry, dtype=float)
        Gf = ginf = OF = None
        if case.get("trans_far"):
            Gf = np.array(rigid(G0, case["quat_far"], case["trans_far"]), dtype=float)
            ginf, _, molF = do("far", path, build_kwargs(case, Gf))
            OF = np.array(molF.geometry, dtype=float)
    except Exception as e:
        V("oracle:raises", f"orientation of a validated molecule raised {type(e).__name__}: {e}")
        out.violations += findings_v
        return
    # an oriented geometry is an (n, 3) array of the SAME atoms (every clause below compares atom by atom)
    for tg_, X_, Gi_ in (("primary", O, gin), ("hires", H, gin), ("second", O2, O), ("rigid", OR, ginr), ("far", OF, ginf)):
        if X_ is not None and X_.shape != np.asarray(Gi_).shape:
            V("oracle:fields", f"{tg_}: shape of geometry changed by orientation: {np.asarray(Gi_).shape} -> {X_.shape}")
    if findings_v:
        out.violations += findings_v
        return

    cls, lam, gaps = classify(m, gin)
    out.count("class:" + cls)
    if calls and calls[0][0] == "primary":
        # the spectral gap that licenses the uniqueness hypotheses: eigh's eigenvalues agree with the oracle's own
        w = calls[0][4][1]
        if np.any(np.abs(w - lam) > 1e-10 * (1.0 + abs(lam[2]))):
            findings_m.append(Finding("mismatch:eigenvalues", case, observed=w.tolist(), expected=lam.tolist(), detail="eigenvalues returned by eigh differ from the moments of the centred input"))
        elif cls == "asym":
            out.count("spectral_gap_certified(rel>=1e-3)")
    mb = np.array(base.masses, dtype=float)
    if mb.shape != m.shape or np.any(mb != m):
        V("oracle:fields", "masses of the oriented molecule differ from the masses of the unoriented one")
        m = mb
    # --- base claims on every output
    outs = [("primary", gin, O, 8), ("hires", gin, H, 14), ("second", O, O2, 8), ("rigid", ginr, OR, 8)]
    far_primary = float(np.abs(G0).max()) >= 300.0
    if far_primary:
        out.count("far_primary")
        out.count("far_primary:|x|~1e%d" % int(math.floor(math.log10(float(np.abs(G0).max())))))
    fdec = None
    if OF is not None:
        fdec = int(math.floor(math.log10(trans_len(case["trans_far"]))))
        out.count("far_copy")
        out.count("far_copy:|t|~1e%d" % fdec)
        outs.append(("far copy (|t| = %.1e bohr)" % trans_len(case["trans_far"]), ginf, OF, 8))
        diffsF = cmp_dicts(base.dict(), molF.dict())
        if diffsF:
            V("oracle:fields", f"fields changed by orientation of the far copy: {diffsF}")
    for tag, Gin, Out, d in outs:
        for clause, msg in base_claims(tag, m, Gin, Out, d):
            V("oracle:" + clause, msg)
    # --- sign convention
    dec = deciders(H)
    dkey = []
    band_cols = []
    for c in range(3):
        i, v = dec[c]
        if i == "knife":
            out.count("knife:oracle_phase")
            dkey.append("k")
            continue
        if i is None:
            dkey.append("-")
            continue
        dkey.append(str(i) if i < 3 else "3+")
        if v < 0:
            V("oracle:sign_convention", f"column {c}: first atom off the plane (atom {i}, {v!r}) is negative in the oriented geometry (geometry_noise=14)")
        if O[i, c] == 0.0:
            band_cols.append(c)
    for c in range(3):
        nz = [i for i in range(len(m)) if O[i, c] != 0.0]
        if nz and O[nz[0], c] < 0 and dec[c][0] != "knife":
            if c in band_cols:
                V("oracle:sign_convention_flushed_decider", f"column {c}: atom {dec[c][0]} ({dec[c][1]!r}) decided the sign but is printed as 0; the first atom with a non-zero coordinate (atom {nz[0]}, {O[nz[0], c]!r}) is negative",
                  obs={"column": c, "decider_value": dec[c][1]})
            else:
                V("oracle:sign_convention", f"column {c}: first atom with a non-zero coordinate (atom {nz[0]}, {O[nz[0], c]!r}) is negative in the oriented geometry")
    if band_cols:
        out.count("flushed_decider_cases")
    # --- non-geometric fields
    diffs = cmp_dicts(base.dict(), mol1.dict())
    if diffs:
        V("oracle:fields", f"fields changed by orientation: {diffs}")
    diffs2 = cmp_dicts(mol1.dict(), mol2.dict())
    if diffs2:
        V("oracle:fields", f"fields changed by the second orientation: {diffs2}")
    if O.shape != gin.shape:
        V("oracle:fields", "shape of geometry changed")
    # --- uniqueness claims (asymmetric tops only)
    if cls == "asym" and not any(d_[0] == "knife" for d_ in dec):
        L = float(np.abs(H).max())
        lamH = np.array([own_tensor(m, H)[a, a] for a in range(3)])
        fl = 4e-15 * (1.0 + L)

        def perturb_bounds(E):
            """first-order bound (with a factor 2 on the rotation) on how far each oriented coordinate can move when the
            geometry handed to the orientation is displaced by at most E (n x 3, expressed in the oriented frame)"""
            A = np.abs(H)
            tol = E + (m[:, None] * E).sum(0) / m.sum()
            for a in range(3):
                for b in range(3):
                    if a != b:
                        dT = float(np.sum(m * (A[:, a] * E[:, b] + A[:, b] * E[:, a])))
                        tol[:, a] += 2.0 * dT / max(abs(lamH[a] - lamH[b]), 1e-300) * A[:, b]
            return tol

        def decisions_stable(tol):
            """would every phase decision be the same for any geometry within tol of H?  (else the comparison is a knife edge)"""
            for c in range(3):
                i_dec = dec[c][0]
                last = len(m) - 1 if i_dec is None else i_dec
                for i in range(last + 1):
                    v = abs(float(H[i, c]))
                    if i == i_dec:
                        if v - tol[i, c] <= NOISE:
                            return False
                    elif v + tol[i, c] >= NOISE:
                        return False
            return True

        def round_term(P, Q):
            return np.where((P == 0.0) != (Q == 0.0), FLUSH8 + 1e-8, 1e-8) + 1e-10

        # rigid copy: the two inputs are exact rigid images up to the rounding of their doubles (ctor/from_data: half an ulp of
        # each coordinate of the image) or up to the float_prep applied when the unoriented molecule was built (method path);
        # the implementation is granted 4e-15 * (1 + largest input coordinate) of floating-point error on top (see ASSUMPTIONS),
        # and all of it is propagated like an input displacement (translation + first-order rotation of the eigen-frame)
        def displacement(Gexact, Gseen, rounded):
            r = np.sqrt(((Gseen - Gexact) ** 2).sum(1))
            if rounded:
                r = r + np.sqrt(((0.5 * np.spacing(np.abs(Gexact))) ** 2).sum(1))
            return r + 4e-15 * (1.0 + max(L, float(np.abs(Gseen).max())))

        rA = displacement(G0, gin, False)
        stableA = decisions_stable(perturb_bounds(np.repeat(rA[:, None], 3, axis=1)))

        def check_copy(label, counter, Gx, ginx, Ox, quat, trans):
            rB = displacement(Gx, ginx, True)
            tolR = perturb_bounds(np.repeat((rA + rB)[:, None], 3, axis=1))
            if stableA and decisions_stable(perturb_bounds(np.repeat(rB[:, None], 3, axis=1))):
                out.count(counter + "_checked")
                lim = tolR + round_term(O, Ox)
                if np.any(np.abs(O - Ox) > lim):
                    i, c = np.unravel_index(np.argmax(np.abs(O - Ox) - lim), O.shape)
                    V("oracle:rigid_copy", f"oriented {label} differs: atom {i} column {c}: {O[i, c]!r} vs {Ox[i, c]!r} (tol {lim[i, c]:.2e}; quat {quat}, trans {trans})")
                return True
            out.count("knife:" + counter)
            out.count("knife:%s:%s:%s" % (counter, path, shape))
            return False

        check_copy("rigid copy", "rigid_copy", Gr, ginr, OR, case["quat"], case["trans"])
        if OF is not None:
            if check_copy("far rigid copy", "far_copy", Gf, ginf, OF, case["quat_far"], case["trans_far"]):
                out.count("far_copy_checked:|t|~1e%d" % fdec)
        # double orientation: the second pass re-orients the *rounded* geometry O = H + (O - H)
        E2 = np.abs(O - H) + np.where(H == 0.0, 5.0 ** -15, 0.0) + 1e-14 + fl
        tol2 = perturb_bounds(E2)
        flushed = bool(band_cols)
        if flushed or decisions_stable(tol2):
            lim2 = tol2 + E2 + round_term(O, O2)
            if np.any(np.abs(O2 - O) > lim2):
                i, c = np.unravel_index(np.argmax(np.abs(O2 - O) - lim2), O.shape)
                badcols = [cc for cc in range(3) if np.any(np.abs(O2[:, cc] - O[:, cc]) > lim2[:, cc])]
                if flushed and all(cc in band_cols for cc in badcols):
                    V("oracle:idempotent_flushed_decider", f"orienting twice changes column(s) {badcols}: atom {i} column {c}: {O[i, c]!r} -> {O2[i, c]!r}; the atom that decided the sign (atom {dec[c][0]}, {dec[c][1]!r}) was flushed to 0 by float_prep",
                      obs={"columns": badcols, "decider_values": [dec[cc][1] for cc in badcols]})
                else:
                    V("oracle:idempotent", f"orienting twice changes the geometry: atom {i} column {c}: {O[i, c]!r} -> {O2[i, c]!r} (tol {lim2[i, c]:.2e})")
            out.count("idempotence_checked")
        else:
            out.count("knife:idempotence")
            out.count("knife:idempotence:%s:%s" % (path, shape))
    # --- bookkeeping
    if len(m) >= 2:
        out.nontrivial((shape, len(m), mode, path, tuple(case["quat"]), "".join(dkey), fdec, far_primary))
    out.sample({"shape": shape, "class": cls, "n": len(m), "path": path, "masses": mode, "rel_gaps": ["%.2e" % g for g in gaps], "deciders": dkey, "oriented_first_row": O[0].tolist()})
    # --- correspondence
    if use_model and ctx.model_available:
        case["_calls"] = calls
    out.violations += findings_v
    out.mismatches += findings_m


def tie_cases(ctx, out: Outcome, cases):
    lines, idx = [], []
    for ci, case in enumerate(cases):
        for k, (tag, d, ms, gin, call, og) in enumerate(case.get("_calls", [])):
            lines.append(model_line(d, ms, gin, call))
            idx.append((ci, k))
    if not lines:
        return
    res = ctx.run_model(DRIVER, lines)
    for (ci, k), line in zip(idx, res):
        case = cases[ci]
        tag, d, ms, gin, call, og = case["_calls"][k]
        bad, knife = tie_call(tag, d, ms, gin, call, og, line)
        out.count("model_lines")
        if knife:
            out.count("knife:model_phase")
        pub = {kk: v for kk, v in case.items() if kk != "_calls"}
        if tag != "zero_mass" and not line.startswith("err") and line != "bad-op":
            out.count("proved_bound_clauses_checked")
        for kind, msg in bad:
            if "PROVED" in msg or kind == "mismatch:moments":
                out.count("proved_bound_fired:" + kind)
            (out.violations if kind.startswith("oracle:") else out.mismatches).append(Finding(kind, pub, observed=msg, detail=msg))
    for case in cases:
        case.pop("_calls", None)


def zero_mass_stream(ctx, out: Outcome):
    """unvalidated molecules whose masses sum to zero: the model's ZeroDivision branch (outside the property's quantifier)"""
    from qcelemental.models import Molecule

    lines, exp = [], []
    for ms in ([0.0, 0.0], [1.0, -1.0], [2.5, -1.5, -1.0], [0.0], [1.0, 3.0], [1.0, -3.0]) * 2:
        n = len(ms)
        g = np.array([[0.3 * i, 1.1 * i, -0.7 * i * i] for i in range(n)], dtype=float)
        try:
            with _quiet(), EighTap() as tap:
                mol = Molecule(orient=True, validate=False, symbols=["He"] * n, masses=ms, geometry=g.ravel(), molecular_charge=0, molecular_multiplicity=1)
            r = ("ok", np.array(mol.geometry), tap.calls)
        except ZeroDivisionError:
            r = ("err ZeroDivision", None, [])
        except Exception as e:  # noqa
            r = ("err " + type(e).__name__, None, [])
        call = r[2][0] if r[2] else (np.zeros((3, 3)), np.zeros(3), np.eye(3))
        lines.append(model_line(8, ms, g, call))
        exp.append((r, ms, g, call))
    if not ctx.model_available:
        return
    res = ctx.run_model(DRIVER, lines)
    for line, (r, ms, g, call) in zip(res, exp):
        out.evaluations += 1
        out.count("unvalidated_zero_mass_stream")
        out.count("outcome:" + r[0])
        case = {"stream": "zero_mass", "masses": ms}
        if r[0] != "ok":
            if line != r[0]:
                out.mismatches.append(Finding("mismatch:error", case, observed=r[0], expected=line, detail="error class differs"))
        else:
            bad, _ = tie_call("zero_mass", 8, ms, g, call, r[1], line)
            for kind, msg in bad:
                out.mismatches.append(Finding(kind, case, observed=msg, detail=msg))


# --------------------------------------------------------------------------------------
# call-sequence ("family") stream: orientation is a function of the molecule it is applied to, not of the history of the process
#
# One family = one structure and its near relatives (same coordinates with other masses / isotopes / one substituted atom / other
# ghosts / other non-geometric fields / other elements; the same atoms displaced by 1e-7..0.3 bohr, permuted, rigidly moved, with one
# atom removed), oriented one after another IN ONE PROCESS in a shuffled, interleaved order through all three entry points, with
# repeated calls, several geometry_noise values, one unoriented Molecule object per member reused for every orient_molecule() call,
# earlier results re-oriented later, and ONE caller-owned geometry buffer per atom count reused (overwritten) for every
# constructor / from_data call.  Every single call must satisfy the property for ITS OWN molecule.


FAMILIES_QUICK, FAMILIES_THOROUGH = 240, 2400
FAM_SHAPES = ["asym"] * 7 + ["planar"] * 2 + ["linear"] + ["symtop"] * 2 + ["neardeg"] + ["band"]
FAM_VARIANTS = ["same", "masses", "masses", "one_mass", "one_mass", "isotope", "ghosts", "fields", "fields", "conformer", "conformer",
                "perm", "symbols", "rigid", "drop_atom", "masses+fields", "conformer+masses", "perm+masses"]
MASS_KEYS = ("masses", "mass_numbers", "nonphysical")


def _strip_masses(kw):
    return {k: v for k, v in kw.items() if k not in MASS_KEYS}


def _default_masses(symbols):
    import qcelemental as qcel

    return [float(qcel.periodictable.to_mass(s)) for s in symbols]


def vary_member(rng, kw, geom, var):
    """one relative of (kw, geom); returns (kw', geom') - validity is decided by the library when the family is run"""
    kw = json.loads(json.dumps(kw))
    geom = [list(p) for p in geom]
    n = len(geom)
    for part in var.split("+"):
        if part == "same":
            pass
        elif part == "masses":
            kw = _strip_masses(kw)
            mode = rng.choice(["default", "user", "user", "nonphysical", "nonphysical"])
            if mode != "default":
                base = _default_masses(kw["symbols"])
                if mode == "user":
                    kw["masses"] = [round(m0 + rng.uniform(-0.4, 0.4), rng.choice([2, 6, 10])) for m0 in base]
                else:
                    kw["masses"] = [round(rng.choice([rng.uniform(0.6, 3.0), rng.uniform(3, 60), rng.uniform(60, 400)]), rng.choice([1, 5, 9])) for _ in base]
                    kw["nonphysical"] = True
        elif part == "one_mass":
            # a single substituted atom (H -> D style): everything else, coordinates included, stays bit-identical
            base = _default_masses(kw["symbols"])
            kw = _strip_masses(kw)
            i = rng.randrange(n)
            base[i] = round(base[i] * rng.choice([rng.uniform(1.02, 1.2), rng.uniform(1.9, 3.1), rng.uniform(0.3, 0.9)]), 6)
            kw["masses"] = base
            kw["nonphysical"] = True
        elif part == "isotope":
            kw = _strip_masses(kw)
            cand = [i for i, s in enumerate(kw["symbols"]) if s in ISO]
            A = [-1] * n
            for i in (rng.sample(cand, rng.randint(1, len(cand))) if cand else []):
                A[i] = rng.choice(ISO[kw["symbols"][i]])
            kw["mass_numbers"] = A
        elif part == "ghosts":
            real = [rng.random() > 0.4 for _ in range(n)]
            if not any(real):
                real[rng.randrange(n)] = True
            kw["real"] = real
        elif part == "fields":
            for k in ("name", "comment", "extras", "atom_labels", "connectivity", "fragments", "fix_com", "fix_orientation"):
                if rng.random() < 0.5:
                    kw.pop(k, None)
            if rng.random() < 0.6:
                kw["name"] = "rel%d" % rng.randint(0, 99)
            if rng.random() < 0.4:
                kw["comment"] = "relative %d" % rng.randint(0, 9)
            if rng.random() < 0.4:
                kw["extras"] = {"tag": rng.randint(10, 19), "who": "family"}
            if rng.random() < 0.3:
                kw["atom_labels"] = [rng.choice(["", "q", "r7"]) for _ in range(n)]
            if rng.random() < 0.3 and n >= 2:
                cut = rng.randint(1, n - 1)
                kw["fragments"] = [list(range(cut)), list(range(cut, n))]
            if rng.random() < 0.3 and n >= 2:
                i, j = sorted(rng.sample(range(n), 2))
                kw["connectivity"] = [[i, j, float(rng.choice([1, 2, 3]))]]
            if rng.random() < 0.3:
                kw["fix_com"] = rng.random() < 0.5
                kw["fix_orientation"] = rng.random() < 0.5
        elif part == "conformer":
            mag = 10.0 ** rng.uniform(-7.0, -0.5)
            for i in rng.sample(range(n), rng.randint(1, n)):
                geom[i] = [v + mag * rng.uniform(-1, 1) for v in geom[i]]
        elif part == "perm":
            p = list(range(n))
            rng.shuffle(p)
            geom = [geom[i] for i in p]
            for k in ("symbols", "masses", "mass_numbers", "real", "atom_labels"):
                if k in kw:
                    kw[k] = [kw[k][i] for i in p]
            kw.pop("connectivity", None)
            kw.pop("fragments", None)
        elif part == "symbols":
            kw = _strip_masses(kw)
            for i in rng.sample(range(n), rng.randint(1, n)):
                kw["symbols"][i] = rng.choice(ELEMS)
        elif part == "rigid":
            q = [rng.randint(-6, 6) for _ in range(4)]
            if not any(q):
                q = [1, 2, -1, 3]
            geom = rigid(geom, q, ["%d/%d" % (rng.randint(-40, 40), rng.choice([1, 2, 3, 7, 8, 10])) for _ in range(3)])
        elif part == "drop_atom":
            if n >= 2:
                i = rng.randrange(n)
                del geom[i]
                for k in ("symbols", "masses", "mass_numbers", "real", "atom_labels"):
                    if k in kw:
                        del kw[k][i]
                kw.pop("connectivity", None)
                kw.pop("fragments", None)
                n -= 1
        else:
            raise ValueError(part)
    return kw, [[float(v) for v in p] for p in geom]


def gen_family(rng):
    base = gen_case(rng, rng.choice(FAM_SHAPES))
    members = [{"var": "base", "kw": base["kw"], "geometry": base["geometry"]}]
    for _ in range(rng.randint(3, 7)):
        var = rng.choice(FAM_VARIANTS)
        src = members[0] if rng.random() < 0.75 else rng.choice(members)  # relatives of relatives too
        kw, g = vary_member(rng, src["kw"], src["geometry"], var)
        members.append({"var": var, "kw": kw, "geometry": g})
    steps = []
    for mi in range(len(members)):
        steps.append({"m": mi, "path": rng.choice(["ctor", "method", "from_data"]), "noise": None})
    for _ in range(rng.randint(2, 2 + len(members))):
        steps.append({"m": rng.randrange(len(members)), "path": rng.choice(["ctor", "method", "from_data"]), "noise": rng.choice([None, None, None, 14, 6, 10, 12])})
    # every (member, kind of input the orientation sees) that is oriented at the default rounding also gets a geometry_noise=14 call:
    # the oracle reads the deciding atoms of the sign convention from it
    have = {(s["m"], s["path"] == "method") for s in steps if s["noise"] == 14}
    for s in list(steps):
        key = (s["m"], s["path"] == "method")
        if s["noise"] is None and key not in have:
            have.add(key)
            steps.append({"m": s["m"], "path": "method" if key[1] else rng.choice(["ctor", "from_data"]), "noise": 14})
    rng.shuffle(steps)
    # re-orient some earlier results later on (the returned object is used again after other calls have happened)
    for _ in range(rng.randint(1, 3)):
        pos = rng.randint(1, len(steps))
        prev = [k for k in range(pos) if "again" not in steps[k] and steps[k]["noise"] is None]
        if prev:
            src = rng.choice(prev)
            steps.insert(pos, {"again": src, "m": steps[src]["m"], "path": "again", "noise": None})
            for s in steps[pos + 1:]:
                if "again" in s and s["again"] >= pos:
                    s["again"] += 1
    return {"stream": "family", "shape": base["shape"], "members": members, "steps": steps}


def sign_claims(H, O):
    """the documented sign convention read on the default-rounding geometry O, with the deciding atoms taken from the
    geometry_noise=14 geometry H of the same input (same rule as the single-case stream); returns
    (list of (kind, message, observed), deciders, decider key, columns whose decider is printed as 0)"""
    res = []
    dec = deciders(H)
    dkey, band_cols = [], []
    for c in range(3):
        i, v = dec[c]
        if i == "knife":
            dkey.append("k")
            continue
        if i is None:
            dkey.append("-")
            continue
        dkey.append(str(i) if i < 3 else "3+")
        if v < 0:
            res.append(("oracle:sign_convention", f"column {c}: first atom off the plane (atom {i}, {v!r}) is negative in the oriented geometry (geometry_noise=14)", None))
        if O[i, c] == 0.0:
            band_cols.append(c)
    for c in range(3):
        nz = [i for i in range(O.shape[0]) if O[i, c] != 0.0]
        if nz and O[nz[0], c] < 0 and dec[c][0] != "knife":
            if c in band_cols:
                res.append(("oracle:sign_convention_flushed_decider", f"column {c}: atom {dec[c][0]} ({dec[c][1]!r}) decided the sign but is printed as 0; the first atom with a non-zero coordinate (atom {nz[0]}, {O[nz[0], c]!r}) is negative",
                            {"column": c, "decider_value": dec[c][1]}))
            else:
                res.append(("oracle:sign_convention", f"column {c}: first atom with a non-zero coordinate (atom {nz[0]}, {O[nz[0], c]!r}) is negative in the oriented geometry", None))
    return res, dec, dkey, band_cols


def same_input_limit(m, H, dec, gmax, Oa, Ob):
    """two orientations of bit-identical input (an asymmetric top): the per-coordinate limit on |Oa - Ob| granted by the property
    ('the same coordinates within the geometry rounding': the rigid-copy claim for the identity motion), or None when a phase
    decision sits on a knife edge.  Same first-order bound as for rigid copies; the only displacement is the floating-point allowance."""
    L = float(np.abs(H).max())
    lamH = np.array([own_tensor(m, H)[a, a] for a in range(3)])
    A = np.abs(H)

    def bounds(E):
        tol = E + (m[:, None] * E).sum(0) / m.sum()
        for a in range(3):
            for b in range(3):
                if a != b:
                    dT = float(np.sum(m * (A[:, a] * E[:, b] + A[:, b] * E[:, a])))
                    tol[:, a] += 2.0 * dT / max(abs(lamH[a] - lamH[b]), 1e-300) * A[:, b]
        return tol

    r = 4e-15 * (1.0 + max(L, gmax))
    t1 = bounds(np.full(H.shape, r))
    for c in range(3):
        i_dec = dec[c][0]
        if i_dec == "knife":
            return None
        last = len(m) - 1 if i_dec is None else i_dec
        for i in range(last + 1):
            v = abs(float(H[i, c]))
            if i == i_dec:
                if v - t1[i, c] <= NOISE:
                    return None
            elif v + t1[i, c] >= NOISE:
                return None
    return bounds(np.full(H.shape, 2 * r)) + np.where((Oa == 0.0) != (Ob == 0.0), FLUSH8 + 1e-8, 1e-8) + 1e-10


def _snap_kw(kw):
    return json.dumps(_plain({k: v for k, v in kw.items() if k != "geometry"}), sort_keys=True), np.array(kw["geometry"], dtype=float).tobytes()


def _snap_mol(mol, d=None):
    d = mol.dict() if d is None else d
    return json.dumps(_plain({k: v for k, v in d.items() if k != "geometry"}), sort_keys=True, default=repr), np.array(mol.geometry, dtype=float).tobytes()


def run_family(ctx, out: Outcome, case, use_model=True):
    from qcelemental.models import Molecule

    findings_v, findings_m = [], []
    V = lambda kind, msg, obs=None: findings_v.append(Finding(kind, case, observed=obs, detail=msg))  # noqa
    members = case["members"]
    # the unoriented molecule of every member: validation decides membership; the object is kept and reused for every
    # orient_molecule() call of that member
    bases = []
    for mi, mem in enumerate(members):
        kw = dict(mem["kw"])
        kw["geometry"] = np.array(mem["geometry"], dtype=float).ravel()
        try:
            with _quiet():
                b = Molecule(**kw)
            bd = b.dict()
            bases.append({"mol": b, "snap": _snap_mol(b, bd), "dict": bd, "masses": np.array(b.masses, dtype=float), "geom": np.array(b.geometry, dtype=float).copy()})
        except Exception as e:
            bases.append(None)
            out.count("family:member_discarded:" + err_class(e))
    if bases[0] is None:
        out.count("discarded:family")
        return
    out.evaluations += 1
    out.count("family")
    out.count("family:shape:" + case["shape"])
    bufs = {}
    calls, results = [], {}  # results[step index] = record
    for si, st in enumerate(case["steps"]):
        mi, path, noise = st["m"], st["path"], st["noise"]
        B = bases[mi]
        if B is None:
            continue
        mem = members[mi]
        d = 8 if noise is None else noise
        tag = "step %d (member %d '%s', %s, geometry_noise=%d)" % (si, mi, mem["var"], path, d)
        extra = {} if noise is None else {"geometry_noise": noise}
        mb = B["masses"]
        n = len(mb)
        passed = None
        try:
            with _quiet():
                if path == "again":
                    src = results.get(st["again"])
                    if src is None:
                        continue
                    gin = src["O"].copy()
                    with EighTap() as tap:
                        mol = src["mol"].orient_molecule()
                    ref_dict = src["dict"]
                elif path == "method":
                    gin = B["geom"].copy()
                    with EighTap() as tap:
                        mol = B["mol"].orient_molecule() if noise is None else Molecule(orient=True, **extra, **B["mol"].dict())
                    ref_dict = B["dict"]
                else:
                    buf = bufs.setdefault(n, np.empty(3 * n, dtype=float))
                    buf[:] = np.array(mem["geometry"], dtype=float).ravel()  # the caller's buffer, reused from call to call
                    kw = json.loads(json.dumps(mem["kw"]))
                    kw["geometry"] = buf
                    passed = (kw, _snap_kw(kw))
                    gin = buf.reshape(-1, 3).copy()
                    with EighTap() as tap:
                        mol = Molecule.from_data(kw, orient=True, **extra) if path == "from_data" else Molecule(orient=True, **extra, **kw)
                    ref_dict = B["dict"]
        except Exception as e:
            V("oracle:raises", f"{tag}: orientation of a validated molecule raised {type(e).__name__}: {e}", obs={"step": si})
            continue
        out.count("family:calls")
        out.count("family:path:" + path)
        out.count("family:var:" + mem["var"])
        out.count("family:geometry_noise:%d" % d)
        O = np.array(mol.geometry, dtype=float).copy()
        dct = mol.dict()
        rec = {"mol": mol, "O": O, "snap": _snap_mol(mol, dct), "dict": dct, "gin": gin, "d": d, "m": mi, "path": path, "tag": tag}
        results[si] = rec
        if len(tap.calls) != 1:
            findings_m.append(Finding("mismatch:eigh_calls", case, observed=len(tap.calls), expected=1, detail=f"{tag}: expected exactly one numpy.linalg.eigh call per orientation"))
        else:
            calls.append((tag, d, np.array(mol.masses, dtype=float), gin, tap.calls[0], O))
        # the caller's arguments are the caller's
        if passed is not None and _snap_kw(passed[0]) != passed[1]:
            before, after = json.loads(passed[1][0]), json.loads(_snap_kw(passed[0])[0])
            changed = {k: after.get(k) for k in set(before) | set(after) if k not in before or k not in after or before[k] != after[k]}
            if path == "from_data" and _snap_kw(passed[0])[1] == passed[1][1] and extra and changed == _plain(extra) and all(k not in before for k in changed):
                # nothing but the keyword options of this very call, written into the caller's dict (from_data: input_dict = data; input_dict.update(kwargs))
                V("oracle:from_data_kwargs_written_into_input", f"{tag}: Molecule.from_data(d, orient=True, **{extra}) added {changed} to the caller's dict d "
                  "(a later from_data(d) without the option silently inherits it)", obs={"step": si, "added": changed, "kwargs": _plain(extra), "path": path})
            else:
                V("oracle:input_mutated", f"{tag}: the arguments passed to the constructor / from_data were modified by the call (changed keys: {sorted(changed)}; "
                  f"geometry buffer {'modified' if _snap_kw(passed[0])[1] != passed[1][1] else 'intact'})", obs={"step": si})
        mo = np.array(mol.masses, dtype=float)
        if mo.shape != mb.shape or np.any(mo != mb):
            V("oracle:fields", f"{tag}: masses of the oriented molecule differ from the masses of the unoriented one", obs={"step": si})
        if O.shape != gin.shape:
            V("oracle:fields", f"{tag}: shape of geometry changed", obs={"step": si})
            continue
        diffs = cmp_dicts(ref_dict, rec["dict"])
        if diffs:
            V("oracle:fields", f"{tag}: fields changed by orientation: {diffs}", obs={"step": si})
        # distances, centre of mass, diagonal ascending inertia - with THIS molecule's masses and THIS call's input
        for clause, msg in base_claims(tag, mb, gin, O, d):
            V("oracle:" + clause, msg, obs={"step": si})
    # ---- after the whole sequence
    for mi, B in enumerate(bases):
        if B is not None and _snap_mol(B["mol"]) != B["snap"]:
            V("oracle:input_mutated", f"member {mi} '{members[mi]['var']}': the unoriented molecule was modified by orienting it (or a relative)")
    for si, rec in results.items():
        if _snap_mol(rec["mol"]) != rec["snap"]:
            V("oracle:result_changed_later", f"{rec['tag']}: the molecule returned by this call was modified by later calls", obs={"step": si})
    # sign convention and equality of repeated orientations, per (member, input seen by the orientation)
    groups = {}
    for si, rec in results.items():
        if rec["O"].ndim != 2 or rec["O"].shape[1] != 3 or rec["O"].shape != np.asarray(rec["gin"]).shape:
            continue  # already reported as oracle:fields (shape of geometry changed); the per-column clauses below need (n, 3) arrays
        if rec["path"] != "again":
            groups.setdefault((rec["m"], rec["gin"].tobytes()), []).append(si)
    for (mi, _), sis in groups.items():
        hs = [s for s in sis if results[s]["d"] == 14]
        os_ = [s for s in sis if results[s]["d"] == 8]
        if not hs or not os_:
            continue
        H = results[hs[0]]["O"]
        mb = bases[mi]["masses"]
        gin = results[hs[0]]["gin"]
        dec = None
        for s in os_:
            rec = results[s]
            res, dec, dkey, band = sign_claims(H, rec["O"])
            for kind, msg, obs in res:
                V(kind, f"{rec['tag']}: {msg}", obs=obs)
            out.count("family:sign_convention_checked")
        cls, lam, gaps = classify(mb, gin)
        if cls == "asym" and len(os_) >= 2:
            a = results[os_[0]]
            for s in os_[1:]:
                b = results[s]
                lim = same_input_limit(mb, H, dec, float(np.abs(gin).max()), a["O"], b["O"])
                if lim is None:
                    out.count("knife:family_repeat")
                    continue
                out.count("family:repeat_checked")
                if np.any(np.abs(a["O"] - b["O"]) > lim):
                    i, c = np.unravel_index(np.argmax(np.abs(a["O"] - b["O"]) - lim), lim.shape)
                    V("oracle:repeat_call", f"the same input oriented twice in one process gives different coordinates: {a['tag']} vs {b['tag']}: atom {i} column {c}: {a['O'][i, c]!r} vs {b['O'][i, c]!r} (tol {lim[i, c]:.2e})", obs={"step": s})
    nvalid = sum(1 for b in bases if b is not None)
    vars_ = tuple(sorted({members[i]["var"] for i, b in enumerate(bases) if b is not None}))
    if len(bases[0]["masses"]) >= 2 and nvalid >= 2:
        out.nontrivial(("family", case["shape"], len(bases[0]["masses"]), vars_, len(results)))
    out.sample({"stream": "family", "shape": case["shape"], "n": len(bases[0]["masses"]), "members": [m_["var"] for m_ in members], "calls": len(results)}, limit=8)
    if use_model and ctx.model_available:
        case["_calls"] = calls
    out.violations += findings_v
    out.mismatches += findings_m


def run(ctx: Ctx) -> Outcome:
    out = Outcome()
    rng = ctx.rng
    ncase = ctx.scale(2000, 18000)
    done = 0
    while done < ncase:
        batch = [gen_case(rng, rng.choice(SHAPES)) for _ in range(min(500, ncase - done))]
        done += len(batch)
        for case in batch:
            run_case(ctx, out, case)
        if ctx.model_available:
            tie_cases(ctx, out, batch)
    # call sequences: families of related molecules oriented one after another in this process (after the single-case stream, so
    # that the cases of that stream are the same as before for a given seed)
    nfam = ctx.scale(FAMILIES_QUICK, FAMILIES_THOROUGH)
    done = 0
    while done < nfam:
        batch = [gen_family(rng) for _ in range(min(100, nfam - done))]
        done += len(batch)
        for fam in batch:
            run_family(ctx, out, fam)
        if ctx.model_available:
            tie_cases(ctx, out, batch)
    if ctx.model_available:
        zero_mass_stream(ctx, out)
    out.exhaustive = False
    out.notes.append("largest eigen-frame certificate residuals this run (exact rational evaluation): max|VtV-1|,|VVt-1| = %.3e; max|VtTV-diag(l)|/scale = %.3e (limits 1e-13, 1e-12)" % (_CERT["orth"], _CERT["diag_rel"]))
    out.notes.append("proved-bound oracle (B_off, B_diag printed by the driver; Props/C16Approx.lean inertia_diagonal_driver): largest |I_ab(out)| / (B_off + rounding) = %.3f "
                     "(geometry_noise=14 calls: %.3f), largest |I_aa(out) - l_a| / (B_diag + rounding) = %.3f, largest descent / (2 B_diag + rounding) = %.3f (all must be <= 1); "
                     "largest B_off/(scale+1) = %.2e, B_diag/(scale+1) = %.2e; the ad-hoc slack 2e-13 (scale+1) of the plain clause is at least %.1f x B_off"
                     % (_PB["off"], _PB["off14"], _PB["mom"], _PB["asc"], _PB["Bo_rel"], _PB["Bd_rel"], _PB["slack_over_Bo"]))
    c = out.distribution
    out.notes.append("position in space: every case is also oriented from a far rigid copy (second rotation, |t| log-uniform in 10^2.5..10^6.5 bohr) and ~15%% of the "
                     "primaries are themselves that far from the origin; all base claims are demanded of the far copy and, for asymmetric tops, equality with the "
                     "primary within rounding + 4e-15*(1+max|x|) propagated to first order (far copies compared this run: %s; far primaries: %s)" % (c.get("far_copy_checked", "n/a"), c.get("far_primary", "n/a")))
    out.notes.append("all cases sampled from VERIF_SEED; tolerances: see coord_err / tie_call; knife-edge inputs (value within 1e-12 of the 1e-8 threshold or within 1e-4 units of a rounding tie) are skipped and counted")
    return out


def replay(ctx: Ctx, case) -> Outcome:
    out = Outcome()
    if isinstance(case, dict) and case.get("stream") == "zero_mass":
        zero_mass_stream(ctx, out)
        return out
    case = json.loads(json.dumps(case))
    if isinstance(case, dict) and case.get("stream") == "family":
        run_family(ctx, out, case)
        if ctx.model_available:
            tie_cases(ctx, out, [case])
        return out
    run_case(ctx, out, case)
    if ctx.model_available:
        tie_cases(ctx, out, [case])
    return out


def known_predicate(finding: Finding, entry) -> bool:
    """the flushed-decider class only: the atom that decided the sign has 1e-8 <= |coordinate| < 5^-9 + 1e-8
    (oracle:from_data_kwargs_written_into_input was a genuine defect, repaired in /repo: a plain demand now)"""
    obs = finding.observed or {}
    vals = obs.get("decider_values") or ([obs["decider_value"]] if "decider_value" in obs else [])
    return bool(vals) and all(NOISE - 1e-12 <= abs(v) < FLUSH8 + 1.1e-8 for v in vals)
