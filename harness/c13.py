"""C13 — covariance of the alignment recipe (AlignmentMill) and losslessness of the 3x3 blocking.

correspondence: every AlignmentMill method + blockwise_expand/contract against the Lean model
(Model/Mill.lean, run exactly at K = Rat on the very doubles the implementation received);
oracle: analytic pair energies / a pair vector field in numpy floats (independent of the model).
source tie: c13_src.py / c13_src_blockwise.py (TRANSLATORS) re-read align.py and np_blockwise.py with `ast` on every run into
lean/QcelVerif/Gen/MillSrc.lean (ASTs of Model/MillAst.lean); Props/C13Src.lean proves their evaluation equal to the hand model;
every case line goes through the driver twice (hand model, and `src|` = source-derived) - three-way with the implementation.

Two kinds of streams:
  * single-call scenarios ("mill", "blk"): one recipe, one system, every method once, judged at once;
  * call sequences ("seq"): several recipes and systems alive in one process, all eight entry points
    (the six align_* methods, reverse transform, align_system, align_mini_system) called in a generated
    order, the same values handed over in every memory layout numpy has for them, argument buffers
    refilled and reused, results held (or overwritten by the caller) and judged when the sequence is over.
"""
from __future__ import annotations

import json
import math
from fractions import Fraction

import numpy as np

import c13_src
from common import Ctx, Finding, Outcome, err_class

PROPERTY = "C13"
LEAN_TARGETS = ["QcelVerif.Props.C13", "QcelVerif.Lemmas.MillCalculus", "QcelVerif.Props.C13Calculus",
                "QcelVerif.Model.MillAst", "QcelVerif.Gen.MillSrc", "QcelVerif.Model.MillSrc", "QcelVerif.Props.C13Src", "QcelVerif.Driver.C13"]
DRIVER = "QcelVerif/Driver/C13.lean"
# regenerates lean/QcelVerif/Gen/MillSrc.lean from qcelemental/models/align.py and qcelemental/util/np_blockwise.py on every run
TRANSLATORS = [c13_src.gen_mill_src]
THEOREMS = [
    ("QcelVerif.Mill.blockwise_roundtrip", "blockwise_contract (blockwise_expand a) = a for every 2-D array and every dividing block shape"),
    ("QcelVerif.Mill.blockwise_roundtrip'", "blockwise_expand (blockwise_contract b) = b (the two reorderings are mutually inverse)"),
    ("QcelVerif.Mill.coords_affine", "align_coordinates(x+d) - align_coordinates(x) = J d for all x, d (affine map, linear part J, any recipe)"),
    ("QcelVerif.Mill.gradient_is_J", "align_gradient g = J g (mirror on and off)"),
    ("QcelVerif.Mill.pairing_preserved", "R R^T = I, atommap bijective -> <J d, align_gradient g> = <d, g>"),
    ("QcelVerif.Mill.hessian_form_preserved", "R R^T = I, atommap bijective -> (J d)^T align_hessian(H) (J e) = d^T H e, mirror on and off"),
    ("QcelVerif.Mill.hessian_is_JtHJ", "entrywise: align_hessian(H)[(i,a),(j,b)] = sum_cd F[c,a] H[(map i,c),(map j,d)] F[d,b] with F the frame of J"),
    ("QcelVerif.Mill.atoms_same_map", "align_atoms(a)[i] = a[map i] and align_coordinates(x)[i] = f(x[map i]) for one affine f independent of i"),
    ("QcelVerif.Mill.coords_isometry", "R R^T = I -> |x'_i - x'_j|^2 = |x_(map i) - x_(map j)|^2 (forward and reverse transforms)"),
    ("QcelVerif.Mill.vector_rotates", "mirror off -> x'_i - x'_j = align_vector (x_(map i) - x_(map j)) (attached vectors rotate with the frame)"),
    ("QcelVerif.Mill.vector_gradient_chain", "mirror off, R R^T = I, map bijective -> align_vector_gradient(D) applied to J d = align_vector (D applied to d)"),
    ("QcelVerif.Mill.energy_gradient_covariance", "polynomial pair energy: grad E_{k',c'}(align x) = align_gradient(grad E_{k,c}(x)), k' = k o map"),
    ("QcelVerif.Mill.energy_hessian_covariance", "polynomial pair energy: Hess E_{k',c'}(align x) = align_hessian(Hess E_{k,c}(x)), all recipes incl. mirror"),
    ("QcelVerif.Mill.energy_invariant", "polynomial pair energy: E_{k',c'}(align x) = E_{k,c}(x) for symmetric couplings"),
    ("QcelVerif.Mill.gradE_is_derivative", "E(x + t d) = E(x) + t <gradE x, d> + t^2 (...) for all t: gradE is the formal derivative of E (symmetric couplings)"),
    ("QcelVerif.Mill.hessE_is_derivative", "gradE(x + t e) = gradE(x) + t (hessE x) e + t^2 (...) for all t: hessE is the formal derivative of gradE"),
    ("QcelVerif.Mill.field_is_derivative", "mu(x + t e) = mu(x) + t (fieldD x) e + t^2 (...) + t^3 (...): fieldD is the formal derivative of the polynomial pair vector field"),
    ("QcelVerif.Mill.hessian_mirror_counterexample", "test by kernel evaluation: align_hessian as it was before fix 2038e22 (mirror ignored) does NOT preserve the Hessian form on a mirrored recipe"),
    ("QcelVerif.Mill.field_covariance", "polynomial pair vector field: mu_{w'}(align x) = align_vector(mu_w(x)) and d mu_{w'}(align x) = align_vector_gradient(d mu_w(x)), mirror off"),
    # --- the calculus bridge over the reals (Props/C13Calculus.lean; Mathlib Frechet derivative; same model definitions at K = R) ---
    ("QcelVerif.Mill.coords_hasFDerivAt", "over R: align_coordinates x = J x + b with J a continuous linear map, so its Frechet derivative at every x is J (any recipe)"),
    ("QcelVerif.Mill.J_inner_preserved", "over R: R R^T = I, atommap bijective -> <J d, J e> = <d, e> for the standard inner product of (n,3) arrays"),
    ("QcelVerif.Mill.J_bijective", "over R: R R^T = I, atommap bijective -> J is a linear isomorphism and align_coordinates an affine isomorphism with a two-sided inverse (alignInv)"),
    ("QcelVerif.Mill.gradient_covariance", "ANY E, E' with E'(align y) = E(y) for y near x and E' differentiable at align x (R R^T = I, atommap injective, mirror on/off): array of dE'(align x) = align_gradient(array of dE(x)), entries = fderiv applied to unit vectors"),
    ("QcelVerif.Mill.hessian_covariance", "ANY E, E' with E'(align y) = E(y) near x and E' twice differentiable at align x: (3n,3n) array of second Frechet derivatives of E' at align x = align_hessian(that of E at x), mirror on and off, no symmetry assumed"),
    ("QcelVerif.Mill.hessian_covariance_of_contDiffAt", "the same with the hypothesis 'E' is C^2 at the aligned geometry'"),
    ("QcelVerif.Mill.aligned_contDiffAt_of_invariant", "atommap bijective: E is C^k at x and E'(align y) = E(y) near x -> E' is C^k at align x (smoothness transfers through the affine isomorphism)"),
    ("QcelVerif.Mill.covariance_of_contDiffAt_original", "both clauses with smoothness assumed of the original energy only: E is C^2 at x and invariant near x -> gradient and Hessian arrays of E' at align x are align_gradient / align_hessian of those of E at x"),
    ("QcelVerif.Mill.distance_energy_invariant", "every function psi of the matrix of squared interatomic distances satisfies the invariance hypothesis: psi(D(align y)) = psi(D(y) o map) (rotation, translation, reflection, relabelling)"),
    ("QcelVerif.Mill.distance_energy_covariance", "gradient and Hessian covariance for every C^2 function of the interatomic distances, no invariance hypothesis left"),
    ("QcelVerif.Mill.pairEnergy_invariant", "pair potentials sum_{i!=j} f_ij(|x_i-x_j|^2) with arbitrary pair functions f_ij (relabelled f'_ij = f_{map i, map j}) are invariant under every recipe"),
    ("QcelVerif.Mill.pair_potential_covariance", "gradient and Hessian covariance for every pair potential whose pair functions are C^2 at the squared distances occurring in x (non-polynomial included)"),
    ("QcelVerif.Mill.coulomb_harmonic_covariance", "Coulomb + harmonic energy sum_{i!=j} k_ij/|r_ij| + h_ij(|r_ij|-rho_ij)^2, arbitrary couplings, at every geometry without coincident atoms: gradient and Hessian at align x = align_gradient / align_hessian of those at x, mirror on and off"),
    ("QcelVerif.Mill.vector_gradient_covariance", "mirror off: ANY vector fields with mu'(align y) = align_vector(mu(y)) near x and mu' differentiable at align x: (3,3n) array of d mu'(align x) = align_vector_gradient(array of d mu(x))"),
    ("QcelVerif.Mill.grad_energy_eq_gradE", "the Frechet gradient array of the polynomial pair energy (symmetric couplings) over R IS the explicit gradE of Props/C13 (ties grad to an explicit formula)"),
    ("QcelVerif.Mill.hess_energy_eq_hessE", "the Frechet Hessian array of the polynomial pair energy (symmetric couplings) over R IS the explicit hessE of Props/C13"),
    # --- the source tie (Props/C13Src.lean): Gen/MillSrc.lean is regenerated from align.py / np_blockwise.py on every run; all n, m, recipes, inputs ---
    ("QcelVerif.Mill.src_align_coordinates", "the AST read from align_coordinates evaluates to the hand model: alignCoords for reverse=False, alignCoordsRev for reverse=True (every n, m, recipe, geometry, scalar type)"),
    ("QcelVerif.Mill.src_align_atoms", "the AST read from align_atoms evaluates to alignAtoms (ats[atommap])"),
    ("QcelVerif.Mill.src_align_vector", "the AST read from align_vector evaluates to alignVector (vec.dot(rotation), mirror not consulted)"),
    ("QcelVerif.Mill.src_align_gradient", "the AST read from align_gradient evaluates to alignGradient (mirror, rotate, permute)"),
    ("QcelVerif.Mill.src_align_hessian", "the AST read from align_hessian (blockwise_expand, frame with the mirror branch, double loop over 3x3 blocks, np.ix_, blockwise_contract) evaluates to alignHessian, mirror on and off"),
    ("QcelVerif.Mill.src_align_vector_gradient", "the AST read from align_vector_gradient (loop over atoms, scratch 3x3 filled from the three rows, R^T D R, segments written back) evaluates to alignVectorGradient"),
    ("QcelVerif.Mill.src_align_system", "align_system as read from the source has 5 positional arguments and returns (align_coordinates(geom, reverse=reverse), align_atoms(mass), align_atoms(elem), align_atoms(elez), align_atoms(uniq)) of the hand model"),
    ("QcelVerif.Mill.src_align_mini_system", "align_mini_system as read from the source returns (align_coordinates(geom, reverse=reverse), align_atoms(uniq)) of the hand model"),
    ("QcelVerif.Mill.src_method_names", "the translator read exactly the eight align_* methods, in source order"),
    ("QcelVerif.Mill.src_blockwise_expand", "blockwise_expand as read from the source (as_strided shape/strides evaluated on the memory of a C-contiguous array): view entry [i,j,p,q] exists and equals the model's blockwiseExpand, every block shape and count"),
    ("QcelVerif.Mill.src_blockwise_expand_asserts", "both asserts of blockwise_expand (C-contiguity, block shape divides) are present in the source"),
    ("QcelVerif.Mill.src_blockwise_contract_partial", "PARTIAL (non-empty arrays; on an empty array numpy raises and the tie to the hand model is false): blockwise_contract as read from the source (reshape, reshape with inferred -1, swapaxes(1,2), reshape on C-ordered memory): result has shape (gr*lr, gc*lc) and entry [r,c] equals the model's blockwiseContract, all sizes gr, lr, lc > 0"),
    ("QcelVerif.Mill.src_blockwise_roundtrip_partial", "PARTIAL (non-empty arrays): source-derived blockwise_contract of whatever is read out of the source-derived blockwise_expand view of a has the shape and the entries of a (blocking is lossless for the functions read from the source)"),
    ("QcelVerif.Mill.src_pairing_preserved", "headline over the source-derived align_gradient: R R^T = I, atommap bijective -> <J d, Src.align_gradient g> = <d, g>"),
    ("QcelVerif.Mill.src_hessian_form_preserved", "headline over the source-derived align_hessian: (J d)^T Src.align_hessian(H) (J e) = d^T H e, mirror on and off"),
    ("QcelVerif.Mill.src_energy_covariance", "headline over the source-derived functions: polynomial pair energy, grad and Hess at Src.align_coordinates(x) = Src.align_gradient / Src.align_hessian of those at x, all recipes incl. mirror"),
    ("QcelVerif.Mill.src_atoms_same_map", "source-derived align_atoms(a)[i] = a[map i]"),
    ("QcelVerif.Mill.src_gradient_hessian_covariance", "over R, headline over the source-derived functions: ANY E, E' with E'(Src.align y) = E(y) near x, E' twice differentiable at the aligned geometry -> gradient and Hessian arrays there = Src.align_gradient / Src.align_hessian of those at x, mirror on and off"),
    ("QcelVerif.Mill.src_vector_gradient_covariance", "over R, mirror off, headline over the source-derived functions: nuclear derivatives of every equivariant vector field transform by Src.align_vector_gradient"),
]
TRUSTED_BASE = [
    "Lean 4.33 kernel; axioms per theorem audited on every run (subset of propext, Classical.choice, Quot.sound); Mathlib for Finset sums / ring / linear_combination",
    "Model/Mill.lean (hand model of align.py:70-170 and np_blockwise.py) is NO LONGER tied by sampling only: harness/c13_src.py + c13_src_blockwise.py re-read the eight align_* method bodies and the two blockwise helpers with Python's ast on every run, regenerate Gen/MillSrc.lean, and Props/C13Src.lean proves the evaluation of every regenerated AST equal to the hand model for all sizes, recipes and inputs. What remains trusted about the tie: (a) the translators themselves (statement-by-statement symbolic execution: substitution of straight-line assignments, if/else on self.mirror / reverse merged into a conditional value, np.copy/np.asarray/np.array as identity on values, the two loop shapes read as tabulations after checking that every entry is assigned exactly once and that no scratch value is carried between iterations; anything else raises Unsupported) and the declared shapes of the method arguments ((n,3), (3,), (3n,3n), three (3n,) rows, (n,)); (b) the evaluator Model/MillAst.lean, i.e. the index-level numpy meaning given to each AST constructor (dot, .T, broadcasting of a (3,) vector over rows, x[:,c] *= s, fancy indexing incl. np.ix_, np.diag, zeros_like, as_strided on C-contiguous memory with strides in items, reshape incl. one inferred -1, swapaxes(1,2)); (c) that names resolve as written (np is numpy, blockwise_expand/contract are the functions of util/np_blockwise.py, self.* are the recipe fields) - in particular the two helper calls inside align_hessian are AST constructors whose meaning is the model's blockwiseExpand / blockwiseContract, which are separately proved equal to the helpers read from np_blockwise.py (src_blockwise_expand, src_blockwise_contract_partial); the composition is by name, not by a single evaluator. (b) and (c) are what the three-way differential run (implementation / hand model / source-derived, every case line) still samples",
    "numpy elementwise IEEE arithmetic (implementation float output compared with the exact rational model output at 1e-11 * scale; exactly for dyadic recipes)",
    "Mathlib's real analysis (Frechet derivative HasFDerivAt/fderiv, chain rule, ContDiffAt, Real.sqrt) for Props/C13Calculus.lean: the step from the algebra to 'gradient/Hessian covariance for EVERY invariant energy' is now PROVED over R (gradient_covariance, hessian_covariance, vector_gradient_covariance) and is no longer in the trusted base; what 'gradient' and 'Hessian' mean there is fixed by the definitions grad/hess/vecGrad (fderiv applied to the unit vectors e_(i,a), rows 3i+a) in Lemmas/MillCalculus.lean, which are tied to explicit formulas for the polynomial family (grad_energy_eq_gradE, hess_energy_eq_hessE)",
    "reading of 'invariant energy' (stated in Props/C13Calculus.lean): the aligned, relabelled system has its own energy E' (per-atom parameters permuted by the atom map) with E'(align y) = E(y) near x; proved to hold for every function of the interatomic distances and every pair potential (Coulomb, harmonic), an assumption for other energies; the theorems are over the real numbers whereas the implementation computes in IEEE doubles (numerical agreement is the oracle's job, not the theorems')",
    "harness/c13.py generators and the numpy oracle (analytic first/second derivatives of pair potentials, validated against finite differences during development)",
    "numpy's memory-layout machinery used by the harness to present the same values differently (order='F', slicing with steps, flags.writeable, np.may_share_memory) and bitwise array comparison (NaN-aware) for the 'argument untouched' / 'held result untouched' clauses",
]
ASSUMPTIONS = [
    "recipes inside the quantifier only: rotation orthogonal (proper, from quaternions), atommap a permutation of 1-10 atoms, shift (3,), mirror on/off; out-of-range / negative / repeated atommap entries are not generated",
    "square (3n,3n) C-contiguous float Hessians; blockwise_expand only for 2-D arrays whose shape the block shape divides, aslist=False (the call align_hessian makes)",
    "vector / vector-gradient covariance is demanded for mirror=False only (as the property says); with mirror=True those two methods are only tied to the model",
    "reverse=True coordinate transform: modelled, tied, proved an isometry; the property makes no covariance claim about it (in call sequences it is only required to be a function of its input values and to leave arguments and earlier results alone)",
    "argument representations explored: float64 ndarrays that are C-ordered, Fortran-ordered, strided views, negative-stride views, read-only, or C-contiguous windows of a larger buffer; (3,3n) vector derivatives also as three separate component arrays; per-atom arrays of int / float / str dtype in the 1-D layouts and with one row per atom ((n,3), (n,2), (n,2,2), (n,1) str, Fortran order); recipe fields given as C / Fortran / strided arrays, flat (9,) or (1,3) shapes, lists, int32/int64 atom maps. Not generated: float32 / integer / non-native-byte-order geometries, nested lists where the code calls ndarray methods (align_vector, align_atoms, align_hessian), Hessians that are not C-contiguous (blockwise_expand asserts)",
    "call sequences are single-threaded, one process, at most 3 recipes x 5 systems x ~100 calls; state that survives longer than one sequence is exercised only in so far as later sequences (same process) are judged by the same oracle",
    "align_system / align_mini_system: read from the source as the tuple of component calls (src_align_system, src_align_mini_system) and additionally tied componentwise to alignCoords / alignAtoms in the call sequences; the per-atom arrays of one call may have different dtypes, the theorem is stated for one element type",
    "source tie: only the value-level meaning of the method bodies is read (aliasing / in-place effects on arguments are not in the AST; the oracle's 'argument untouched' clauses sample them); blockwise_expand only on the aslist=False, require_aligned_blocks=True path for 2-D C-contiguous arrays; blockwise_contract on arrays with gr, lr, lc > 0 (on an empty (0,gc,lr,lc) array numpy cannot infer the -1 of the reshape and raises ValueError - so does the source-derived evaluator - while the hand model returns the empty array; a 0-atom Hessian is outside the quantifier)",
]
RULE = (
    "a scenario = (recipe: integer-quaternion or float-quaternion rotation, shift, permutation of n=1..10 atoms, mirror) x (geometry with "
    "min distance 0.7, symmetric random couplings for Coulomb/harmonic/polynomial pair energies, an antisymmetric-weighted pair vector field, "
    "random non-symmetric gradient/Hessian/vector-derivative arrays); each scenario is pushed through all six AlignmentMill methods (+reverse) and the "
    "model; a 'dyadic' sub-stream (signed-permutation rotations, few-bit coordinates) is compared exactly. Separate blockwise scenarios: random "
    "(gr,gc,lr,lc) up to 6x6 blocks of up to 5x5. Distinct by (n, permutation, mirror, rotation, kind); non-trivial when the permutation is not the "
    "identity or mirror is on or the rotation is not the identity. Call sequences ('seq'): 1-3 recipes (fields handed over as C/F/strided arrays, flat or row "
    "shapes, lists, int32/int64 maps) x 2-5 systems (fresh ones and displaced copies sharing the couplings, mostly of one size so that shapes collide) x 6-20 calls drawn "
    "from align_coordinates (forward/reverse), align_gradient, align_hessian, align_vector, align_vector_gradient, align_atoms (int/float/str), align_system, "
    "align_mini_system, shuffled, half of the sequences with one method swept over all systems in a row; every call picks a memory layout for its argument (C, F, strided, "
    "negative strides, read-only, window of a larger buffer, three separate rows), may refill and reuse the buffer of an earlier call, and its result is either held "
    "untouched or overwritten by the caller. Per seed 4 enumerated sequences (mirror off/on x dyadic/general) call every method in every layout it accepts twice, "
    "rotating over 4 systems and 2 recipes, all results held. All clauses are evaluated only after the last call on what the caller then holds; a failing sequence is "
    "shrunk (ddmin over the calls, then layouts/reuse/overwrite relaxed) and the replay carries both the short and the generated sequence. "
    "Three-way: every model line of every stream (single calls, blockwise, call sequences) is sent to the driver twice - as it is (hand model) and with the prefix src| (the function regenerated "
    "from the source on this run) - the implementation is compared with both, and the two exact answers must be identical text."
)
LEVEL_TEXT = (
    "proof: all algebraic clauses (affine map, J orthogonal action, pairing and Hessian bilinear form preserved, blocking lossless, same atom map, "
    "vector/vector-gradient chain rule, and full gradient/Hessian covariance for the polynomial pair energies with their derivatives formally tied) hold for "
    "every n and every recipe over any commutative ring; and over the reals, with Mathlib's Frechet derivative and about the same model definitions, the "
    "calculus bridge is proved: for EVERY energy pair with E'(align y) = E(y) near x that is (twice) differentiable, the gradient / Hessian arrays at the aligned "
    "geometry equal align_gradient / align_hessian of those at x (mirror on and off), likewise the nuclear derivatives of every equivariant vector field (mirror off); "
    "specialised, with the invariance hypothesis discharged, to all C^2 functions of the interatomic distances, all pair potentials with C^2 pair functions and "
    "(no analytic hypothesis left) the Coulomb + harmonic energies at non-coincident geometries. The model is tied to the code by a translator: the bodies of all eight align_* methods "
    "and of blockwise_expand / blockwise_contract are re-read from the source on every run into a small array-expression AST whose evaluation is PROVED equal to the hand model for every size, recipe and "
    "input (Props/C13Src.lean), so all of the above holds of the functions read from the source (headline theorems restated over them), and every case line is run three ways (implementation, hand model, "
    "source-derived). partial: what the AST constructors mean (numpy's index-level semantics as written in Model/MillAst.lean) and the translator's reading of statements are trusted and only sampled by the "
    "differential run, and the theorems speak about exact real "
    "arithmetic, not about floating-point rounding. Outside the model (sampled by the oracle only, no theorem): that the Python methods are functions of the VALUES of "
    "their arguments - independent of memory layout, of what was called before, of which recipe objects exist - and that they neither write to their arguments nor "
    "to arrays they returned earlier; the Lean model is a pure function of values, so these are exactly the hypotheses under which the theorems transfer to a program "
    "that makes more than one call."
)
TECHNIQUE = "source-to-AST translator (Python ast -> Lean) with a Lean 4 proof that the regenerated ASTs evaluate to the hand model + Lean 4 proof over a generic commutative ring of a core-Lean model + Lean 4/Mathlib proof over the reals (Frechet derivative) of the covariance of every invariant energy + exact-rational differential correspondence + analytic-energy oracle"

TOL = 1e-11  # model (exact) vs implementation (float), times the scale of the operands
OTOL = 2e-9  # oracle: float analytic derivatives on both sides, times (1 + max|reference|)


# --------------------------------------------------------------------------------------
# encoding


def fr(x) -> str:
    f = Fraction(float(x))
    return str(f.numerator) if f.denominator == 1 else f"{f.numerator}/{f.denominator}"


def enc(a) -> str:
    return " ".join(fr(x) for x in np.asarray(a, dtype=float).ravel())


def parse_model(line: str):
    """'ok r1 r2 ...' -> list of Fractions, or the raw error token"""
    if not line.startswith("ok"):
        return line
    return [Fraction(t) for t in line.split()[1:]]


def mill_of(s):
    from qcelemental.models import AlignmentMill

    return AlignmentMill(
        shift=np.array(s["shift"], dtype=float),
        rotation=np.array(s["rot"], dtype=float),
        atommap=np.array(s["map"], dtype=int),
        mirror=bool(s["mirror"]),
    )


def recipe_fields(s) -> str:
    return "|".join(["1" if s["mirror"] else "0", enc(s["shift"]), enc(s["rot"]), " ".join(str(int(i)) for i in s["map"])])


# --------------------------------------------------------------------------------------
# independent analytic pair energies (numpy floats)


def pair_derivs(x, p1, p2):
    """gradient (n,3) and Hessian (3n,3n) of E = sum_{i<j} phi_ij(r_ij); p1/p2 return phi', phi'' as (n,n) arrays."""
    n = len(x)
    d = x[:, None, :] - x[None, :, :]
    r = np.sqrt((d**2).sum(-1))
    rr = r + np.eye(n)  # avoid /0 on the diagonal; diagonal is masked below
    f1 = p1(rr) * (1 - np.eye(n))
    f2 = p2(rr) * (1 - np.eye(n))
    grad = (f1 / rr)[:, :, None] * d
    grad = grad.sum(1)
    # T_ab(i,j) = phi'' D_a D_b / r^2 + phi' (delta_ab / r - D_a D_b / r^3)
    dd = d[:, :, :, None] * d[:, :, None, :]
    T = (f2 / rr**2 - f1 / rr**3)[:, :, None, None] * dd + (f1 / rr)[:, :, None, None] * np.eye(3)[None, None]
    H = np.zeros((n, n, 3, 3))
    for i in range(n):
        for j in range(n):
            if i != j:
                H[i, j] = -T[i, j]
        H[i, i] = T[i].sum(0)
    return grad, H.transpose(0, 2, 1, 3).reshape(3 * n, 3 * n)


def energies(s, x, perm=None):
    """the three test energies at geometry x with couplings (optionally permuted by the atom map: k'_{ij} = k_{map i, map j})"""
    out = {}

    def P(a):
        a = np.array(a, dtype=float)
        return a if perm is None else a[np.ix_(perm, perm)]

    Q, Kh, R0, Kp, Cp = P(s["Q"]), P(s["Kh"]), P(s["R0"]), P(s["Kp"]), P(s["Cp"])
    out["coulomb"] = pair_derivs(x, lambda r: -Q / r**2, lambda r: 2 * Q / r**3)
    out["harmonic"] = pair_derivs(x, lambda r: 2 * Kh * (r - R0), lambda r: 2 * Kh + 0 * r)
    out["poly"] = pair_derivs(x, lambda r: 4 * Kp * (r**2 - Cp) * r, lambda r: 4 * Kp * (r**2 - Cp) + 8 * Kp * r**2)
    # a MANY-BODY invariant energy: E = S^2 with S = sum_{i<j} B_ij |x_i - x_j|^2 (B = the symmetric part of Kp, zero diagonal).
    # Hess E = 2 gS gS^T + 2 S Hess S: its off-diagonal 3x3 atom blocks 2 g_i g_j^T are NOT symmetric matrices, unlike those of
    # every pair potential above (phi'' D D^T / r^2 + ...), so an atom block that comes back transposed is visible only here.
    n = len(x)
    B = 0.5 * (Kp + Kp.T) * (1 - np.eye(n)) * 0.05
    d = x[:, None, :] - x[None, :, :]
    S = 0.5 * float((B * (d**2).sum(-1)).sum())
    gS = 2.0 * (B[:, :, None] * d).sum(1)  # (n,3)
    HS = np.zeros((n, n, 3, 3))
    for i in range(n):
        for j in range(n):
            if i != j:
                HS[i, j] = -2.0 * B[i, j] * np.eye(3)
        HS[i, i] = 2.0 * B[i].sum() * np.eye(3)
    HS = HS.transpose(0, 2, 1, 3).reshape(3 * n, 3 * n)
    gflat = gS.reshape(-1)
    out["manybody"] = (2.0 * S * gS, 2.0 * np.outer(gflat, gflat) + 2.0 * S * HS)
    return out


def field(s, x, perm=None):
    """mu(x) = sum_{i<j} A_ij (x_i - x_j) g(|x_i-x_j|^2), g(t) = 1/(1+t); returns mu (3,) and d mu (3, 3n)"""
    A = np.array(s["W"], dtype=float)
    A = A - A.T
    if perm is not None:
        A = A[np.ix_(perm, perm)]
    n = len(x)
    d = x[:, None, :] - x[None, :, :]
    t = (d**2).sum(-1)
    g = 1 / (1 + t)
    g1 = -1 / (1 + t) ** 2
    mu = 0.5 * (A[:, :, None] * g[:, :, None] * d).sum((0, 1))
    dmu = np.zeros((3, 3 * n))
    for k in range(n):
        blk = np.zeros((3, 3))
        for j in range(n):
            if j != k:
                blk += A[k, j] * (g[k, j] * np.eye(3) + 2 * g1[k, j] * np.outer(d[k, j], d[k, j]))
        dmu[:, 3 * k : 3 * k + 3] = blk  # blk[a,b] = d mu_a / d x_{k,b}
    return mu, dmu


# --------------------------------------------------------------------------------------
# generators


def quat_rot_exact(q):
    a, b, c, d = q
    nn = a * a + b * b + c * c + d * d
    U = [
        [a * a + b * b - c * c - d * d, 2 * (b * c - a * d), 2 * (b * d + a * c)],
        [2 * (b * c + a * d), a * a - b * b + c * c - d * d, 2 * (c * d - a * b)],
        [2 * (b * d - a * c), 2 * (c * d + a * b), a * a - b * b - c * c + d * d],
    ]
    return [[Fraction(u, nn) for u in row] for row in U]


def gen_perm(rng, n):
    kind = rng.choice(["id", "rand", "rand", "rand", "cycle", "swap", "rev"])
    p = list(range(n))
    if kind == "rand":
        rng.shuffle(p)
    elif kind == "cycle" and n > 1:
        k = rng.randrange(1, n)
        p = p[k:] + p[:k]
    elif kind == "swap" and n > 1:
        i, j = rng.sample(range(n), 2)
        p[i], p[j] = p[j], p[i]
    elif kind == "rev":
        p.reverse()
    return p


def gen_geom(rng, n, dyadic):
    pts = []
    tries = 0
    while len(pts) < n:
        tries += 1
        if dyadic:
            p = [rng.randint(-24, 24) / 4.0 for _ in range(3)]
        else:
            p = [round(rng.uniform(-4, 4), rng.choice([2, 6, 10])) for _ in range(3)]
        if all(math.dist(p, q) >= (1.0 if dyadic else 0.7) for q in pts) or tries > 5000:
            pts.append(p)
    return pts


def sym(rng, n, lo, hi, dyadic):
    m = [[0.0] * n for _ in range(n)]
    for i in range(n):
        for j in range(i, n):
            v = rng.randint(int(lo * 8), int(hi * 8)) / 8.0 if dyadic else rng.uniform(lo, hi)
            m[i][j] = m[j][i] = v
    return m


def gen_scenario(rng, n=None, dyadic=None):
    if n is None:
        n = rng.choice([1, 2, 2, 3, 3, 3, 4, 4, 4, 5, 5, 6, 6, 7, 8, 9, 10])
    if dyadic is None:
        dyadic = rng.random() < 0.2
    if dyadic:
        # |q|^2 in {1,2,4}: signed permutation matrices, exactly representable; all float arithmetic is exact
        q = rng.choice([(1, 0, 0, 0), (0, 1, 0, 0), (1, 1, 0, 0), (1, 0, -1, 0), (1, 1, 1, 1), (1, -1, 1, 1), (0, 1, 1, 0), (1, 0, 0, 1), (1, -1, -1, 1), (0, 0, 1, -1)])
        rot = [[float(v) for v in row] for row in quat_rot_exact(q)]
        shift = [rng.randint(-16, 16) / 4.0 for _ in range(3)]
        rk = "dyadic"
    else:
        mode = rng.random()
        if mode < 0.12:
            # rotations by a SMALL non-zero angle about a generic axis (integer quaternion (N, a, b, c) with N >> |(a,b,c)|:
            # angle ~ 2|(a,b,c)|/N from 1e-3 down to 1e-8 rad): nothing in the recipe's action may be skipped as "no rotation"
            N = rng.choice([10**3, 10**4, 10**5, 10**6, 10**7, 3 * 10**8])
            while True:
                v3 = tuple(rng.randint(-3, 3) for _ in range(3))
                if any(v3):
                    break
            q = (N,) + v3
            rot = [[float(v) for v in row] for row in quat_rot_exact(q)]
            rk = "tinyangle"
        elif mode < 0.65:
            while True:
                q = tuple(rng.randint(-7, 7) for _ in range(4))
                if any(q):
                    break
            rot = [[float(v) for v in row] for row in quat_rot_exact(q)]
            rk = "intquat"
        elif mode < 0.95:
            q = np.array([rng.gauss(0, 1) for _ in range(4)])
            q = q / np.linalg.norm(q)
            a, b, c, d = q
            rot = [
                [a * a + b * b - c * c - d * d, 2 * (b * c - a * d), 2 * (b * d + a * c)],
                [2 * (b * c + a * d), a * a - b * b + c * c - d * d, 2 * (c * d - a * b)],
                [2 * (b * d - a * c), 2 * (c * d + a * b), a * a - b * b - c * c + d * d],
            ]
            rot = [[float(v) for v in row] for row in rot]
            rk = "floatquat"
        else:
            rot = [[1.0, 0.0, 0.0], [0.0, 1.0, 0.0], [0.0, 0.0, 1.0]]
            rk = "identity"
        shift = [rng.choice([0.0, round(rng.uniform(-5, 5), rng.choice([1, 8]))]) for _ in range(3)]
    R = lambda lo, hi, shape: (np.array([rng.randint(int(lo * 8), int(hi * 8)) / 8.0 for _ in range(int(np.prod(shape)))]) if dyadic else np.array([rng.uniform(lo, hi) for _ in range(int(np.prod(shape)))])).reshape(shape).tolist()  # noqa
    s = {
        "type": "mill",
        "n": n,
        "dyadic": bool(dyadic),
        "rotkind": rk,
        "mirror": rng.random() < 0.5,
        "shift": shift,
        "rot": rot,
        "map": gen_perm(rng, n),
        "geom": gen_geom(rng, n, dyadic),
        "Q": sym(rng, n, -2, 2, dyadic),
        "Kh": sym(rng, n, 0.1, 2, dyadic),
        "R0": sym(rng, n, 0.5, 3, dyadic),
        "Kp": sym(rng, n, -1, 1, dyadic),
        "Cp": sym(rng, n, 0, 6, dyadic),
        "W": R(-1, 1, (n, n)),
        "rgrad": R(-3, 3, (n, 3)),
        "rhess": R(-3, 3, (3 * n, 3 * n)),
        "rvec": R(-3, 3, (3,)),
        "rmu": R(-3, 3, (3, 3 * n)),
        "atoms": [rng.randint(-5, 120) for _ in range(n)],
    }
    return s


def gen_blk(rng):
    gr, gc = rng.randint(1, 6), rng.randint(1, 6)
    if rng.random() < 0.5:
        lr = lc = 3
    else:
        lr, lc = rng.randint(1, 5), rng.randint(1, 5)
    vals = [float(rng.randint(-999, 999)) / rng.choice([1, 8, 7]) for _ in range(gr * lr * gc * lc)]
    return {"type": "blk", "dims": [gr, gc, lr, lc], "data": vals}


# --------------------------------------------------------------------------------------
# one scenario: implementation calls, model lines, comparison, oracle

MILL_OPS = ["coordsF", "coordsR", "grad_rand", "hess_rand", "vec", "vecgrad_rand", "atoms", "grad_phys", "hess_phys", "vecgrad_phys"]


def impl_mill(s):
    """Run every method of the implementation once. Returns dict op -> (array | ('err', cls)), operands, scale."""
    mill = mill_of(s)
    x = np.array(s["geom"], dtype=float)
    n = s["n"]
    E = energies(s, x)
    mu, dmu = field(s, x)
    ops = {
        "coordsF": ("coords|0|", x, lambda: mill.align_coordinates(x)),
        "coordsR": ("coords|1|", x, lambda: mill.align_coordinates(x, reverse=True)),
        "grad_rand": ("grad|", np.array(s["rgrad"], dtype=float), None),
        "grad_phys": ("grad|", E["coulomb"][0], None),
        "hess_rand": ("hess|", np.ascontiguousarray(np.array(s["rhess"], dtype=float)), None),
        "hess_phys": ("hess|", np.ascontiguousarray(E["poly"][1]), None),
        "vec": ("vec|", np.array(s["rvec"], dtype=float), None),
        "vecgrad_rand": ("vecgrad|", np.array(s["rmu"], dtype=float), None),
        "vecgrad_phys": ("vecgrad|", dmu, None),
    }
    res, lines, scales = {}, {}, {}
    for op, (prefix, arg, fn) in ops.items():
        if fn is None:
            if op.startswith("grad"):
                fn = lambda a=arg: mill.align_gradient(a)  # noqa
            elif op.startswith("hess"):
                fn = lambda a=arg: mill.align_hessian(a)  # noqa
            elif op == "vec":
                fn = lambda a=arg: mill.align_vector(a)  # noqa
            else:
                fn = lambda a=arg: mill.align_vector_gradient(a)  # noqa
        try:
            res[op] = np.asarray(fn(), dtype=float)
        except Exception as e:  # noqa
            res[op] = ("err", err_class(e))
        lines[op] = prefix + recipe_fields(s) + "|" + enc(arg)
        amax = float(np.max(np.abs(arg))) if arg.size else 0.0
        rmax = float(np.max(np.abs(s["rot"])))
        smax = float(np.max(np.abs(s["shift"]))) if op.startswith("coords") else 0.0
        scales[op] = 1.0 + 9.0 * (amax + smax) * max(1.0, rmax) ** 2
    ats = np.array(s["atoms"], dtype=int)
    try:
        res["atoms"] = np.asarray(mill.align_atoms(ats))
    except Exception as e:  # noqa
        res["atoms"] = ("err", err_class(e))
    lines["atoms"] = "atoms|" + " ".join(str(int(i)) for i in s["map"]) + "|" + " ".join(str(int(a)) for a in s["atoms"])
    scales["atoms"] = 0.0
    return mill, x, E, (mu, dmu), res, lines, scales


def compare3(out: Outcome, s, op, impl, model_line, src_line, scale, exact):
    """three-way: implementation vs hand model, implementation vs source-derived function, hand model vs source-derived (exact text)"""
    compare(out, s, op, impl, model_line, scale, exact)
    if src_line is None:
        return
    out.count("three_way_lines")
    compare(out, s, op + ":source-derived", impl, src_line, scale, exact)
    if model_line is not None and src_line != model_line:
        out.mismatches.append(Finding("mismatch:source-derived-vs-hand-model:" + op, case_of(s), observed=src_line[:200], expected=model_line[:200],
                                      detail="the function regenerated from the source and the hand model of Model/Mill.lean give different exact answers on this line"))


def compare(out: Outcome, s, op, impl, model_line, scale, exact):
    """implementation float output vs exact model output"""
    if model_line is None:
        return
    m = parse_model(model_line)
    if isinstance(impl, tuple):
        ci = "err " + impl[1]
        if not (isinstance(m, str) and m == ci):
            out.mismatches.append(Finding("mismatch:" + op, case_of(s), observed=ci, expected=model_line[:200], detail="implementation raised, model did not agree"))
        return
    if isinstance(m, str):
        out.mismatches.append(Finding("mismatch:" + op, case_of(s), observed="array", expected=m, detail="model refused an input the implementation accepted"))
        return
    flat = impl.ravel()
    if len(flat) != len(m):
        out.mismatches.append(Finding("mismatch:" + op, case_of(s), observed=f"{len(flat)} values", expected=f"{len(m)} values", detail="shape differs"))
        return
    tol = 0.0 if (exact or op == "atoms") else TOL * scale
    worst, wi = 0.0, -1
    for i, (a, b) in enumerate(zip(flat, m)):
        dlt = abs(float(Fraction(float(a)) - b)) if math.isfinite(float(a)) else float("inf")
        if dlt > worst:
            worst, wi = dlt, i
    if worst > tol:
        out.mismatches.append(
            Finding("mismatch:" + op, case_of(s), observed=float(flat[wi]), expected=float(m[wi]),
                    detail=f"op={op} flat index {wi}: |impl - model| = {worst:.3e} > {tol:.1e}")
        )


def case_of(s):
    return {"scenario": s}


def close(a, b, tol=OTOL):
    a, b = np.asarray(a, dtype=float), np.asarray(b, dtype=float)
    if a.shape != b.shape:
        return False, float("inf")
    if a.size == 0:
        return True, 0.0
    err = float(np.max(np.abs(a - b)))
    return err <= tol * (1.0 + float(np.max(np.abs(b)))), err


def oracle_mill(out: Outcome, s, mill, x, E, fld, res):
    """The property, stated on the implementation's outputs only."""
    perm = list(s["map"])
    n = s["n"]
    V = lambda kind, obs, exp, detail: out.violations.append(Finding(kind, case_of(s), observed=obs, expected=exp, detail=detail))  # noqa
    xa = res["coordsF"]
    if isinstance(xa, tuple):
        V("oracle:raises", "err " + xa[1], "array", "align_coordinates raised on a recipe inside the quantifier")
        return
    if xa.shape != (n, 3):
        V("oracle:atoms_same_map", list(xa.shape), [n, 3], "aligned geometry has the wrong shape")
        return
    # --- per-atom arrays and coordinates use the same atom map
    ats = res["atoms"]
    want = [s["atoms"][p] for p in perm]
    if isinstance(ats, tuple) or list(map(int, ats)) != want:
        V("oracle:atoms_same_map", str(ats), want, "align_atoms(a)[i] != a[atommap[i]]")
    labels = np.array([f"L{i}" for i in range(n)])
    lab2 = mill.align_atoms(labels)
    if list(lab2) != [f"L{p}" for p in perm]:
        V("oracle:atoms_same_map", list(map(str, lab2)), [f"L{p}" for p in perm], "align_atoms on a string array does not follow atommap")
    # per-atom arrays with one ROW per atom (per-atom vectors / tag pairs / the geometry itself / (n,2,2) blocks): rows follow
    # the atom map exactly like the coordinates do; also through align_system / align_mini_system's per-atom slots
    for tag2, arr2 in (("(n,3) float", np.arange(3 * n, dtype=float).reshape(n, 3) * 0.5 + 1.0), ("(n,2) int", np.arange(2 * n).reshape(n, 2) + 7),
                       ("(n,2,2) float", np.arange(4 * n, dtype=float).reshape(n, 2, 2)), ("(n,1) str", np.array([[f"T{i}"] for i in range(n)])),
                       ("(n,3) float, Fortran order", np.asfortranarray(np.arange(3 * n, dtype=float).reshape(n, 3) - 2.0))):
        try:
            got2 = np.asarray(mill.align_atoms(arr2))
            exp2 = np.asarray(arr2)[perm]
            if got2.shape != exp2.shape or not np.array_equal(got2, exp2):
                V("oracle:atoms_same_map", f"shape {list(got2.shape)}", f"shape {list(exp2.shape)} = rows a[atommap[i]]", f"align_atoms on a {tag2} per-atom array does not permute its rows by atommap")
                break
        except Exception as e:  # noqa
            V("oracle:atoms_same_map", f"{type(e).__name__}: {e}"[:200], "rows a[atommap[i]]", f"align_atoms raised on a {tag2} per-atom array")
            break
    D0 = np.sqrt(((x[:, None] - x[None]) ** 2).sum(-1))
    D1 = np.sqrt(((xa[:, None] - xa[None]) ** 2).sum(-1))
    ok, err = close(D1, D0[np.ix_(perm, perm)])
    if not ok:
        V("oracle:atoms_same_map", err, 0.0, "interatomic distances of the aligned geometry are not those of the original permuted by atommap (coordinates not moved rigidly with the same atom map as align_atoms)")
        return  # the aligned geometry is not a rigid image: covariance clauses below are meaningless
    # --- energy covariance: gradient / Hessian at the aligned geometry = aligned gradient / Hessian
    E2 = energies(s, xa, perm)
    for name in ("coulomb", "harmonic", "poly", "manybody"):
        g, H = E[name]
        g2, H2 = E2[name]
        try:
            ag = np.asarray(mill.align_gradient(g))
            ok, err = close(ag, g2)
            if not ok:
                V("oracle:gradient_covariance", err, 0.0, f"{name}: align_gradient(grad E(x)) != grad E'(align_coordinates(x))")
        except Exception as e:  # noqa
            V("oracle:raises", "err " + err_class(e), "array", "align_gradient raised")
        try:
            aH = np.asarray(mill.align_hessian(np.ascontiguousarray(H)))
            ok, err = close(aH, H2)
            if not ok:
                V("oracle:hessian_covariance", err, 0.0, f"{name}: align_hessian(Hess E(x)) != Hess E'(align_coordinates(x)) (mirror={s['mirror']})")
        except Exception as e:  # noqa
            V("oracle:raises", "err " + err_class(e), "array", "align_hessian raised")
    # --- a recipe DERIVED from this (already used) one by pydantic's copy(update=...) acts as the recipe with the updated fields:
    #     same answers as a mill built from scratch with those fields
    try:
        from qcelemental.models import AlignmentMill

        g0, H0 = E["manybody"]
        for upd in ({"mirror": not bool(s["mirror"])}, {"rotation": np.asarray(mill.rotation).T.copy()}):
            d = mill.copy(update=upd)
            fresh = AlignmentMill(**{**{k: getattr(mill, k) for k in ("shift", "rotation", "atommap", "mirror")}, **upd})
            for name, f in (("align_gradient", lambda m_: m_.align_gradient(g0)), ("align_hessian", lambda m_: m_.align_hessian(np.ascontiguousarray(H0))),
                            ("align_coordinates", lambda m_: m_.align_coordinates(x))):
                ok, err = close(np.asarray(f(d)), np.asarray(f(fresh)))
                if not ok:
                    V("oracle:derived_recipe", err, 0.0, f"{name} of mill.copy(update={sorted(upd)}) (taken after the mill was used) differs from a mill built with those fields")
                    break
    except Exception as e:  # noqa
        V("oracle:raises", "err " + err_class(e), "array", "copy(update=...) of a recipe / its methods raised")
    # --- attached vector field and its nuclear derivatives (recipes without mirror only)
    if not s["mirror"]:
        mu, dmu = fld
        mu2, dmu2 = field(s, xa, perm)
        try:
            ok, err = close(mill.align_vector(mu), mu2)
            if not ok:
                V("oracle:vector_covariance", err, 0.0, "align_vector(mu(x)) != mu'(align_coordinates(x))")
            # displacement vectors between atoms are attached vectors too
            if n >= 2:
                ok, err = close(mill.align_vector(x[perm[0]] - x[perm[1]]), xa[0] - xa[1])
                if not ok:
                    V("oracle:vector_covariance", err, 0.0, "align_vector(x_a - x_b) != x'_a' - x'_b'")
            # several attached vectors handed over at once, one per ROW (the commented-out `alvec[:, 1]` of the method shows the
            # layout it is written for): row k of the answer is the single-vector answer for row k — for every K, K = 3 included
            for K in (1, 2, 3, 4):
                stack = np.array([mu * (k + 1.0) + 0.25 * k * np.array([1.0, -2.0, 0.5]) for k in range(K)])
                got = np.asarray(mill.align_vector(stack))
                want = np.array([np.asarray(mill.align_vector(stack[k])) for k in range(K)])
                ok, err = close(got, want) if got.shape == want.shape else (False, float("inf"))
                if not ok:
                    V("oracle:vector_covariance", err, 0.0, f"align_vector on a ({K},3) stack of row vectors is not the row-wise single-vector result")
                    break
        except Exception as e:  # noqa
            V("oracle:raises", "err " + err_class(e), "array", "align_vector raised")
        try:
            ok, err = close(mill.align_vector_gradient(dmu), dmu2)
            if not ok:
                V("oracle:vector_gradient_covariance", err, 0.0, "align_vector_gradient(d mu(x)) != d mu'(align_coordinates(x))")
        except Exception as e:  # noqa
            V("oracle:raises", "err " + err_class(e), "array", "align_vector_gradient raised")


def lines_of(s):
    """model input lines for one scenario (also runs the implementation)"""
    if s["type"] == "blk":
        return impl_blk(s)
    return impl_mill(s)


def impl_blk(s):
    from qcelemental.util import blockwise_contract, blockwise_expand

    gr, gc, lr, lc = s["dims"]
    a = np.array(s["data"], dtype=float).reshape(gr * lr, gc * lc)
    res, lines = {}, {}
    try:
        v = blockwise_expand(a, (lr, lc), False)
        res["bexp"] = np.array(v)
    except Exception as e:  # noqa
        res["bexp"] = ("err", err_class(e))
    lines["bexp"] = f"bexp|{gr} {gc} {lr} {lc}|" + enc(a)
    b = np.array(s["data"], dtype=float).reshape(gr, gc, lr, lc)
    try:
        res["bcon"] = np.array(blockwise_contract(b))
    except Exception as e:  # noqa
        res["bcon"] = ("err", err_class(e))
    lines["bcon"] = f"bcon|{gr} {gc} {lr} {lc}|" + enc(b)
    return a, b, res, lines


def oracle_blk(out: Outcome, s, a, b, res):
    from qcelemental.util import blockwise_contract, blockwise_expand

    gr, gc, lr, lc = s["dims"]
    V = lambda kind, obs, exp, detail: out.violations.append(Finding(kind, case_of(s), observed=obs, expected=exp, detail=detail))  # noqa
    v = res["bexp"]
    if isinstance(v, tuple):
        V("oracle:raises", "err " + v[1], "view", "blockwise_expand raised on an aligned C-contiguous array")
        return
    if v.shape != (gr, gc, lr, lc):
        V("oracle:blockwise_roundtrip", list(v.shape), [gr, gc, lr, lc], "expanded shape")
        return
    for i in range(gr):
        for j in range(gc):
            if not np.array_equal(v[i, j], a[i * lr : (i + 1) * lr, j * lc : (j + 1) * lc]):
                V("oracle:blockwise_blocks", v[i, j].tolist(), a[i * lr : (i + 1) * lr, j * lc : (j + 1) * lc].tolist(), f"block ({i},{j}) of the expansion is not the ({lr}x{lc}) tile of the array")
                return
    try:
        back = blockwise_contract(blockwise_expand(a, (lr, lc), False))
        if back.shape != a.shape or not np.array_equal(back, a):
            V("oracle:blockwise_roundtrip", np.asarray(back).tolist(), a.tolist(), "contract(expand(a)) != a")
        c = res["bcon"]
        if isinstance(c, tuple):
            V("oracle:raises", "err " + c[1], "array", "blockwise_contract raised")
        else:
            again = np.array(blockwise_expand(np.ascontiguousarray(c), (lr, lc), False))
            if again.shape != b.shape or not np.array_equal(again, b):
                V("oracle:blockwise_roundtrip", again.tolist(), b.tolist(), "expand(contract(b)) != b")
    except Exception as e:  # noqa
        V("oracle:raises", "err " + err_class(e), "array", "blockwise round trip raised")
        return
    # the same blocked / unblocked values in the other memory layouts: same reordering, nothing written to the argument
    c = res["bcon"]
    if not isinstance(c, tuple):
        for layout in ("F", "strided", "neg", "readonly", "subview"):
            arg, back = lay(b, layout)
            snap = snapshot(back)
            try:
                c2 = np.array(blockwise_contract(arg))
            except Exception as e:  # noqa
                V("oracle:raises", "err " + err_class(e), "array", f"blockwise_contract raised on a {layout} 4-D array")
                continue
            if c2.shape != c.shape or not np.array_equal(c2, c):
                V("oracle:blockwise_roundtrip", c2.tolist(), np.asarray(c).tolist(), f"blockwise_contract of the same blocks held in a {layout} array is a different 2-D array (expand(contract(b)) != b)")
            if not same_bits(back, snap):
                V("oracle:argument_mutated", layout, "unchanged", "blockwise_contract wrote to its argument")
    for layout in ("readonly", "subview"):  # blockwise_expand takes C-contiguous arrays only
        arg, back = lay(a, layout)
        snap = snapshot(back)
        try:
            v2 = np.array(blockwise_expand(arg, (lr, lc), False))
        except Exception as e:  # noqa
            V("oracle:raises", "err " + err_class(e), "view", f"blockwise_expand raised on a C-contiguous {layout} array")
            continue
        if v2.shape != v.shape or not np.array_equal(v2, v):
            V("oracle:blockwise_blocks", v2.tolist(), np.asarray(v).tolist(), f"blockwise_expand of the same values held in a {layout} C-contiguous array gives other blocks")
        if not same_bits(back, snap):
            V("oracle:argument_mutated", layout, "unchanged", "blockwise_expand wrote to its argument")


# --------------------------------------------------------------------------------------
# call sequences: several recipes and several systems in one process, calls interleaved in a generated order,
# arguments in every memory layout numpy offers for the same values, argument buffers refilled and reused,
# results held (or handed to a caller that overwrites them) and judged only when the whole sequence is over

ENERGY_NAMES = ("coulomb", "harmonic", "poly", "manybody")
LAYOUTS = {
    # (n,3) geometries / gradients and (3,3n) vector derivatives: anything numpy can hold the values in
    "coords": ["C", "F", "strided", "neg", "readonly", "subview"],
    "coordsR": ["C", "F", "strided", "neg", "readonly", "subview"],
    "grad": ["C", "F", "strided", "neg", "readonly", "subview"],
    # align_hessian -> blockwise_expand accepts C-contiguous arrays only (ASSUMPTIONS)
    "hess": ["C", "readonly", "subview"],
    "vec": ["C", "strided", "neg", "readonly", "subview"],
    "vecgrad": ["C", "F", "strided", "neg", "readonly", "subview", "rows"],
    "atoms": ["C", "strided", "neg", "readonly", "subview"],
    "system": ["C", "F", "strided", "neg", "readonly", "subview"],
    "minisystem": ["C", "F", "strided", "neg", "readonly", "subview"],
}
SEQ_OPS = ["coords", "coords", "coords", "coordsR", "grad", "grad", "grad", "hess", "hess", "vec", "vec", "vecgrad", "vecgrad", "vecgrad", "atoms", "system", "minisystem"]
ROT_FORMS = ["C", "F", "strided", "flat", "list"]
SHIFT_FORMS = ["C", "strided", "row", "list"]
MAP_FORMS = ["i64", "i32", "strided", "list"]
ATOM_DTYPES = ["int", "float", "str"]


def _pad_for(v):
    if v.dtype.kind == "f":
        return np.nan
    if v.dtype.kind in "iu":
        return -999
    return "~"


def lay(values, layout):
    """the same values in another memory layout; returns (argument, backing buffer whose every cell is checked for writes)"""
    v = np.array(values)
    sl_rev = tuple(slice(None, None, -1) for _ in v.shape)
    if layout == "C":
        a = np.array(v, order="C", copy=True)
        return a, a
    if layout == "F":
        a = np.array(v, order="F", copy=True)
        return a, a
    if layout == "strided":
        big = np.full(tuple(2 * d + 1 for d in v.shape), _pad_for(v), dtype=v.dtype)
        a = big[tuple(slice(1, None, 2) for _ in v.shape)]
        a[...] = v
        return a, big
    if layout == "neg":
        big = np.array(v[sl_rev], order="C", copy=True)
        return big[sl_rev], big
    if layout == "readonly":
        a = np.array(v, order="C", copy=True)
        a.flags.writeable = False
        return a, a
    if layout == "subview":
        big = np.full(v.size + 7, _pad_for(v), dtype=v.dtype)
        a = big[4 : 4 + v.size].reshape(v.shape)
        a[...] = v
        return a, big
    if layout == "rows":  # three separate component arrays (align_vector_gradient unpacks mu_x, mu_y, mu_z)
        rows = tuple(np.array(r, order="C", copy=True) for r in v)
        return rows, rows
    raise ValueError(layout)


def same_bits(a, b) -> bool:
    if isinstance(a, tuple):
        return isinstance(b, tuple) and len(a) == len(b) and all(same_bits(x, y) for x, y in zip(a, b))
    a, b = np.asarray(a), np.asarray(b)
    if a.shape != b.shape or a.dtype.kind != b.dtype.kind:
        return False
    if a.dtype.kind == "f":
        return bool(np.array_equal(a, b, equal_nan=True))
    return bool(np.array_equal(a, b))


def snapshot(back):
    return tuple(np.array(r, copy=True) for r in back) if isinstance(back, tuple) else np.array(back, copy=True)


def mill_build(m):
    """construct the AlignmentMill of one recipe, its fields handed over in the recorded form (same values)"""
    from qcelemental.models import AlignmentMill

    rot = np.array(m["rot"], dtype=float)
    shift = np.array(m["shift"], dtype=float)
    amap = [int(i) for i in m["map"]]
    rf, sf, mf = m.get("rot_form", "C"), m.get("shift_form", "C"), m.get("map_form", "i64")
    if rf == "F":
        rot = np.asfortranarray(rot)
    elif rf == "strided":
        rot = lay(rot, "strided")[0]
    elif rf == "flat":
        rot = rot.reshape(9)
    elif rf == "list":
        rot = rot.tolist()
    if sf == "strided":
        shift = lay(shift, "strided")[0]
    elif sf == "row":
        shift = shift.reshape(1, 3)
    elif sf == "list":
        shift = shift.tolist()
    if mf == "i64":
        amap = np.array(amap, dtype=np.int64)
    elif mf == "i32":
        amap = np.array(amap, dtype=np.int32)
    elif mf == "strided":
        amap = lay(np.array(amap, dtype=np.int64), "strided")[0]
    return AlignmentMill(shift=shift, rotation=rot, atommap=amap, mirror=bool(m["mirror"]))


def atoms_values(sysd, dtype):
    ats = [int(a) for a in sysd["atoms"]]
    if dtype == "float":
        return np.array([a + 0.25 for a in ats], dtype=float)
    if dtype == "str":
        return np.array([f"L{a}_{i}" for i, a in enumerate(ats)])
    return np.array(ats, dtype=int)


def gen_seq(rng, n=None, dyadic=None, sweep_all=False, mirror=None):
    """one call sequence: 1-3 recipes, 2-5 systems (several of them displaced copies of one another, as in a
    finite-difference loop), 6-20 calls in a generated order"""
    if dyadic is None:
        dyadic = rng.random() < 0.25
    if n is None:
        n = rng.choice([1, 2, 2, 3, 3, 3, 4, 4, 5, 6, 7, 8, 10])
    nm = 2 if sweep_all else rng.choice([1, 1, 2, 2, 3])
    mills, systems = [], []
    for i in range(nm):
        ni = n if (i == 0 or rng.random() < 0.7) else rng.choice([1, 2, 3, 4, 5])
        g = gen_scenario(rng, n=ni, dyadic=dyadic)
        m = {k: g[k] for k in ("n", "mirror", "shift", "rot", "map", "rotkind")}
        if mirror is not None:
            m["mirror"] = mirror if i == 0 else (not mirror)
        m["rot_form"], m["shift_form"], m["map_form"] = rng.choice(ROT_FORMS), rng.choice(SHIFT_FORMS), rng.choice(MAP_FORMS)
        mills.append(m)
    ns = 4 if sweep_all else rng.randint(2, 5)
    for j in range(ns):
        mi = (j % nm) if (sweep_all or j < nm) else rng.randrange(nm)
        base = [t for t in systems if t["mill"] == mi]
        if base and rng.random() < 0.6:
            # a displaced copy: same couplings, geometry moved a little
            t = json.loads(json.dumps(base[0]))
            step = 0.125 if dyadic else 0.05
            t["geom"] = [[c + (rng.randint(-1, 1) * step if dyadic else rng.uniform(-step, step)) for c in row] for row in t["geom"]]
        else:
            g = gen_scenario(rng, n=mills[mi]["n"], dyadic=dyadic)
            t = {k: g[k] for k in ("n", "geom", "Q", "Kh", "R0", "Kp", "Cp", "W", "atoms")}
        t["mill"] = mi
        systems.append(t)

    def call(op, k, layout=None, then=None):
        c = {"op": op, "sys": k, "layout": layout or rng.choice(LAYOUTS[op]), "reuse": rng.random() < 0.4,
             "then": then or ("hold" if rng.random() < 0.7 else "scribble")}
        if op in ("grad", "hess"):
            c["energy"] = rng.choice(ENERGY_NAMES)
        if op == "atoms":
            c["dtype"] = rng.choice(ATOM_DTYPES)
        if op in ("system", "minisystem"):
            c["reverse"] = rng.random() < 0.3
            c["alayout"] = rng.choice(LAYOUTS["atoms"])
        return c

    calls = []
    if sweep_all:
        # every method x every layout it accepts, rotating over the systems, everything held
        k = 0
        for op in LAYOUTS:
            for layout in LAYOUTS[op]:
                for _ in range(2):
                    c = call(op, k % ns, layout, "hold")
                    if op in ("system", "minisystem"):
                        c["reverse"] = False
                    calls.append(c)
                    k += 1
        rng.shuffle(calls)
    else:
        for k in range(ns):  # every system gets an aligned geometry to evaluate the test energies at
            c = call(rng.choice(["coords", "coords", "system", "minisystem"]), k)
            if "reverse" in c:
                c["reverse"] = False
            calls.append(c)
        for _ in range(rng.randint(4, 12)):
            calls.append(call(rng.choice(SEQ_OPS), rng.randrange(ns)))
        if rng.random() < 0.5:  # one method over all the systems in a row, results collected (a displacement loop)
            op = rng.choice(["coords", "grad", "hess", "vec", "vecgrad", "atoms"])
            sweep = [call(op, k, then="hold") for k in range(ns)]
            lay0 = rng.choice(LAYOUTS[op])
            if rng.random() < 0.5:
                for c in sweep:
                    c["layout"] = lay0
            rng.shuffle(calls)
            at = rng.randint(0, len(calls))
            calls = calls[:at] + sweep + calls[at:]
        else:
            rng.shuffle(calls)
    return {"type": "seq", "dyadic": bool(dyadic), "mills": mills, "systems": systems, "calls": calls}


def seq_values(s, c, phys):
    """pristine argument values of one call (list of arrays) — phys[k] = (x, E, (mu, dmu))"""
    k = c["sys"]
    sysd = s["systems"][k]
    x, E, (mu, dmu) = phys[k]
    op = c["op"]
    if op in ("coords", "coordsR"):
        return [x]
    if op == "grad":
        return [E[c["energy"]][0]]
    if op == "hess":
        return [E[c["energy"]][1]]
    if op == "vec":
        return [mu]
    if op == "vecgrad":
        return [dmu]
    if op == "atoms":
        return [atoms_values(sysd, c.get("dtype", "int"))]
    if op == "system":
        return [x, atoms_values(sysd, "float"), atoms_values(sysd, "str"), atoms_values(sysd, "int"), atoms_values(sysd, "str")]
    if op == "minisystem":
        return [x, atoms_values(sysd, "str")]
    raise ValueError(op)


def run_seq(s):
    """Execute the sequence on the implementation. Returns (phys, records); a record holds the pristine argument values, the result as
    it was when it was returned (copy) and the very objects that were returned (looked at again when the sequence is over)."""
    mills = [mill_build(m) for m in s["mills"]]
    phys = []
    for t in s["systems"]:
        x = np.array(t["geom"], dtype=float)
        phys.append((x, energies(t, x), field(t, x)))
    bufs = {}
    recs = []
    for ci, c in enumerate(s["calls"]):
        t = s["systems"][c["sys"]]
        mill = mills[t["mill"]]
        op = c["op"]
        vals = seq_values(s, c, phys)
        args, backs = [], []
        for ai, v in enumerate(vals):
            layout = c["layout"] if ai == 0 else c.get("alayout", "C")
            key = (op, ai, v.shape, v.dtype.str, layout)
            if c.get("reuse") and layout not in ("readonly", "rows") and key in bufs:
                a, b = bufs[key]  # the caller refills the buffer it used for an earlier call
                a[...] = v
            else:
                a, b = lay(v, layout)
                bufs[key] = (a, b)
            args.append(a)
            backs.append(b)
        snaps = [snapshot(b) for b in backs]
        rec = {"ci": ci, "call": c, "vals": vals, "err": None, "parts": None, "copies": None, "arg_mutated": None, "aliases_arg": False}
        try:
            if op == "coords":
                r = mill.align_coordinates(args[0])
            elif op == "coordsR":
                r = mill.align_coordinates(args[0], reverse=True)
            elif op == "grad":
                r = mill.align_gradient(args[0])
            elif op == "hess":
                r = mill.align_hessian(args[0])
            elif op == "vec":
                r = mill.align_vector(args[0])
            elif op == "vecgrad":
                r = mill.align_vector_gradient(args[0])
            elif op == "atoms":
                r = mill.align_atoms(args[0])
            elif op == "system":
                r = mill.align_system(*args, reverse=bool(c.get("reverse")))
            else:
                r = mill.align_mini_system(*args, reverse=bool(c.get("reverse")))
            parts = tuple(r) if isinstance(r, tuple) else (r,)
            parts = tuple(np.asarray(p) for p in parts)  # asarray of an ndarray is that very object
            rec["parts"] = parts
            rec["copies"] = tuple(np.array(p, copy=True) for p in parts)
            flat_backs = [r for b in backs for r in (b if isinstance(b, tuple) else (b,))]
            rec["aliases_arg"] = any(np.may_share_memory(p, b) for p in parts for b in flat_backs)
        except Exception as e:  # noqa
            rec["err"] = err_class(e)
        for ai, (b, sn) in enumerate(zip(backs, snaps)):
            if not same_bits(b, sn):
                rec["arg_mutated"] = ai
                # put the values back so that what follows is judged on the values the caller meant
                if c["layout" if ai == 0 else "alayout"] not in ("readonly", "rows"):
                    try:
                        args[ai][...] = vals[ai]
                    except Exception:  # noqa
                        pass
        if rec["parts"] is not None and c.get("then") == "scribble":
            # the caller owns what it got back and overwrites it (e.g. accumulates in place); nothing else may change by that
            for p in rec["parts"]:
                if isinstance(p, np.ndarray) and p.flags.writeable and p.size:
                    p[...] = _pad_for(p)
        recs.append(rec)
    return phys, recs


def seq_lines(s, recs):
    """model input lines for the calls the model covers: {label: (line, rec, part index, scale)}"""
    out = {}
    for rec in recs:
        c, ci = rec["call"], rec["ci"]
        m = s["mills"][s["systems"][c["sys"]]["mill"]]
        op = c["op"]
        rf = recipe_fields(m)
        v = rec["vals"][0]
        rmax = float(np.max(np.abs(m["rot"])))
        amax = float(np.max(np.abs(v))) if (v.size and v.dtype.kind == "f") else 0.0
        smax = float(np.max(np.abs(m["shift"]))) if op in ("coords", "coordsR", "system", "minisystem") else 0.0
        scale = 1.0 + 9.0 * (amax + smax) * max(1.0, rmax) ** 2
        lab = f"seq{ci}:{op}"
        if op == "coords":
            out[lab] = ("coords|0|" + rf + "|" + enc(v), rec, 0, scale)
        elif op == "coordsR":
            out[lab] = ("coords|1|" + rf + "|" + enc(v), rec, 0, scale)
        elif op in ("system", "minisystem"):
            out[lab] = (f"coords|{1 if c.get('reverse') else 0}|" + rf + "|" + enc(v), rec, 0, scale)
            if op == "system":
                out[lab + ":elez"] = ("atoms|" + " ".join(str(int(i)) for i in m["map"]) + "|" + " ".join(str(int(a)) for a in rec["vals"][3]), rec, 3, 0.0)
        elif op == "grad":
            out[lab] = ("grad|" + rf + "|" + enc(v), rec, 0, scale)
        elif op == "hess":
            out[lab] = ("hess|" + rf + "|" + enc(v), rec, 0, scale)
        elif op == "vec":
            out[lab] = ("vec|" + rf + "|" + enc(v), rec, 0, scale)
        elif op == "vecgrad":
            out[lab] = ("vecgrad|" + rf + "|" + enc(v), rec, 0, scale)
        elif op == "atoms" and c.get("dtype", "int") == "int":
            out[lab] = ("atoms|" + " ".join(str(int(i)) for i in m["map"]) + "|" + " ".join(str(int(a)) for a in v), rec, 0, 0.0)
    return out


def describe(c):
    extra = "".join(f" {k}={c[k]}" for k in ("energy", "dtype", "reverse") if k in c)
    return f"{c['op']}(system {c['sys']}, layout {c['layout']}{extra}{', buffer reused' if c.get('reuse') else ''})"


def oracle_seq(s, phys, recs):
    """The property on the results of a whole call sequence, each result being what the caller holds when the sequence is over.
    Returns a list of Findings (case to be filled in by the caller)."""
    F = []
    V = lambda kind, obs, exp, detail: F.append(Finding(kind, None, observed=obs, expected=exp, detail=detail))  # noqa
    by_sys = {}
    for rec in recs:
        c = rec["call"]
        if rec["err"] is not None:
            V("oracle:raises", "err " + rec["err"], "array", f"call #{rec['ci']} {describe(c)} raised on an input inside the quantifier")
            continue
        if rec["arg_mutated"] is not None:
            V("oracle:argument_mutated", f"argument {rec['arg_mutated']}", "unchanged", f"call #{rec['ci']} {describe(c)} modified the caller's array: the quantity it was handed is no longer the quantity at the original geometry")
        if c.get("then") != "scribble":
            for pi, (p, cp) in enumerate(zip(rec["parts"], rec["copies"])):
                if not same_bits(p, cp):
                    later = [describe(r2["call"]) for r2 in recs if r2["ci"] > rec["ci"]]
                    V("oracle:result_overwritten", np.asarray(p).ravel()[:6].tolist(), np.asarray(cp).ravel()[:6].tolist(),
                      f"the array returned by call #{rec['ci']} {describe(c)} (part {pi}) no longer holds what it held when it was returned; calls made since: {later[:6]}"
                      + (" (the returned array shares memory with the argument buffer, which the caller has refilled since)" if rec["aliases_arg"] else ""))
        by_sys.setdefault(c["sys"], []).append(rec)
    for k, rs in sorted(by_sys.items()):
        t = s["systems"][k]
        m = s["mills"][t["mill"]]
        perm = [int(i) for i in m["map"]]
        n = t["n"]
        x, E, (mu, dmu) = phys[k]
        # values as the caller holds them at the end (for scribbled results: as they were returned)
        val = lambda rec, pi=0: np.asarray(rec["copies"][pi] if rec["call"].get("then") == "scribble" else rec["parts"][pi])  # noqa
        # --- per-atom arrays follow the atom map of the recipe
        for rec in rs:
            c = rec["call"]
            if c["op"] == "atoms":
                pairs = [(0, 0)]
            elif c["op"] == "system":
                pairs = [(1, 1), (2, 2), (3, 3), (4, 4)]
            elif c["op"] == "minisystem":
                pairs = [(1, 1)]
            else:
                continue
            if c["op"] != "atoms" and len(rec["parts"]) != len(rec["vals"]):
                V("oracle:atoms_same_map", len(rec["parts"]), len(rec["vals"]), f"call #{rec['ci']} {describe(c)}: wrong number of returned arrays")
                continue
            for ai, pi in pairs:
                want = rec["vals"][ai][perm]
                got = val(rec, pi)
                if got.shape != want.shape or not np.array_equal(got, want):
                    V("oracle:atoms_same_map", got.tolist(), want.tolist(), f"call #{rec['ci']} {describe(c)}: per-atom array {ai} is not a[atommap]")
        # --- aligned geometries of this system (every forward entry point, every layout)
        geoms = []
        D0 = np.sqrt(((x[:, None] - x[None]) ** 2).sum(-1))
        for rec in rs:
            c = rec["call"]
            if c["op"] == "coords" or (c["op"] in ("system", "minisystem") and not c.get("reverse")):
                xa = val(rec, 0)
                if xa.shape != (n, 3) or xa.dtype.kind != "f":
                    V("oracle:atoms_same_map", list(xa.shape), [n, 3], f"call #{rec['ci']} {describe(c)}: aligned geometry has the wrong shape")
                    continue
                D1 = np.sqrt(((xa[:, None] - xa[None]) ** 2).sum(-1))
                ok, err = close(D1, D0[np.ix_(perm, perm)])
                if not ok:
                    V("oracle:atoms_same_map", err, 0.0, f"call #{rec['ci']} {describe(c)}: interatomic distances of the aligned geometry are not those of the original permuted by atommap")
                    continue
                geoms.append((rec, xa))
        # --- the same values through the same method of the same recipe: one result (whatever the layout, the entry point, the moment)
        groups = {}
        for rec in rs:
            c = rec["call"]
            if c["op"] in ("coords", "system", "minisystem"):
                key = ("coords", bool(c.get("reverse")))
            elif c["op"] == "coordsR":
                key = ("coords", True)
            elif c["op"] in ("grad", "hess"):
                key = (c["op"], c["energy"])
            elif c["op"] in ("vec", "vecgrad"):
                key = (c["op"],)
            else:
                continue
            groups.setdefault(key, []).append(rec)
        for key, g in groups.items():
            r0 = g[0]
            for r1 in g[1:]:
                ok, err = close(val(r1), val(r0))
                if not ok:
                    V("oracle:call_context_dependence", err, 0.0,
                      f"the same values gave different results: call #{r0['ci']} {describe(r0['call'])} vs call #{r1['ci']} {describe(r1['call'])} (recipe {t['mill']}, mirror={m['mirror']})")
        # --- covariance, judged at every aligned geometry obtained for this system
        seen = []
        for grec, xa in geoms:
            if any(np.array_equal(xa, y) for y in seen):
                continue
            seen.append(xa)
            at = f"aligned geometry from call #{grec['ci']} {describe(grec['call'])}"
            E2 = energies(t, xa, perm)
            fld2 = None
            for rec in rs:
                c = rec["call"]
                if c["op"] == "grad":
                    ok, err = close(val(rec), E2[c["energy"]][0])
                    if not ok:
                        V("oracle:gradient_covariance", err, 0.0, f"{c['energy']}: result of call #{rec['ci']} {describe(c)} != grad E' at the {at} (mirror={m['mirror']})")
                elif c["op"] == "hess":
                    ok, err = close(val(rec), E2[c["energy"]][1])
                    if not ok:
                        V("oracle:hessian_covariance", err, 0.0, f"{c['energy']}: result of call #{rec['ci']} {describe(c)} != Hess E' at the {at} (mirror={m['mirror']})")
                elif c["op"] in ("vec", "vecgrad") and not m["mirror"]:
                    if fld2 is None:
                        fld2 = field(t, xa, perm)
                    if c["op"] == "vec":
                        ok, err = close(val(rec), fld2[0])
                        if not ok:
                            V("oracle:vector_covariance", err, 0.0, f"result of call #{rec['ci']} {describe(c)} != mu' at the {at}")
                    else:
                        ok, err = close(val(rec), fld2[1])
                        if not ok:
                            V("oracle:vector_gradient_covariance", err, 0.0, f"result of call #{rec['ci']} {describe(c)} != d mu' at the {at}")
    return F


def shrink_seq(s, kind):
    """fewest calls that still show a violation of this kind (the full sequence is kept beside it in the case)"""
    from common import shrink_list

    def fails(calls):
        s2 = dict(s, calls=calls)
        try:
            phys, recs = run_seq(s2)
            return any(f.kind == kind for f in oracle_seq(s2, phys, recs))
        except Exception:  # noqa
            return False

    try:
        calls = shrink_list(list(s["calls"]), fails, max_steps=120)
    except Exception:  # noqa
        return None
    if len(calls) == len(s["calls"]):
        return None
    # loosen what the remaining calls do not need: buffer reuse, overwriting by the caller, exotic layouts
    for i in range(len(calls)):
        for k, v in (("reuse", False), ("then", "hold"), ("layout", "C"), ("alayout", "C")):
            if k in calls[i] and calls[i][k] != v:
                cand = [dict(c) for c in calls]
                cand[i][k] = v
                if fails(cand):
                    calls = cand
    return dict(s, calls=calls)


def process_seq(ctx, out: Outcome, s, phys, recs, labelled, model_lines, src_lines):
    out.evaluations += 1
    exact = bool(s.get("dyadic"))
    for (lab, (line, rec, pi, scale)), ml, sl in zip(labelled.items(), model_lines, src_lines):
        out.count("op:seq:" + rec["call"]["op"])
        if rec["err"] is not None:
            impl = ("err", rec["err"])
        else:
            impl = rec["copies"][pi]
            impl = impl if impl.dtype.kind in "iu" else np.asarray(impl, dtype=float)
        compare3(out, s, lab, impl, ml, sl, scale, exact)
    found = oracle_seq(s, phys, recs)
    found.sort(key=lambda f: f.kind == "oracle:call_context_dependence")  # stable: the clauses the statement names come first
    if found:
        case = {"scenario": s}
        small = shrink_seq(s, found[0].kind)
        if small is not None:
            p2, r2 = run_seq(small)
            f2 = [f for f in oracle_seq(small, p2, r2)]
            if any(f.kind == found[0].kind for f in f2):
                f2.sort(key=lambda f: f.kind != found[0].kind)
                found = f2
                case = {"scenario": small, "full": s}
        for f in found:
            f.case = case
            out.violations.append(f)
    for rec in recs:
        c = rec["call"]
        out.count("seq:layout:" + c["layout"])
        out.count("seq:then:" + c.get("then", "hold"))
        if c.get("reuse"):
            out.count("seq:argument_buffer_reused")
    out.count("seq:calls", len(recs))
    out.count("seq:recipes", len(s["mills"]))
    out.count("seq:systems", len(s["systems"]))
    for m in s["mills"]:
        out.count("seq:mirror:%s" % m["mirror"])
        out.count("seq:recipe_form:rot=%s" % m.get("rot_form", "C"))
    out.nontrivial(("seq", tuple(m["n"] for m in s["mills"]), tuple(tuple(m["map"]) for m in s["mills"]),
                    hash(json.dumps(s["calls"], sort_keys=True)) & 0xFFFFFFF))
    if len(recs) <= 8:
        out.sample({"call_sequence": [describe(r["call"]) + " -> " + r["call"].get("then", "hold") for r in recs],
                    "recipes": [{k: m[k] for k in ("n", "map", "mirror", "rot_form", "shift_form", "map_form")} for m in s["mills"]]}, limit=8)


def run_both(ctx, lines):
    """the same lines through the driver as they are (hand model) and prefixed with src| (source-derived), in two driver processes side by side"""
    import time
    from concurrent.futures import ThreadPoolExecutor

    t0 = time.time()
    with ThreadPoolExecutor(2) as ex:
        b0 = getattr(ctx, "_batch", 0)
        fa = ex.submit(ctx.run_model, DRIVER, lines)
        # run_model numbers its input files with a counter on ctx: start the second call only after the first has taken its number
        while getattr(ctx, "_batch", 0) == b0 and not fa.done() and time.time() - t0 < 60:
            time.sleep(0.005)
        fb = ex.submit(ctx.run_model, DRIVER, ["src|" + l for l in lines])
        res = fa.result(), fb.result()
    ctx._c13_driver_wall = getattr(ctx, "_c13_driver_wall", 0.0) + (time.time() - t0)
    return res


def process(ctx, out: Outcome, scenarios):
    """run implementation + model + oracle on a batch of scenarios"""
    prepared = []
    all_lines = []
    for s in scenarios:
        if s["type"] == "seq":
            phys, recs = run_seq(s)
            labelled = seq_lines(s, recs)
            prepared.append((s, (phys, recs, labelled), None, {lab: v[0] for lab, v in labelled.items()}, None))
            lines = prepared[-1][3]
        elif s["type"] == "blk":
            a, b, res, lines = impl_blk(s)
            prepared.append((s, (a, b), res, lines, None))
        else:
            mill, x, E, fld, res, lines, scales = impl_mill(s)
            prepared.append((s, (mill, x, E, fld), res, lines, scales))
        all_lines.extend(lines.values())
    model = [None] * len(all_lines)
    src = [None] * len(all_lines)
    if ctx.model_available:
        # every line twice: as it is (hand model) and prefixed with `src|` (the function regenerated from the source)
        model, src = run_both(ctx, all_lines)
    k = 0
    for s, aux, res, lines, scales in prepared:
        if s["type"] == "seq":
            process_seq(ctx, out, s, aux[0], aux[1], aux[2], model[k : k + len(lines)], src[k : k + len(lines)])
            k += len(lines)
            continue
        out.evaluations += 1
        for op in lines:
            ml, sl = model[k], src[k]
            k += 1
            out.count("op:" + op)
            compare3(out, s, op, res[op], ml, sl, scales[op] if scales else 1.0, exact=(s["type"] == "blk" or s.get("dyadic", False)))
        if s["type"] == "blk":
            oracle_blk(out, s, aux[0], aux[1], res)
            out.count("blk:%dx%d" % (s["dims"][2], s["dims"][3]))
            out.nontrivial(("blk",) + tuple(s["dims"]) + (hash(tuple(s["data"])) & 0xFFFFFF,))
        else:
            oracle_mill(out, s, *aux, res)
            ident = list(s["map"]) == list(range(s["n"]))
            out.count("n:%d" % s["n"])
            out.count("mirror:%s" % s["mirror"])
            out.count("rot:" + s["rotkind"])
            out.count("perm:" + ("identity" if ident else "nontrivial"))
            out.count("compare:" + ("exact" if s["dyadic"] else "tol1e-11"))
            if (not ident) or s["mirror"] or s["rotkind"] != "identity":
                out.nontrivial((s["n"], tuple(s["map"]), s["mirror"], tuple(map(tuple, s["rot"]))))
            out.count("oracle:energy_covariance_checks(3 energies x grad+hess)", 6)
            if not s["mirror"]:
                out.count("oracle:vector+vector_gradient_checks", 2)
            if 2 <= s["n"] <= 3 and not ident:
                out.sample({"n": s["n"], "map": s["map"], "mirror": s["mirror"], "rotkind": s["rotkind"], "rot": s["rot"], "shift": s["shift"], "geom": s["geom"],
                            "align_coordinates": np.asarray(res["coordsF"]).tolist() if not isinstance(res["coordsF"], tuple) else res["coordsF"]})


def run(ctx: Ctx) -> Outcome:
    out = Outcome()
    rng = ctx.rng
    scenarios = []
    # every n, both mirror settings, dyadic and general, at least once
    for n in range(1, 11):
        for mirror in (False, True):
            for dy in (False, True):
                s = gen_scenario(rng, n=n, dyadic=dy)
                s["mirror"] = mirror
                scenarios.append(s)
    for _ in range(ctx.scale(260, 2600)):
        scenarios.append(gen_scenario(rng))
    for _ in range(ctx.scale(150, 1200)):
        scenarios.append(gen_blk(rng))
    # call sequences (drawn after the single-call streams, whose cases per seed are unchanged)
    for mirror in (False, True):
        for dy in (False, True):
            scenarios.append(gen_seq(rng, n=rng.choice([2, 3, 4]), dyadic=dy, sweep_all=True, mirror=mirror))
    for _ in range(ctx.scale(140, 1400)):
        scenarios.append(gen_seq(rng))
    B = 100
    for i in range(0, len(scenarios), B):
        process(ctx, out, scenarios[i : i + B])
    out.exhaustive = False
    out.notes.append("driver wall time (hand model and source-derived evaluation side by side): %.1f s" % getattr(ctx, "_c13_driver_wall", 0.0))
    out.notes.append("three-way: every case line is evaluated by the implementation, by the hand model and by the function regenerated from the source (driver prefix src|); "
                     "hand model and source-derived answers must be textually identical (exact rationals)")
    out.notes.append(f"model-vs-implementation tolerance {TOL:g} * operand scale (0 for dyadic scenarios and blockwise); oracle tolerance {OTOL:g} * (1+max|ref|)")
    return out


def replay(ctx: Ctx, case) -> Outcome:
    out = Outcome()
    s = case["scenario"] if isinstance(case, dict) and "scenario" in case else case
    process(ctx, out, [s])
    if not out.violations and isinstance(case, dict) and case.get("full"):
        # the shortened call sequence did not fail in this (fresh) process: run the sequence as it was generated
        process(ctx, out, [case["full"]])
    return out
