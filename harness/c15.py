"""C15 — fragment extraction, electron counts, nuclear repulsion, molecular formula.

generator -> real qcelemental (in process) -> same cases as lines to the Lean driver -> diff,
plus an independent Python oracle stating the property on the implementation's outputs.
"""
from __future__ import annotations

import contextlib
import decimal
import io
import itertools
import math
import re
from collections import Counter
from fractions import Fraction

import json
import sys

import numpy as np

import common
from common import Ctx, Finding, Outcome, err_class

sys.path.insert(0, str(common.VERIF / "tools"))
import gen_periodic  # noqa: E402  (C01's translator, used read-only)

PROPERTY = "C15"
LEAN_TARGETS = [
    "QcelVerif.Props.C15", "QcelVerif.Props.C15Formula", "QcelVerif.Props.C15Nre",
    "QcelVerif.Lemmas.FormulaStr", "QcelVerif.Props.C15FormulaStr", "QcelVerif.Props.C15Symbols", "QcelVerif.Props.C15Frag",
    "QcelVerif.Driver.C15",
    # regex tie (generic engine on the ASTs generated from molecular_formula.py)
    "QcelVerif.Model.RegexFindall", "QcelVerif.Lemmas.RegexFindall", "QcelVerif.Gen.FormulaRegex", "QcelVerif.Model.FormulaRe",
    "QcelVerif.Lemmas.FormulaRe", "QcelVerif.Props.C15Regex",
    # source tie (bodies of get_fragment / nelectrons / nuclear_repulsion_energy / molecular_formula_from_symbols regenerated
    # from the source as AST terms, evaluator, equality with the hand models)
    "QcelVerif.Model.FragmentsAst", "QcelVerif.Gen.FragmentsSrc", "QcelVerif.Model.FragmentsSrc", "QcelVerif.Props.C15Src",
    # source tie, order-preserving path / argument forms / refusals (loop invariants of the generated `else:` branch)
    "QcelVerif.Lemmas.FragmentsSrcOrdered", "QcelVerif.Props.C15SrcOrdered",
]
DRIVER = "QcelVerif/Driver/C15.lean"


def regen_periodic_table(ctx=None):
    """lean/QcelVerif/Gen/PT.lean <- qcelemental/data/nist_2011_atomic_weights.py of the tree under check
    (C01's translator; Props/C15Symbols.lean decides symbol well-formedness over the whole table)"""
    gen_periodic.gen_pt()


class TieBroken(Exception):
    """the source no longer has the shape the Lean model transcribes"""


# The body of order_molecular_formula that Model/FormulaRe.lean transcribes statement by statement.  Holes:
#   __STR_x__  any str literal (bound to x)      __INT_x__  any int literal (bound to x; the same name must bind the same value)
#   __ANY__    any expression (the error message, the default of `order` — the latter is ConstTieC15's business)
FORMULA_TEMPLATE = '''
def order_molecular_formula(formula: str, order: str = __ANY__) -> str:
    matches = re.findall(__STR_cut__, formula)
    if not "".join(matches) == formula:
        raise ValueError(__ANY__)
    count: Dict[str, int] = collections.defaultdict(int)
    for match in matches:
        match_n = re.match(__STR_split__, match)
        assert match_n
        if match_n.group(__INT_count__) == "":
            n = 1
        else:
            n = int(match_n.group(__INT_count__))
        count[match_n.group(__INT_name__)] += n
    symbols = [k for k, v in count.items() for i in range(v)]
    return molecular_formula_from_symbols(symbols=symbols, order=order)
'''

# patterns NOT from the source: they exercise the empty-match rule / laziness / alternation of the engine's findall against
# CPython's on every run (the two formula patterns can never match the empty string, so they alone would leave that rule untested)
FINDALL_PROBES = [r"x*", r"x*?", r"\d*|[a-z]", r"a|", r"\b", r"(?:ab)*?", r"[A-Z][a-z]?", r"(\D+?)(\d*)", r"(a)|b", r"\w+|", r"(x*)y?"]


def _ast_match(t, s, binds, path="body"):
    """structural equality of template node `t` and source node `s`, with holes"""
    import ast

    if isinstance(t, ast.Name) and t.id.startswith("__") and t.id.endswith("__"):
        hole = t.id.strip("_")
        if hole == "ANY":
            return
        kind, _, name = hole.partition("_")
        want = {"STR": str, "INT": int}[kind]
        if not (isinstance(s, ast.Constant) and type(s.value) is want):
            raise TieBroken(f"{path}: expected a {want.__name__} literal, found {ast.dump(s) if isinstance(s, ast.AST) else s!r}")
        if name in binds and binds[name][0] != s.value:
            raise TieBroken(f"{path}: `{name}` is {binds[name][0]!r} at line {binds[name][1]} but {s.value!r} at line {s.lineno}")
        binds.setdefault(name, (s.value, s.lineno))
        return
    if type(t) is not type(s):
        raise TieBroken(f"{path}: expected {type(t).__name__}, found {type(s).__name__}"
                        + (f" at line {s.lineno}" if hasattr(s, "lineno") else ""))
    if isinstance(t, ast.AST):
        for f in t._fields:
            if f in ("type_comment", "kind"):
                continue
            _ast_match(getattr(t, f, None), getattr(s, f, None), binds, f"{path}.{type(t).__name__}.{f}")
    elif isinstance(t, list):
        if len(t) != len(s):
            raise TieBroken(f"{path}: {len(s)} item(s) where the modelled code has {len(t)}")
        for i, (a, b) in enumerate(zip(t, s)):
            _ast_match(a, b, binds, f"{path}[{i}]")
    elif t != s:
        raise TieBroken(f"{path}: {s!r} where the modelled code has {t!r}")


def formula_regex_site():
    """-> {'cut': pattern, 'split': pattern, 'name': group number, 'count': group number, 'lines': {...}} read from
    qcelemental/molutil/molecular_formula.py of the tree under check by `ast`; raises TieBroken on any other shape of
    order_molecular_formula (entry points re.findall / re.match, the join test, the assert, the groups read, the dict fold)."""
    import ast

    src = (common.REPO / "qcelemental/molutil/molecular_formula.py").read_text()
    tree = ast.parse(src)
    # `re` must be the standard library module, bound once by a plain `import re`
    bound = []
    for n in ast.walk(tree):
        if isinstance(n, ast.Import):
            bound += [(a.asname or a.name.split(".")[0], a.name) for a in n.names]
        elif isinstance(n, ast.ImportFrom):
            bound += [(a.asname or a.name, f"{n.module}.{a.name}") for a in n.names]
        elif isinstance(n, (ast.Assign, ast.AnnAssign, ast.AugAssign)):
            for tg in (n.targets if isinstance(n, ast.Assign) else [n.target]):
                bound += [(x.id, "<assignment>") for x in ast.walk(tg) if isinstance(x, ast.Name)]
        elif isinstance(n, (ast.FunctionDef, ast.ClassDef)):
            bound.append((n.name, "<def>"))
            if isinstance(n, ast.FunctionDef):
                bound += [(a.arg, "<parameter>") for a in n.args.args + n.args.kwonlyargs + n.args.posonlyargs]
    for nm, want in (("re", "re"), ("collections", "collections")):
        if [b for b in bound if b[0] == nm] != [(nm, want)]:
            raise TieBroken(f"molecular_formula.py: the name `{nm}` is not bound exactly once by `import {want}`: {[b for b in bound if b[0] == nm]}")
    fns = [f for f in tree.body if isinstance(f, ast.FunctionDef) and f.name == "order_molecular_formula"]
    if len(fns) != 1:
        raise TieBroken(f"expected exactly one module-level order_molecular_formula, found {len(fns)}")
    fn = fns[0]
    if fn.decorator_list:
        raise TieBroken("order_molecular_formula is decorated")
    body = list(fn.body)
    if body and isinstance(body[0], ast.Expr) and isinstance(body[0].value, ast.Constant) and isinstance(body[0].value.value, str):
        body = body[1:]  # docstring
    tfn = ast.parse(FORMULA_TEMPLATE).body[0]
    binds = {}
    _ast_match(tfn.args, fn.args, binds, "order_molecular_formula.args")
    _ast_match(tfn.body, body, binds, "order_molecular_formula.body")
    return {"cut": binds["cut"][0], "split": binds["split"][0], "name": binds["name"][0], "count": binds["count"][0],
            "lines": {k: v[1] for k, v in binds.items()}}


def gen_formula_regex(ctx=None):
    """lean/QcelVerif/Gen/FormulaRegex.lean <- the two patterns of order_molecular_formula (molecular_formula.py), how they are
    used (re.findall / re.match) and which groups are read, through harness/regex_gen.py (CPython's own parse tree)."""
    import regex_gen

    site = formula_regex_site()
    try:
        trc = regex_gen.translate(site["cut"], 0)
        trs = regex_gen.translate(site["split"], 0)
        probes = [regex_gen.translate(p, 0) for p in FINDALL_PROBES]
    except regex_gen.Unsupported as e:
        raise TieBroken(f"pattern not translatable: {e}")
    if trc.ngroups != 0:
        raise TieBroken(f"the findall pattern {site['cut']!r} has capturing groups: re.findall would return the groups, the model takes whole matches")
    for k in ("name", "count"):
        if not (1 <= site[k] <= trs.ngroups):
            raise TieBroken(f"match_n.group({site[k]}) is read but {site['split']!r} defines groups 1..{trs.ngroups} (group 0 is not modelled)")
    ln = site["lines"]
    lines = [
        "import QcelVerif.Model.RegexFindall",
        "/-! GENERATED by harness/c15.py:gen_formula_regex from qcelemental/molutil/molecular_formula.py, function",
        f"order_molecular_formula: `re.findall(<cut>, formula)` (line {ln['cut']}), `re.match(<split>, match)` (line {ln['split']}),",
        f"`match_n.group({site['count']})` read as the count (line {ln['count']}), `match_n.group({site['name']})` as the dict key (line {ln['name']});",
        "the whole function body was compared with the transcribed shape (harness/c15.py:FORMULA_TEMPLATE) — do not edit.",
        "Each term is CPython's own parse tree (`re._parser.parse`, no flags) re-encoded constructor by constructor;",
        "`\\d` / `\\D` are the ASCII parts of the Unicode categories.  `probes` are NOT from the source (engine-vs-CPython test patterns). -/",
        "namespace QcelVerif.Gen.FormulaRegex",
        "open QcelVerif.Regex",
        "",
    ]
    lines += regex_gen.lean_defs("cut", trc, f"`{site['cut']}` (molecular_formula.py:{ln['cut']}), used through re.findall")
    lines += regex_gen.lean_defs("split", trs, f"`{site['split']}` (molecular_formula.py:{ln['split']}), used through re.match")
    lines += [
        "/-- the pattern texts (ASCII bytes), for the record -/",
        f"def cutPattern : List Nat := {regex_gen.bytes_lit(site['cut'])}",
        f"def splitPattern : List Nat := {regex_gen.bytes_lit(site['split'])}",
        "/-- entry points at the call sites -/",
        "def cutEntry : Entry := .findall",
        "def splitEntry : Entry := .match",
        "/-- `count[match_n.group(nameGroup)] += n`, `n` read from `match_n.group(countGroup)` -/",
        f"def nameGroup : Nat := {site['name']}",
        f"def countGroup : Nat := {site['count']}",
        "",
        "/-- test patterns for the engine's findall (not from the source): (pattern, number of groups) -/",
        "def probes : List (Re × Nat) := [",
    ]
    lines += [f"  -- {i}: {p}\n  ({tr.term}, {tr.ngroups})" + ("," if i + 1 < len(probes) else "") for i, (p, tr) in enumerate(zip(FINDALL_PROBES, probes))]
    lines += ["]", "", "end QcelVerif.Gen.FormulaRegex"]
    body = "\n".join(lines) + "\n"
    f = common.LEAN / "QcelVerif" / "Gen" / "FormulaRegex.lean"
    f.parent.mkdir(exist_ok=True)
    if not f.exists() or f.read_text() != body:
        f.write_text(body)


def gen_fragments_src(ctx=None):
    """lean/QcelVerif/Gen/FragmentsSrc.lean <- the bodies of Molecule.get_fragment / nelectrons / nuclear_repulsion_energy
    (models/molecule.py, by name) and molecular_formula_from_symbols (molutil/molecular_formula.py), statement by statement,
    as terms of Model/FragmentsAst.lean (harness/c15_src.py; any unknown construct raises)"""
    import c15_src

    c15_src.gen_fragments_src(ctx)


TRANSLATORS = [regen_periodic_table, gen_formula_regex, gen_fragments_src]
THEOREMS = [
    ("QcelVerif.Fragments.grouped_atoms_conserved", "group_fragments=True: the atoms handed to the constructor are exactly the atoms of the real fragments then of the ghost fragments, in the order requested (index by index); flags true.. then false..; new index lists have the sizes of the chosen fragments and concatenate to 0..n'-1"),
    ("QcelVerif.Fragments.ordered_atoms_conserved", "group_fragments=False, no atom in two fragments: atoms = the parent's atoms whose fragment is in real or ghost, in original order, each once; flag = (its fragment is in real)"),
    ("QcelVerif.Fragments.ordered_remap", "group_fragments=False: at2at[iat] = p means iat is the p-th kept atom (the remapped index lists name the parent fragment's atoms); strictly increasing"),
    ("QcelVerif.Fragments.ordered_fragments_partition", "group_fragments=False on a contiguous parent (every validated molecule): the remapped index lists of the selected fragments concatenate to exactly 0..n'-1"),
    ("QcelVerif.Fragments.getFragment_ok_wf", "every returned sub-molecule: index lists concatenate to 0..n'-1 (partition), one charge and multiplicity per fragment, total charge = sum of fragment charges, real/ghost disjoint, non-empty"),
    ("QcelVerif.Fragments.grouped_chgmult", "group_fragments=True success: real fragments keep (fc,fm) in the order requested, ghosts (0,1), total charge = sum over the real ones, total multiplicity = their high-spin sum"),
    ("QcelVerif.Fragments.ordered_chgmult", "group_fragments=False success: one fragment per selected parent fragment in original order with remapped index list; real keeps (fc,fm), ghost (0,1); totals completed by the constructor = sum of charges / high-spin sum"),
    ("QcelVerif.Fragments.isum_real_only", "ghost entries (0) do not contribute: the sum over selected fragments equals the sum over the real ones"),
    ("QcelVerif.Fragments.nelectrons_eq", "nelectrons() = sum(Z*real) - molecular_charge (definitional in the model; tied by correspondence)"),
    ("QcelVerif.Fragments.electrons_additive", "every atom in exactly one fragment, one charge per fragment, c = sum fc: the nelectrons(ifr) add up to nelectrons()"),
    ("QcelVerif.Fragments.child_electrons", "on every returned sub-molecule the fragment electron counts add up to the total = Z of atoms flagged real - sum of fragment charges"),
    ("QcelVerif.Fragments.nre_real_only", "ghost atoms (Zeff = 0) contribute nothing: NRE = NRE of the real atoms alone (any field, any distance function)"),
    ("QcelVerif.Fragments.nre_perm_invariant", "NRE is unchanged by any reordering (permutation) of the atoms (symmetric distance)"),
    ("QcelVerif.Fragments.nre_rigid_invariant", "NRE is unchanged by any map of positions that preserves the pair distances (rigid motions)"),
    ("QcelVerif.Formula.formula_counts", "the formula tokens list every distinct (title-cased) symbol exactly once with its positive number of occurrences, nothing else"),
    ("QcelVerif.Formula.formula_alphabetical_sorted", "alphabetical order: element keys are sorted (le a total preorder)"),
    ("QcelVerif.Formula.formula_hill", "Hill order: without C plain sorted; with C: C, then H if present, then the others sorted"),
    ("QcelVerif.Formula.order_idempotent_tokens", "re-ordering a formula's own tokens (expanded to symbols) gives the same tokens, both conventions (le a total order)"),
    # --- string (List Char) level of the formula functions
    ("QcelVerif.Formula.digitsVal_toDigits_roundtrip", "int(str(n)) = n for every n: the decimal digits render writes for a count are ASCII digits, at least one, and splitCount's digit reader returns n"),
    ("QcelVerif.Formula.toDigits_digitsVal", "converse: a non-empty ASCII digit string without leading zero is str(int(it))"),
    ("QcelVerif.Formula.render_toList", "the rendered formula is, character by character, the concatenation over the tokens of key ++ (decimal digits of the count if > 1)"),
    ("QcelVerif.Formula.parse_render", "parse(render(tokens)) = tokens for ALL token lists with keys satisfying KeyOK ([A-Z] then any number of non-[A-Z] non-digit characters), distinct keys, positive counts: the [A-Z][^A-Z]* cut, the (\\D+)(\\d*) split and the dict accumulation of order_molecular_formula return exactly the element counts, in order"),
    ("QcelVerif.Formula.parse_formula", "for all symbol lists whose title-cased symbols are WFSym ([A-Z][a-z]*): tokenising molecular_formula_from_symbols(syms, order) gives exactly the (element, count) tokens of formula_counts"),
    ("QcelVerif.Formula.order_convert_tokens", "token level, both conventions: ordering the expanded tokens of a formula in convention o' gives the tokens of the original symbols in convention o' (generalises order_idempotent_tokens)"),
    ("QcelVerif.Formula.order_formula_of_formula", "string level, all WFSym symbol lists, all o, o': order_molecular_formula(molecular_formula_from_symbols(syms, o), o') succeeds and equals molecular_formula_from_symbols(syms, o') character for character (conversion between alphabetical and Hill)"),
    ("QcelVerif.Formula.order_formula_idempotent", "string level: a library-written formula is a fixed point of order_molecular_formula in its own convention"),
    ("QcelVerif.Formula.order_formula_twice", "string level: re-ordering twice (any conventions) = re-ordering once into the last convention"),
    ("QcelVerif.Formula.wfSym_title_of_rawSym", "str.title() of any non-empty word of ASCII letters (any case) is WFSym"),
    ("QcelVerif.Formula.title_wfSym", "str.title() leaves a WFSym symbol unchanged"),
    ("QcelVerif.Formula.periodic_symbols_wf", "every symbol of the shipped periodic table (regenerated from nist_2011_atomic_weights.py) is WFSym with at most two lower-case letters, and its packing is lossless [decide +kernel over the whole table]"),
    ("QcelVerif.Formula.periodic_symbols_count", "that table has at least 118 rows (non-vacuity of the table statement)"),
    ("QcelVerif.Formula.order_formula_periodic", "for every list of periodic-table symbols: order_molecular_formula of the library-written formula = the library-written formula of the requested convention (no hypothesis left)"),
    # --- per-fragment variants
    ("QcelVerif.Fragments.nelectrons_fragment", "nelectrons(k) for a duplicate-free fragment (real and ghost atoms mixed allowed) = sum of Z over the fragment's atoms flagged real - fragment_charges[k]"),
    ("QcelVerif.Fragments.zeffIn_eq_listed", "the enumerate/`in` sum of nelectrons(ifr) equals the sum of Z*real over the listed atom indices (duplicate-free list; indices outside the molecule count 0)"),
    ("QcelVerif.Fragments.nre_fragment", "nuclear_repulsion_energy(ifr) = pair sum restricted to the atoms of the fragment with non-zero Z*real (any field, any distance function)"),
    ("QcelVerif.Fragments.nre_fragment_real", "the same with the molecule's flags: pair sum over the fragment's atoms flagged real only"),
    ("QcelVerif.Fragments.nre_fragment_all_ghost", "a fragment of ghost atoms only has nuclear repulsion energy 0"),
    ("QcelVerif.Fragments.nre_append", "NRE of two blocks = NRE(A) + NRE(B) + the inter-block pair terms"),
    ("QcelVerif.Fragments.nre_not_additive", "per-fragment energies do NOT add up to the molecule's (concrete counter-example H|H); additivity is not claimed"),
    # --- the two regexes of order_molecular_formula, taken from the source (Gen/FormulaRegex.lean) and run by the generic engine
    ("QcelVerif.Regex.scan_skip", "engine findall (any AST): stepping over the text of a reported match resumes the scan right after it, with that text's last character before the cursor"),
    ("QcelVerif.Regex.matchAt_eq_find", "engine findall (any AST): one search attempt at a cursor returns the first way to match, in backtracking order, that the must_advance rule does not reject (empty at the start when the previous match was empty)"),
    ("QcelVerif.Regex.ms_rep_cls_head", "engine (any class, any lower bound): the first way through a greedy [class]{lo,} consumes the longest run of class characters; none when the run is shorter than lo"),
    ("QcelVerif.Regex.ms_suffix", "engine (any AST): every way to match leaves the cursor on a suffix of the text it started on"),
    ("QcelVerif.Regex.scan_pieces", "engine findall (any AST, any subject): the reported matches are consecutive non-overlapping pieces of the subject, in order (subject = gap ++ match ++ gap ++ match ... ++ tail)"),
    ("QcelVerif.Formula.formula_regex_shape", "[regenerated from molecular_formula.py, rfl] the generated ASTs are CPython's parse trees of [A-Z][^A-Z]* and (\\D+)(\\d*) that the lemmas are about, used through re.findall resp. re.match, no groups resp. two, group 1 read as the key and group 2 as the count, pattern texts as in the source"),
    ("QcelVerif.Formula.generated_formula_wf", "the generated ASTs repeat no nullable body (the engine's fuel never truncates a repetition)"),
    ("QcelVerif.Formula.cutUpper_eq_findall", "for EVERY string: engine re.findall on the generated cut pattern returns exactly the chunks of the hand cutUpper, in order"),
    ("QcelVerif.Formula.cut_join_iff", "for EVERY string: the validity test ''.join(matches) == formula on the engine's findall holds iff the hand cut leaves no unmatched prefix"),
    ("QcelVerif.Formula.split_groups", "for EVERY string: engine re.match on the generated split pattern matches iff the text starts with a non-digit; then group 1 = the leading non-digits and group 2 = the digits that follow (possibly empty)"),
    ("QcelVerif.Formula.splitCount_eq_match", "for EVERY string: re.match on the generated pattern + the two group reads + int() = the hand splitCount when the text starts with a non-digit, no match otherwise"),
    ("QcelVerif.Formula.assert_never_fails", "for every formula string, re.match(<split>, chunk) succeeds on every chunk re.findall(<cut>, formula) returns: the `assert match_n` of line 29 cannot fire"),
    ("QcelVerif.Formula.orderFormulaRe_eq", "for EVERY formula string and both orders: order_molecular_formula through the generated regexes (engine) = the hand model orderFormula; hand `none` = the ValueError of line 25"),
    ("QcelVerif.Formula.parse_render_re", "parse_render restated over the generated regexes: findall/match (engine on the source's patterns) + the dict fold applied to render(tokens) give the tokens back (KeyOK keys, distinct, positive counts)"),
    ("QcelVerif.Formula.order_formula_of_formula_re", "order_formula_of_formula restated over the generated regexes: all WFSym symbol lists, all o, o': order_molecular_formula(formula(syms, o), o') = formula(syms, o') character for character"),
    ("QcelVerif.Formula.order_formula_periodic_re", "order_formula_periodic restated over the generated regexes: every list of periodic-table symbols, no hypothesis left"),
    # --- source tie: the bodies regenerated from molecule.py / molecular_formula.py as AST terms (Gen/FragmentsSrc.lean), run by the evaluator of Model/FragmentsAst.lean
    ("QcelVerif.FragSrc.gf_shape", "[regenerated from molecule.py, rfl] the generated body of get_fragment is the statement list the lemmas are about (argument normalisation, overlap test, initialisations, `if group_fragments:` with the grouped and the order-preserving branch, the constructor_dict assignments), with its slot numbers; `orient` is passed to the constructor unchanged"),
    ("QcelVerif.FragSrc.gf_pre", "source-derived get_fragment, list arguments without a common fragment number: the statements before `if group_fragments:` leave the empty accumulators, and the body continues with the branch chosen by group_fragments followed by the constructor_dict assignments"),
    ("QcelVerif.FragSrc.srcExtract_grouped_run", "source-derived get_fragment, group_fragments=True, ANY molecule and any lists of valid fragment numbers (no common element, not both empty), any orient: the generated body runs to the constructor call and constructor_dict holds exactly: symbols = masses = geometry rows = atoms of the real fragments then of the ghost fragments in the order requested, flags true.. false.., fresh index ranges, real fragments' charges/multiplicities then (0,1) per ghost, totals = sum of the real charges / high-spin sum"),
    ("QcelVerif.FragSrc.srcExtract_grouped_eq_model", "under the same hypotheses the hand model extractGrouped succeeds and returns the same record (the three per-atom index lists of the source-derived body agree and are the rows of the model's atom list): the source-derived grouped path equals Model/Fragments.lean"),
    ("QcelVerif.FragSrc.srcExtract_ordered_partial", "PARTIAL (tests by kernel evaluation on a 5-atom, 3-fragment molecule with a ghost atom): the generated order-preserving path (at2fr loop, atom loop, ghost marking `ifr in real`, at2at remap, fragment loop) returns the expected record, agrees with the model's extractOrdered on three selections and refuses an overlap; kept as a test — the universal statement is now srcExtract_ordered_eq_model (Props/C15SrcOrdered.lean)"),
    ("QcelVerif.FragSrc.srcExtract_args_partial", "PARTIAL (tests by kernel evaluation): `real` given as an int and `ghost` as None / an int are normalised to lists by the generated body (same record as with list arguments), and the grouped record is groupedCtor; kept as a test — the universal statement is now gfRun_args (Props/C15SrcOrdered.lean)"),
    ("QcelVerif.FragSrc.srcNelectrons_eq", "source-derived nelectrons() = the model nelectrons for EVERY molecule: sum(Z*real) - molecular_charge"),
    ("QcelVerif.FragSrc.srcNelectronsFrag_eq", "source-derived nelectrons(k) = the model nelectronsFrag for every molecule and every k that has a fragment and a fragment charge (the enumerate / `iat in fragments[k]` comprehension)"),
    ("QcelVerif.FragSrc.srcNelectrons_fragment", "nelectrons_fragment restated over the source-derived body: duplicate-free fragment -> sum of Z over its atoms flagged real - fragment charge"),
    ("QcelVerif.FragSrc.nre_shape", "[regenerated from molecule.py, decide] the generated body of nuclear_repulsion_energy is: Zeff comprehension, atoms = range(n), `if ifr is not None: atoms = fragments[ifr]`, nre = 0.0, the double loop enumerate(atoms) / atoms[:iat1] with dist = norm(geometry[at1] - geometry[at2]) and nre += Zeff[at1]*Zeff[at2]/dist; returns nre"),
    ("QcelVerif.FragSrc.triSum_eq", "any field: adding, for every atom in turn, its terms with all EARLIER atoms (the source's loop order, from any prefix) = the cross terms with the prefix + the model's pair sum"),
    ("QcelVerif.FragSrc.srcNre_eq", "source-derived nuclear_repulsion_energy(ifr) = the model's pair sum nreMol, over ANY field and ANY distance function, any molecule whose walked atoms have a Zeff entry: ifr=None walks range(n), ifr=k walks fragments[k]"),
    ("QcelVerif.FragSrc.srcNre_whole", "whole-molecule call of the source-derived body = the model's nreMol ... none"),
    ("QcelVerif.FragSrc.srcNre_fragment", "nre_fragment restated over the source-derived loops: energy of fragment k = pair sum over its atoms with non-zero Z*real (ghosts contribute nothing, atoms outside do not enter)"),
    ("QcelVerif.FragSrc.srcNre_perm", "nre_perm_invariant restated over the source-derived loops: two fragments listing the same atoms in different orders have the same energy (symmetric distance)"),
    ("QcelVerif.FragSrc.srcNre_rigid", "nre_rigid_invariant restated over the source-derived loops: a geometry with the same pair distances gives the same energy"),
    ("QcelVerif.FragSrc.formula_shape", "[regenerated from molecular_formula.py, rfl] the statements between sorted(count.keys()) and the output loop are `if order == 'hill' and 'C' in element_order: [if 'H' in element_order: H to front]; C to front`, and the output loop appends k, then str(c) if c > 1"),
    ("QcelVerif.FragSrc.srcElementOrder_eq", "the generated rearrangement run on any key list = the model's elementOrder (alphabetical: unchanged; hill: hillOrder C H), never raises"),
    ("QcelVerif.FragSrc.srcFromSymbols_eq", "source-derived molecular_formula_from_symbols = the model fromSymbols for EVERY symbol list and both orders, character for character"),
    ("QcelVerif.FragSrc.order_formula_of_formula_src", "order_formula_of_formula restated over the source-derived writer: re-ordering what it writes in convention o into o' gives what it writes in o' (WFSym symbols)"),
    ("QcelVerif.FragSrc.g_ordered", "source-derived get_fragment, the whole `else:` branch of `if group_fragments:` (three loops + assert) on ANY molecule whose fragment lists name existing atoms with a charge and a multiplicity per fragment, ANY real/ghost lists: at2fr = the model's at2fr (last fragment listing an atom wins), rows/symbols/masses = the model's keptAtoms in original order, flags = `ifr in real`, at2at = the model's at2at, one remapped index list + (fc,fm) or (0,1) per selected fragment in original order"),
    ("QcelVerif.FragSrc.srcExtract_ordered_run", "source-derived get_fragment, group_fragments=False, ANY such molecule in which every atom of a selected fragment is kept (true when no atom is in two fragments), ANY real/ghost lists without a common element (any order, repeats, numbers outside the molecule), any orient: the generated body raises at np.vstack([]) when nothing is selected and otherwise reaches the constructor call with exactly the record orderedCtor (kept atoms in ORIGINAL order, ghost fragments flagged ghost with (0,1), real fragments keep (fc,fm), no totals passed)"),
    ("QcelVerif.FragSrc.srcExtract_ordered_eq_model", "replaces srcExtract_ordered_partial at full strength: for ALL molecules with fragment lists naming existing atoms, no atom in two fragments, a charge and a multiplicity per fragment, and ALL real/ghost lists without a common element, the record the source-derived order-preserving path hands to the constructor equals Model/Fragments.lean's extract ... false (extractOrdered + the empty-selection refusal), and it raises exactly when the model refuses"),
    ("QcelVerif.FragSrc.gfRun_args", "replaces srcExtract_args_partial at full strength: for EVERY molecule, `real` an int or any list, `ghost` an int, None or any list, any orient / group_fragments, the generated body ends in the same state (or raises alike) as on the normalised lists int -> [int], None -> []"),
    ("QcelVerif.FragSrc.srcExtract_args", "corollary: the constructor record read after a call with int / None argument forms is the record of srcExtract on the normalised lists"),
    ("QcelVerif.FragSrc.gfRun_real_none_refused", "refusal: real=None makes the generated body raise at `set(real)` for every molecule and every form of ghost (TypeError in Python; the evaluator says `raises`)"),
    ("QcelVerif.FragSrc.gf_raise_class", "[regenerated from molecule.py, rfl] the only explicit `raise` of get_fragment is the overlap refusal (the tag the refusal theorem reaches) and the source names TypeError there; nelectrons / nuclear_repulsion_energy contain no raise"),
    ("QcelVerif.FragSrc.srcExtract_overlap_refused", "refusal, both paths, every molecule, any orient: a fragment number in both real and ghost -> the generated body reaches the `raise` of the overlap test (line 668) and the model answers `overlap`"),
    ("QcelVerif.FragSrc.srcExtract_grouped_oob_refused", "refusal, grouped path, every molecule, any orient: a number in `real` that names no fragment makes the generated body raise at `self.fragments[frag]` (never silently skipped) and the model answers `index`"),
    ("QcelVerif.FragSrc.srcExtract_grouped_ghost_oob_refused", "refusal, grouped path, every molecule, any orient: every number in `real` names a fragment and a number in `ghost` names none -> the real blocks and the totals are computed, the ghost loop raises at `self.fragments[frag]`, and the model answers `index`"),
    ("QcelVerif.FragSrc.srcOrdered_headline", "headline clauses for group_fragments=False restated at the constructor call of the generated body (contiguous parent = every validated molecule, disjoint real/ghost): symbols = masses = geometry rows = the parent's atoms whose fragment is selected, original order, each once, non-empty; flagged real iff its fragment is in `real`; index lists concatenate to 0..n'-1 and are the at2at images of the selected fragments in original order; (fc,fm) kept for real, (0,1) for ghost fragments; no totals passed"),
]
TRUSTED_BASE = [
    "Lean 4.33 kernel; axioms per theorem audited on every run (subset of propext, Classical.choice, Quot.sound)",
    "hand-written models Model/Fragments.lean (get_fragment both paths, defaults, nelectrons() and nelectrons(ifr), NRE pair sum for the molecule and for one fragment) and Model/Formula.lean (render, title, dict accumulation; its two regex cuts are PROVED equal to the source's patterns run by the generic engine, see below), tied by differential correspondence on the generated stream; get_fragment(orient=True) results are compared with the model's index lists directly as well (geometry up to the rigid motion: pair distances within 1e-6)",
    "SOURCE TIE (new): harness/c15_src.py reads models/molecule.py (Molecule.get_fragment / nelectrons / nuclear_repulsion_energy, located by name) and molutil/molecular_formula.py (molecular_formula_from_symbols) by `ast` on every run and re-encodes their bodies statement by statement as terms of the AST of Model/FragmentsAst.lean (Gen/FragmentsSrc.lean; any construct outside the list in that file raises). REGENERATED + PROVED equal to the hand model for all inputs: nelectrons() and nelectrons(k); the NRE double loop (any field, abstract distance; atoms walked must have a Zeff entry); molecular_formula_from_symbols (all symbol lists, both orders); get_fragment's group_fragments=True path for every molecule and all lists of valid fragment numbers (fragment number has a fragment with existing atoms, a charge and a multiplicity) without overlap, not both empty; get_fragment's group_fragments=False path (Props/C15SrcOrdered.lean, loop invariants in Lemmas/FragmentsSrcOrdered.lean) for every molecule whose fragment lists name existing atoms, no atom in two fragments, a charge and a multiplicity per fragment, and ALL real/ghost lists without a common element, including the empty-selection refusal; the int / None argument forms (all inputs); the refusals overlap (both paths), real=None, and a number in `real` or in `ghost` naming no fragment (grouped path; on the order-preserving path such a number is ignored by source and model alike, covered by the equality theorem) — as `the generated body raises here and the model reports overlap / index / empty`. The class of the one explicit `raise` (overlap: TypeError) is regenerated from the source and pinned (gf_raise_class). STILL DIFFERENTIAL ONLY (three-way driver lines sgf/sne/snre/sfs on every generated case): the exception CLASS of the implicit refusals (IndexError of an index outside a list, ValueError of np.vstack([]), TypeError of set(None) are Python's semantics, not statements of the source; the evaluator says `raises` without a class and the classes are compared between CPython and the hand model only), molecules with an atom in two fragments or fewer charges than fragments (not validated molecules). Trusted in the translator: the re-encoding itself (ast -> term, slot numbering), `self.symbols/masses/geometry[i]` read as the row reference i with IndexError outside 0..n-1, bool as 0/1, `float()/int()/cast()` of integers as identity, negative indices out of scope, the sub-molecule's `name` statements skipped, `return Molecule(orient=orient, **constructor_dict)` checked for shape only (the constructor is Model/Fragments.construct = C05's vfc), and for the formula function the head (order.lower(), supported-order test, Counter of title(), sorted keys) compared with a fixed template; the evaluator's semantics (Model/FragmentsAst.lean) is hand-written Lean, tied to CPython by the three-way lines",
    "the constructor's charge/multiplicity validation is C05's model ChgMult.vfc (its own correspondence is C05's)",
    "symbols/masses/geometry are one per-atom payload list in the model (the code indexes the three arrays with the same index); the harness compares each array separately against the model's index list",
    "NRE theorems are over an arbitrary field and an abstract distance function; the driver evaluates the pair sum exactly over Rat on the distances numpy computed; float rounding of the implementation is bounded by a stated tolerance",
    "formula strings: the theorems of Props/C15FormulaStr.lean are about the SAME executable String model the driver runs (render / cutUpper / splitCount / addCount / orderFormula / fromSymbols) — proved for all inputs under the stated hypothesis WFSym/KeyOK. The two regexes are now REGENERATED FROM THE SOURCE and PROVED: harness/c15.py:gen_formula_regex reads molecular_formula.py by `ast`, compares the whole body of order_molecular_formula with the transcribed shape (re.findall(<str>, formula); join test; for/re.match(<str>, match)/assert/group reads/int/dict +=; expansion; return) and refuses any other, and emits CPython's own parse trees of the two pattern literals + the group numbers read (Gen/FormulaRegex.lean, via harness/regex_gen.py); Props/C15Regex.lean proves for EVERY string that the generic engine's findall / match on those ASTs equal the hand cutUpper / splitCount and hence orderFormulaRe = orderFormula, and restates parse_render / order_formula_of_formula / order_formula_periodic over the generated regexes",
    "generic regex engine Model/RegexEngine.lean (C06's, proved equal to its list-of-successes semantics) + Model/RegexFindall.lean (new: re.findall / finditer — leftmost non-overlapping matches, must_advance empty-match rule of CPython >= 3.7, transcribed from Modules/_sre/sre.c by hand): that engine + translator reproduce CPython's `re` on ASCII text is DIFFERENTIAL — three-way lines cut| / spl| / ofr| (CPython with the patterns and group numbers read from the tree under check, hand model, engine) on every formula string of the fs/of streams, near-miss strings and random ASCII, and fi| probe lines (11 patterns not from the source exercising empty matches, laziness, alternation, groups, \\b against re.finditer); non-ASCII text is outside (\\d, \\D are the ASCII parts of the Unicode categories)",
    "str.title() / str(int) / int(str) of the hand model (titleChars, Nat.toDigits, digitsVal) behave like CPython on ASCII text: differential (fs/of/spl streams), not proved",
    "Gen/PT.lean is regenerated on every run from qcelemental/data/nist_2011_atomic_weights.py by C01's translator tools/gen_periodic.py (re-encoding only; its own cross-check is C01's); that a validated molecule's symbols are symbols of that table is C04/C06's business",
    "Lean core library facts about Nat.toDigits / String.toList / String order (Init.Data.Nat.ToString, Init.Data.String.Lemmas) — kernel-checked",
    "harness/c15.py generators and the Python oracle; periodic-table Z via qcelemental.periodictable (C01)",
]
ASSUMPTIONS = [
    "integer fragment charges and multiplicities (scope of C05's model)",
    "parents are validated molecules (fragments contiguous and ascending); real/ghost are disjoint lists of distinct valid fragment numbers, not both empty (overlap, and one request per parent naming a fragment number that does not exist — refused with IndexError on the grouped path, silently skipped on the order-preserving path of the unchanged tree —, are generated for the correspondence only: the oracle demands nothing of them)",
    "the orienting rotation itself (orient=True) is not modelled here (C16): the oriented result's symbols / masses / real / fragments / fragment charges / multiplicities / totals / electron counts are compared with the model's index lists exactly and its geometry with the parent's rows at the model's indices up to a rigid motion (pair distances within 1e-6), for both group_fragments values on every case; the oracle additionally demands every non-geometric field (all serialised fields except geometry, and the derived per-atom attributes) identical to the orient=False result, NRE and electron counts unchanged",
    "order_molecular_formula on a formula with a count of four or more digits is not sent through the whole function (it materialises `count` copies of the symbol: 'C9999999999' exhausts memory) — such strings go through the cut/spl regex lines only",
    "ASCII symbols for the formula functions; the string-level theorems assume title-cased symbols of the shape [A-Z][a-z]* (discharged for the whole periodic table; any-case words of ASCII letters reduce to it); a key containing a digit, a second capital or a letter after a non-letter is outside them (counter-example in the Lean file)",
    "NRE additivity over fragments is false (nre_not_additive) and is not part of the property",
    "source-derived procedures: integer-valued Python scalars only (bool = 0/1), no negative indices; the universal get_fragment theorems cover both paths and the int / None / list argument forms; the order-preserving path theorem assumes fragment lists naming existing atoms, no atom in two fragments and a charge and a multiplicity per fragment (every validated molecule); exception classes, orientation and the constructor are outside the generated body",
]
RULE = (
    "parents: random validated molecules, 1-5 fragments of 1-3 atoms, ghost atoms / whole ghost fragments, charged and open-shell fragments, "
    "isotopes, optional explicit totals; for parents with <=4 fragments EVERY ordered pair (real list, ghost list) of disjoint fragment subsets in every order "
    "(5 fragments: sampled) x group_fragments on/off x orient on/off; a case is distinct by (parent hash, real, ghost, group, orient) and non-trivial when >=2 "
    "fragments are involved, or a ghost/charged/open-shell fragment is selected, or the outcome is an error; per parent one overlapping request and one request (both group_fragments values) with a fragment number outside the molecule among valid ones, in `real` or `ghost` (correspondence only). Formula: every multiset of size <=6 over a "
    "12-symbol alphabet (C H Ca Cl He Hf B Br N O Zn Ar; shuffled, random case) x both orders, + every symbol of qcelemental.periodictable.E alone with counts 1, 2 and a random "
    "two/three-digit count and in random multisets over the whole table, + random formula strings for order_molecular_formula + near-miss strings (lower-case first letter, digit first, empty, 'CH3(OH)', "
    "blanks, signs, leading zeros, control characters); every order_molecular_formula call goes three ways (CPython, hand model, regex-engine model); every distinct formula string seen + the near misses + random "
    "ASCII strings (all 128 code points) go through re.findall / re.match three ways, the whole text and each chunk through the split; engine probes against re.finditer. Per-fragment calls: nelectrons(k) and "
    "nuclear_repulsion_energy(k) for every fragment of every parent (about a third of the multi-atom parent fragments mix real and ghost atoms; a forced-mixed parent stream) and of every heavy-checked child. "
    "Every gf / ne / nre / fs line is sent a second time as sgf / sne / snre / sfs: same arguments, answered by the bodies regenerated from the source (Lean AST evaluator), compared with the implementation by the same comparator (three-way: CPython, hand model, source-derived procedure)."
)
LEVEL_TEXT = (
    "Lean proofs (unbounded sizes) about the model of get_fragment / nelectrons (molecule and per fragment) / NRE pair sum (molecule and per fragment: real nuclei of the "
    "fragment only; not additive) / formula tokens AND formula strings: for all symbol lists of the shape [A-Z][a-z]* (every periodic-table symbol, decided over the "
    "regenerated table) the rendered string parses back through the modelled regex cuts to exactly the element counts (digits by a proved Nat<->decimal round trip) and "
    "order_molecular_formula is idempotent and converts between alphabetical and Hill order character for character. The model is tied to the code by exhaustive-"
    "over-subsets differential runs on generated molecules (orient=False AND orient=True results against the model's index lists) and by the formula streams. The two regexes of "
    "order_molecular_formula are regenerated from the source on every run (CPython's parse trees, entry points, groups read; whole function body shape-checked) and the hand cuts are PROVED equal, for every "
    "string, to a generic regex engine (match + findall) run on them, so the string-level theorems hold of the source's own patterns; that this engine reproduces CPython's re on ASCII, "
    "str.title/str(int)/int(str), pydantic construction, orientation and float arithmetic are differential only (partial). "
    "NEW: the bodies of get_fragment, nelectrons, nuclear_repulsion_energy and molecular_formula_from_symbols are regenerated from the source on every run as terms of a small statement/expression AST and run by a Lean evaluator; "
    "proved equal to the hand model for ALL inputs: nelectrons (molecule and fragment), the NRE double loop (any field, abstract distance), molecular_formula_from_symbols, and get_fragment's group_fragments=True path "
    "(valid, non-overlapping requests) AND its group_fragments=False path (all validated-shape molecules, all non-overlapping real/ghost lists, by loop invariants of the three generated loops), the int/None argument forms (all inputs), and the refusals overlap / real=None / out-of-range number in `real` or `ghost` / empty selection as `the generated body raises`; headline theorems restated over them for both paths. The class of the explicit overlap `raise` (TypeError) is regenerated and pinned; the exception CLASSES of the implicit refusals (IndexError / ValueError) are tied by differential lines between CPython and the hand model only (partial)."
)
TECHNIQUE = "Lean 4 proof of list/partition/sum theorems about a hand model + regexes regenerated from the source and proved equal to the hand cuts through a generic regex engine + method bodies regenerated from the source as AST terms, evaluator, loop-invariant proofs of equality with the hand model + behavioural correspondence (three-way) + independent oracle"

ALPHABET = ["C", "H", "Ca", "Cl", "He", "Hf", "B", "Br", "N", "O", "Zn", "Ar"]
ELEMS = ["H", "H", "H", "He", "Li", "Be", "B", "C", "C", "N", "O", "O", "F", "Ne", "Na", "Mg", "Al", "Si", "P", "S", "Cl", "Ar", "K", "Ca", "Fe", "Cu", "Zn", "Br", "Kr", "I", "Xe", "Au", "U"]
ISOTOPES = {"H": [2, 3], "C": [13, 14], "O": [17, 18], "N": [15], "Cl": [37], "Li": [6], "B": [10], "He": [3], "Br": [81], "U": [235]}


def quiet():
    return contextlib.redirect_stdout(io.StringIO())


def zof(sym):
    import qcelemental as qcel

    return int(qcel.periodictable.to_Z(sym))


# --------------------------------------------------------------------------------------
# parents


def gen_parent_spec(rng, nfr, force_mixed=False):
    """kwargs (JSON-able) of a validated molecule with `nfr` fragments.
    force_mixed: the first fragment gets >= 2 real atoms and >= 1 ghost atom (per-fragment calls on a
    fragment mixing real and ghost atoms)."""
    symbols, real, frags, geom, fcs, fms, mass_numbers = [], [], [], [], [], [], []
    sites = [(i, j, k) for i in range(4) for j in range(4) for k in range(3)]
    rng.shuffle(sites)
    any_iso = False
    for _k in range(nfr):
        na = rng.choice([1, 1, 2, 2, 3])
        ghost_frag = rng.random() < 0.18
        forced = None
        if force_mixed and _k == 0:
            na = rng.choice([3, 3, 4])
            ghost_frag = False
            forced = [True, True, False] + [rng.random() < 0.5 for _ in range(na - 3)]
            rng.shuffle(forced)
        fr = []
        zreal = 0
        for _a in range(na):
            s = rng.choice(ELEMS)
            rl = not ghost_frag and rng.random() > 0.15
            if forced is not None:
                rl = forced[_a]
            iso = -1
            if s in ISOTOPES and rng.random() < 0.25:
                iso = rng.choice(ISOTOPES[s])
                any_iso = True
            i, j, k = sites.pop()
            geom += [round(2.6 * i + rng.uniform(-0.6, 0.6), rng.choice([2, 5, 8])),
                     round(2.6 * j + rng.uniform(-0.6, 0.6), rng.choice([2, 5, 8])),
                     round(2.6 * k + rng.uniform(-0.6, 0.6), rng.choice([2, 5, 8]))]
            fr.append(len(symbols))
            symbols.append(s)
            real.append(rl)
            mass_numbers.append(iso)
            if rl:
                zreal += zof(s)
        frags.append(fr)
        # a valid (charge, multiplicity) for the real electron count of this fragment
        if zreal == 0:
            fc, fm = 0, 1
        else:
            fc = rng.choice([0, 0, 0, 1, -1, 2, -2])
            if zreal - fc < 0:
                fc = 0
            ne = zreal - fc
            lo = 1 + ne % 2
            fm = lo + 2 * rng.choice([0, 0, 0, 1, 1, 2])
            if fm - 1 > ne:
                fm = lo
        fcs.append(fc)
        fms.append(fm)
    spec = {"symbols": symbols, "geometry": geom, "real": real}
    if any_iso:
        spec["mass_numbers"] = mass_numbers
    if rng.random() < 0.35:
        # caller-supplied masses: exact table values, values NEAR a tabulated nuclide (inside the 1e-3 u window, so the
        # validation assigns that mass number while the mass itself is not the table's), and free-form masses that match
        # no nuclide (A = -1).  The sub-molecule must carry the parent's masses, not masses re-derived from (symbol, A).
        import qcelemental as qcel

        masses = []
        for s_, iso_ in zip(symbols, mass_numbers):
            base = float(qcel.periodictable.to_mass(s_ if iso_ == -1 else f"{s_}{iso_}"))
            u = rng.random()
            if u < 0.35:
                masses.append(base)
            elif u < 0.8 or iso_ != -1:
                masses.append(base + rng.choice([-1, 1]) * rng.choice([2.0e-6, 1.7e-5, 1.3e-4, 4.0e-4, 8.0e-4]) * rng.uniform(0.5, 1.0))
            else:
                masses.append(base * (1.0 + rng.uniform(0.004, 0.02)))
        spec["masses"] = masses
    if rng.random() < 0.25:
        # recorded metadata about THIS molecule (correct for it): a sub-molecule's formula is about the sub-molecule's own atoms
        from collections import Counter as _C

        cnt = _C(s_.title() for s_ in symbols)
        spec["identifiers"] = {"molecular_formula": "".join(k_ + (str(v_) if v_ > 1 else "") for k_, v_ in sorted(cnt.items()))}
        spec["extras"] = {"note": "parent"}
    style = rng.random()
    if nfr == 1 and style < 0.5:
        # no fragment data at all: exercises the default fragments / charges / multiplicities properties
        spec["molecular_charge"] = fcs[0]
        spec["molecular_multiplicity"] = fms[0]
    else:
        spec["fragments"] = frags
        spec["fragment_charges"] = fcs
        spec["fragment_multiplicities"] = fms
        if style < 0.3:
            spec["molecular_charge"] = sum(fcs)
        # a non-high-spin total is allowed when everything is given
        if rng.random() < 0.25:
            hs = 1 + sum(m - 1 for m in fms)
            spec["molecular_multiplicity"] = rng.choice([hs, hs - 2 if hs - 2 >= 1 else hs])
    return spec


def build(spec):
    import qcelemental as qcel

    with quiet():
        return qcel.models.Molecule(**spec)


def all_pairs(n):
    """every ordered pair (R, G) of disjoint lists of distinct fragment numbers, not both empty"""
    res = []
    idx = list(range(n))
    for k in range(1, n + 1):
        for seq in itertools.permutations(idx, k):
            for cut in range(k + 1):
                res.append((list(seq[:cut]), list(seq[cut:])))
    return res


# --------------------------------------------------------------------------------------
# canonical forms


def frepr(x):
    return repr(float(x))


def atom_key(sym, mass, xyz):
    return "{}/{}/{}".format(str(sym), frepr(mass), ",".join(frepr(v) for v in xyz))


def mol_parts(mol):
    """everything C15 looks at, from the public attributes"""
    return {
        "symbols": [str(s) for s in mol.symbols],
        "masses": [float(x) for x in mol.masses],
        "geometry": [[float(v) for v in row] for row in np.asarray(mol.geometry).reshape(-1, 3)],
        "real": [bool(x) for x in mol.real],
        "fragments": [[int(i) for i in fr] for fr in mol.fragments],
        "fc": [float(x) for x in mol.fragment_charges],
        "fm": [x for x in mol.fragment_multiplicities],
        "c": float(mol.molecular_charge),
        "m": mol.molecular_multiplicity,
    }


def intstr(x):
    xf = float(x)
    return str(int(xf)) if xf == int(xf) else repr(xf)


def nel_str(mol):
    per = []
    for k in range(len(mol.fragments)):
        per.append(str(mol.nelectrons(k)))
    return "{}|{}".format(mol.nelectrons(), ",".join(per))


def canon_child(child):
    p = mol_parts(child)
    atoms = [atom_key(s, m, g) for s, m, g in zip(p["symbols"], p["masses"], p["geometry"])]
    rest = "{}|{}|{}|{}|{}|{}|{}".format(
        "".join("1" if r else "0" for r in p["real"]),
        ";".join(",".join(str(i) for i in fr) for fr in p["fragments"]),
        ",".join(intstr(x) for x in p["fc"]),
        ",".join(intstr(x) for x in p["fm"]),
        intstr(p["c"]),
        intstr(p["m"]),
        nel_str(child),
    )
    return atoms, rest


def optlist(v, f):
    return "N" if v is None else f(v)


def mol_fields(mol):
    """atoms|real|frags|fc|fm|c|m for the driver, from the *stored* fields (None -> N: default properties)"""
    d = mol.__dict__
    atoms = ",".join("{}:{}".format(i, int(z)) for i, z in enumerate(mol.atomic_numbers))
    real = "".join("1" if r else "0" for r in mol.real)
    fr = optlist(d.get("fragments_"), lambda v: ";".join(",".join(str(int(i)) for i in f) for f in v))
    fc = optlist(d.get("fragment_charges_"), lambda v: ",".join(intstr(x) for x in v))
    fm = optlist(d.get("fragment_multiplicities_"), lambda v: ",".join(intstr(x) for x in v))
    return "|".join([atoms, real, fr, fc, fm, intstr(mol.molecular_charge), intstr(mol.molecular_multiplicity)])


def nre_line(mol, ifr):
    """distances exactly as the code computes them (np.linalg.norm of the difference), as rationals"""
    g = np.asarray(mol.geometry).reshape(-1, 3)
    n = g.shape[0]
    zeff = [int(z) * int(r) for z, r in zip(mol.atomic_numbers, mol.real)]
    ds = []
    for i in range(n):
        for j in range(i + 1, n):
            fr = Fraction(float(np.linalg.norm(g[j] - g[i])))
            ds.append("{}/{}".format(fr.numerator, fr.denominator))
    sel = "N" if ifr is None else ",".join(str(int(i)) for i in mol.fragments[ifr])
    return "nre|{}|{}|{}|{}".format(",".join(map(str, zeff)), sel, n, " ".join(ds))


def parse_rat(s):
    return Fraction(s)


# --------------------------------------------------------------------------------------
# independent oracle pieces

decimal.getcontext().prec = 40


def nre_exact(zeff, geom, idx):
    """sum over unordered pairs of real nuclei Z1 Z2 / |r1 - r2| in 40-digit decimal arithmetic"""
    tot = decimal.Decimal(0)
    for a in range(len(idx)):
        for b in range(a):
            i, j = idx[a], idx[b]
            w = zeff[i] * zeff[j]
            if w == 0:
                continue
            d2 = sum((Fraction(geom[i][t]) - Fraction(geom[j][t])) ** 2 for t in range(3))
            d = (decimal.Decimal(d2.numerator) / decimal.Decimal(d2.denominator)).sqrt()
            tot += decimal.Decimal(w) / d
    return tot


def close(x, exact, rel):
    ex = float(exact)
    return abs(float(x) - ex) <= rel * max(1.0, abs(ex))


def formula_oracle(out_str, syms, order):
    """does `out_str` report exactly the element counts of `syms`, in the requested order?"""
    bad = []
    toks = re.findall(r"([A-Z][a-z]*)(\d*)", out_str)
    if "".join(a + b for a, b in toks) != out_str:
        return ["not a sequence of Element[count] tokens"]
    keys = [a for a, _ in toks]
    if len(set(keys)) != len(keys):
        bad.append("an element is listed twice")
    got = Counter()
    for a, b in toks:
        got[a] += int(b) if b else 1
    want = Counter(s[:1].upper() + s[1:].lower() for s in syms)
    if got != want or any(v == 0 for v in got.values()):
        bad.append("element counts differ: {} vs {}".format(dict(got), dict(want)))
    if order == "alphabetical":
        if keys != sorted(keys):
            bad.append("not alphabetical")
    else:
        if "C" in keys:
            head = ["C"] + (["H"] if "H" in keys else [])
            rest = [k for k in keys if k not in ("C", "H")]
            if keys[: len(head)] != head or rest != sorted(rest) or keys != head + rest:
                bad.append("not Hill order")
        elif keys != sorted(keys):
            bad.append("not alphabetical although no carbon (Hill)")
    return bad


def expected_unghost_failure(P, R):
    """The only reason a well-formed request may be refused: a fragment selected as real keeps its
    (charge, multiplicity) while ALL its atoms become real; if the parent had ghost atoms there the
    kept values may not fit the new electron count."""
    for k in R:
        z = sum(zof(P["symbols"][i]) for i in P["fragments"][k])
        fc, fm = P["fc"][k], P["fm"][k]
        if fm - 1 > z - fc or (fm + z - fc) % 2 != 1:
            return True
    return False


# --------------------------------------------------------------------------------------
# one extraction case


class Pending:
    """lines for the model with the implementation's canonical answer"""

    def __init__(self):
        self.lines = []
        self.expect = []  # (kind, payload, case)

    # ops that have a source-derived twin in the driver (`s` + op): same arguments, same answer format, same comparison
    SRC_TWINS = ("gf|", "ne|", "nre|", "fs|")

    def add(self, line, kind, payload, case):
        self.lines.append(line)
        self.expect.append((kind, payload, case))
        if line.startswith(self.SRC_TWINS):
            self.lines.append("s" + line)
            self.expect.append((kind, payload, case))


def call_get_fragment(parent, R, G, group, orient):
    try:
        with quiet():
            return ("ok", parent.get_fragment(list(R), list(G), orient=orient, group_fragments=group))
    except Exception as e:  # noqa
        return ("err", err_class(e))


def check_extraction(ctx, out: Outcome, pend: Pending, spec, parent, P, R, G, group, heavy=True):
    case = {"type": "fragment", "spec": spec, "real": R, "ghost": G, "group": group}
    out.evaluations += 1
    res = call_get_fragment(parent, R, G, group, False)
    nfr = len(P["fragments"])
    out.count("nfr:%d" % nfr)
    out.count("sel:r%d,g%d" % (len(R), len(G)))
    out.count("group:%s" % group)
    oob = any(k >= nfr for k in list(R) + list(G))  # a number naming no fragment: outside the quantifier, correspondence only
    Rv = [k for k in R if k < nfr]
    sel_ghost_parent = any(not all(P["real"][i] for i in P["fragments"][k]) for k in Rv)
    if sel_ghost_parent:
        out.count("real_selection_contains_parent_ghost_atoms")
    if G and R and not group and min(G) < max(R):
        out.count("ungrouped_ghost_before_real")
    if R != sorted(R) or G != sorted(G):
        out.count("selection_not_ascending")
    charged = any(P["fc"][k] != 0 for k in Rv)
    openshell = any(P["fm"][k] != 1 for k in Rv)
    if len(R) + len(G) >= 2 or G or charged or openshell or res[0] == "err":
        out.nontrivial((parent.get_hash()[:10], tuple(R), tuple(G), group))
    line = "gf|{}|{}|{}|{}".format("1" if group else "0", ",".join(map(str, R)), ",".join(map(str, G)), mol_fields(parent))

    def viol(kind, detail, observed=None, expected=None, extra=None):
        c = dict(case)
        if extra:
            c.update(extra)
        out.violations.append(Finding(kind, c, observed=observed, expected=expected, detail=detail))

    overlap = bool(set(R) & set(G))
    if res[0] == "err":
        out.count("outcome:err:" + res[1])
        pend.add(line, "gf_err", res[1], case)
        if overlap or oob:
            return  # outside the quantifier; correspondence only
        if not (res[1] == "Validation" and expected_unghost_failure(P, R)):
            viol("oracle:refused", "a well-formed request for real/ghost fragments was refused with " + res[1], observed=res[1])
        return
    out.count("outcome:ok")
    child = res[1]
    C = mol_parts(child)
    atoms_c, rest_c = canon_child(child)
    pend.add(line, "gf_ok", (atoms_c, rest_c, [atom_key(s, m, g) for s, m, g in zip(P["symbols"], P["masses"], P["geometry"])]), case)
    if overlap:
        viol("oracle:overlap_accepted", "overlapping real and ghost lists were accepted")
        return
    if oob:
        # the order-preserving path of the unchanged tree skips such a number silently (`ifr in real` is never asked of a fragment
        # that does not exist); outside the quantifier: the model must agree (gf / sgf lines above), the oracle demands nothing
        out.count("out_of_range_number_accepted:group=%s" % group)
        return
    if expected_unghost_failure(P, R):
        viol("oracle:inconsistent_accepted", "kept charge/multiplicity do not fit the electron count of the now-real fragment, yet a molecule was built")
        return

    # ---- (1) atoms conserved, in the order specified, with flags
    if group:
        idx = [i for k in R for i in P["fragments"][k]] + [i for k in G for i in P["fragments"][k]]
        frag_order = list(R) + list(G)
    else:
        sel = set(R) | set(G)
        owner = {}
        for k, fr in enumerate(P["fragments"]):
            for i in fr:
                owner[i] = k
        idx = [i for i in range(len(P["symbols"])) if owner[i] in sel]
        frag_order = [k for k in range(nfr) if k in sel]
    owner_of = {i: k for k, fr in enumerate(P["fragments"]) for i in fr}
    exp_sym = [P["symbols"][i] for i in idx]
    exp_mass = [P["masses"][i] for i in idx]
    exp_geom = [P["geometry"][i] for i in idx]
    exp_real = [owner_of[i] in R for i in idx]
    if C["symbols"] != exp_sym:
        viol("oracle:atoms", "symbols are not those of the chosen fragments in the specified order", C["symbols"], exp_sym)
    if C["masses"] != exp_mass:
        viol("oracle:atoms", "masses are not copied", C["masses"], exp_mass)
    if C["geometry"] != exp_geom:
        viol("oracle:atoms", "coordinates are not copied", C["geometry"], exp_geom)
    if C["real"] != exp_real:
        viol("oracle:flags", "real/ghost flags wrong (ghost fragments must be ghost, real fragments real)", C["real"], exp_real)
    # ---- (2) fragment index lists partition 0..n'-1 and name the same atoms
    flat = [i for fr in C["fragments"] for i in fr]
    if sorted(flat) != list(range(len(idx))):
        viol("oracle:partition", "fragment index lists do not partition 0..n'-1", C["fragments"])
    else:
        exp_frs = [[atom_key(P["symbols"][i], P["masses"][i], P["geometry"][i]) for i in P["fragments"][k]] for k in frag_order]
        got_frs = [[atom_key(C["symbols"][i], C["masses"][i], C["geometry"][i]) for i in fr] for fr in C["fragments"]]
        if got_frs != exp_frs:
            viol("oracle:fragment_membership", "a fragment of the sub-molecule does not consist of the parent fragment's atoms", got_frs, exp_frs)
    # ---- (3) charge / multiplicity bookkeeping
    exp_fc = [P["fc"][k] if k in R else 0.0 for k in frag_order]
    exp_fm = [P["fm"][k] if k in R else 1 for k in frag_order]
    if C["fc"] != exp_fc or list(C["fm"]) != exp_fm:
        viol("oracle:chgmult", "real fragments must keep charge/multiplicity, ghosts must be (0,1)", [C["fc"], C["fm"]], [exp_fc, exp_fm])
    if C["c"] != sum(P["fc"][k] for k in R) or C["m"] != 1 + sum(P["fm"][k] - 1 for k in R):
        viol("oracle:totals", "totals are not formed from the real fragments (sum of charges, high-spin multiplicity)", [C["c"], C["m"]])
    # ---- (4) electrons
    check_electrons(child, C, viol)
    if not heavy:
        return child
    # ---- (5) NRE: real nuclei only; fragments too
    check_nre(child, C, viol, pend, case)
    # ---- (6) formula
    for order in ("alphabetical", "hill"):
        f = child.get_molecular_formula(order)
        for msg in formula_oracle(f, exp_sym, order):
            viol("oracle:formula", msg, f, extra={"order": order})
    return child


def check_electrons(mol, C, viol):
    zr = [zof(s) * int(r) for s, r in zip(C["symbols"], C["real"])]
    tot = mol.nelectrons()
    if tot != sum(zr) - C["c"]:
        viol("oracle:electrons", "nelectrons() is not (real nuclear charges) - charge", tot, sum(zr) - C["c"])
    per = []
    for k, fr in enumerate(C["fragments"]):
        # the fragment index as a Python int and, every other fragment, as the numpy integer a caller gets from np.arange / argmax
        nk = mol.nelectrons(k if k % 2 == 0 else [np.int64, np.int32, np.intp][k % 3](k))
        per.append(nk)
        ek = sum(zr[i] for i in fr) - C["fc"][k]
        if nk != ek:
            viol("oracle:electrons", "nelectrons(%d) is not (real nuclear charges of the fragment) - fragment charge" % k, nk, ek)
    if sum(per) != tot:
        viol("oracle:electrons_additive", "fragment electron counts do not add up to the total", per, tot)


def check_nre(mol, C, viol, pend, case):
    zr = [zof(s) * int(r) for s, r in zip(C["symbols"], C["real"])]
    n = len(zr)
    targets = [None] + list(range(len(C["fragments"])))
    for ifr in targets:
        v = mol.nuclear_repulsion_energy(ifr if (ifr is None or ifr % 2 == 1) else [np.int64, np.int32, np.intp][ifr % 3](ifr))
        idx = list(range(n)) if ifr is None else C["fragments"][ifr]
        ex = nre_exact(zr, C["geometry"], idx)
        if not (isinstance(v, float) or isinstance(v, np.floating)) or not close(v, ex, 1e-10):
            viol("oracle:nre", "nuclear repulsion energy is not the sum over pairs of REAL nuclei of Z1 Z2 / r12", frepr(v) if v == v else "nan", str(ex), extra={"ifr": ifr})
        if pend is not None:
            pend.add(nre_line(mol, ifr), "nre", float(v), case)


def nongeom_fields(mol):
    """all serialised fields except the geometry, plus the derived per-atom attributes"""
    d = json.loads(mol.json())
    d.pop("geometry", None)
    d["atomic_numbers"] = [int(z) for z in mol.atomic_numbers]
    d["mass_numbers"] = [int(a) for a in mol.mass_numbers]
    d["atom_labels"] = [str(x) for x in mol.atom_labels]
    return d


def check_orient(ctx, out, spec, parent, P, R, G, group, child, pend=None):
    """orient=True: same atoms/flags/bookkeeping, geometry moved rigidly, NRE unchanged; and (pend) the oriented result itself
    against the model's prediction for (parent, real, ghost, group) — index lists of symbols / masses / geometry (the latter up
    to the rigid motion), real, fragments, charges, multiplicities, totals, electron counts"""
    case = {"type": "fragment", "spec": spec, "real": R, "ghost": G, "group": group, "orient": True}
    out.evaluations += 1
    out.count("orient:True")
    res = call_get_fragment(parent, R, G, group, True)

    def viol(kind, detail, observed=None, expected=None):
        out.violations.append(Finding(kind, case, observed=observed, expected=expected, detail=detail))

    if res[0] == "err":
        viol("oracle:orient", "orient=True refused (%s) what orient=False builds" % res[1])
        return
    out.nontrivial((parent.get_hash()[:10], tuple(R), tuple(G), group, "orient"))
    A, B = mol_parts(child), mol_parts(res[1])
    if pend is not None:
        line = "gf|{}|{}|{}|{}".format("1" if group else "0", ",".join(map(str, R)), ",".join(map(str, G)), mol_fields(parent))
        _, rest_o = canon_child(res[1])
        pend.add(line, "gf_ok_orient", (B["symbols"], [frepr(x) for x in B["masses"]], B["geometry"], rest_o,
                                        P["symbols"], [frepr(x) for x in P["masses"]], P["geometry"]), case)
        out.count("orient:compared_with_model")
    for key in ("symbols", "masses", "real", "fragments", "fc", "fm", "c", "m"):
        if A[key] != B[key]:
            viol("oracle:orient", "orient=True changes " + key, B[key], A[key])
            return
    # every other non-geometric field: the serialised record minus geometry, and the derived per-atom attributes
    fa, fb = nongeom_fields(child), nongeom_fields(res[1])
    if fa != fb:
        diff = sorted(k for k in set(fa) | set(fb) if fa.get(k, "<absent>") != fb.get(k, "<absent>"))
        viol("oracle:orient_fields", "orient=True changes non-geometric field(s) " + ",".join(diff),
             {k: fb.get(k, "<absent>") for k in diff}, {k: fa.get(k, "<absent>") for k in diff})
        return
    ga, gb = np.array(A["geometry"]), np.array(B["geometry"])
    da = np.linalg.norm(ga[:, None, :] - ga[None, :, :], axis=2)
    db = np.linalg.norm(gb[:, None, :] - gb[None, :, :], axis=2)
    if not np.allclose(da, db, rtol=0, atol=1e-6):
        viol("oracle:orient", "orient=True does not move the atoms rigidly (pair distances change)", float(np.abs(da - db).max()))
    ea, eb = child.nuclear_repulsion_energy(), res[1].nuclear_repulsion_energy()
    if abs(ea - eb) > 1e-6 * max(1.0, abs(ea)):
        viol("oracle:nre_rigid", "nuclear repulsion energy changes under orientation", eb, ea)
    if child.nelectrons() != res[1].nelectrons():
        viol("oracle:orient", "orient=True changes the electron count")


def check_parent(ctx, out, pend, spec, parent, P):
    """parent-level clauses: electrons add up, NRE real-only / rigid / reorder invariant, formula, defaults"""
    case = {"type": "parent", "spec": spec}
    out.evaluations += 1

    def viol(kind, detail, observed=None, expected=None, extra=None):
        c = dict(case)
        if extra:
            c.update(extra)
        out.violations.append(Finding(kind, c, observed=observed, expected=expected, detail=detail))

    check_electrons(parent, P, viol)
    pend.add("ne|" + mol_fields(parent), "ne", nel_str(parent), case)
    check_nre(parent, P, viol, pend, case)
    rng = ctx.rng
    # rigid motion (no re-validation, so no rounding): rotation from a random unit quaternion + shift
    q = np.array([rng.gauss(0, 1) for _ in range(4)])
    q /= np.linalg.norm(q)
    a, b, c, d = q
    rot = np.array([
        [a * a + b * b - c * c - d * d, 2 * (b * c - a * d), 2 * (b * d + a * c)],
        [2 * (b * c + a * d), a * a - b * b + c * c - d * d, 2 * (c * d - a * b)],
        [2 * (b * d - a * c), 2 * (c * d + a * b), a * a - b * b - c * c + d * d]])
    if rng.random() < 0.3:
        rot = -rot  # improper: still distance preserving
    shift = np.array([rng.uniform(-5, 5) for _ in range(3)])
    moved = parent.copy(update={"geometry": np.asarray(parent.geometry) @ rot.T + shift})
    e0 = parent.nuclear_repulsion_energy()
    e1 = moved.nuclear_repulsion_energy()
    if abs(e0 - e1) > 1e-10 * max(1.0, abs(e0)):
        viol("oracle:nre_rigid", "nuclear repulsion energy changes under a rigid motion", e1, e0)
    for k in range(len(P["fragments"])):
        f0, f1 = parent.nuclear_repulsion_energy(k), moved.nuclear_repulsion_energy(k)
        if abs(f0 - f1) > 1e-10 * max(1.0, abs(f0)):
            viol("oracle:nre_rigid", "fragment nuclear repulsion energy changes under a rigid motion", f1, f0, {"ifr": k})
    # atom reordering: permute fragment blocks and atoms inside blocks, rebuild a validated molecule
    order = list(range(len(P["fragments"])))
    rng.shuffle(order)
    perm = []
    newfr = []
    for k in order:
        fr = list(P["fragments"][k])
        rng.shuffle(fr)
        newfr.append(list(range(len(perm), len(perm) + len(fr))))
        perm += fr
    spec2 = {
        "symbols": [P["symbols"][i] for i in perm],
        "geometry": [v for i in perm for v in P["geometry"][i]],
        "real": [P["real"][i] for i in perm],
        "masses": [P["masses"][i] for i in perm],
        "fragments": newfr,
        "fragment_charges": [P["fc"][k] for k in order],
        "fragment_multiplicities": [P["fm"][k] for k in order],
        "molecular_charge": P["c"],
        "molecular_multiplicity": P["m"],
    }
    try:
        other = build(spec2)
    except Exception as e:  # noqa
        out.count("reorder_rebuild_failed:" + err_class(e))
        other = None
    if other is not None:
        out.count("reordered_parents")
        e2 = other.nuclear_repulsion_energy()
        if abs(e0 - e2) > 1e-10 * max(1.0, abs(e0)):
            viol("oracle:nre_reorder", "nuclear repulsion energy changes under atom reordering", e2, e0, {"perm": perm})
        if other.nelectrons() != parent.nelectrons():
            viol("oracle:electrons", "electron count changes under atom reordering", other.nelectrons(), parent.nelectrons())
        for o in ("alphabetical", "hill"):
            if other.get_molecular_formula(o) != parent.get_molecular_formula(o):
                viol("oracle:formula", "formula changes under atom reordering", other.get_molecular_formula(o), parent.get_molecular_formula(o))
    # formula incl. the charge/multiplicity decoration
    for o in ("alphabetical", "hill"):
        f = parent.get_molecular_formula(o)
        for msg in formula_oracle(f, P["symbols"], o):
            viol("oracle:formula", msg, f, extra={"order": o})
        for cm in (False, True):
            g = parent.get_molecular_formula(o, chgmult=cm)
            pend.add("gm|{}|{}|{}|{}|{}".format(o, "1" if cm else "0", intstr(P["c"]), intstr(P["m"]), ",".join(P["symbols"])), "str", g, case)


# --------------------------------------------------------------------------------------
# the two regexes of order_molecular_formula: CPython / hand model / generic engine on the generated AST


def hx(s):
    return s.encode("ascii").hex()


def add_of(pend: Pending, order, f, kind, payload, case):
    """one order_molecular_formula call, three ways: CPython's answer against the hand model (`of`) and against the model that
    runs the generic regex engine on the ASTs generated from the source (`ofr`)"""
    pend.add("of|{}|{}".format(order, f), kind, payload, case)
    pend.add("ofr|{}|{}".format(order, f), kind, payload, case)
    seen = getattr(pend, "regex_texts", None)
    if seen is None:
        seen = pend.regex_texts = {}
    seen.setdefault(f, case)


NEAR_MISS = [
    "", "c", "cH4", "hCl", "h2O", "2H", "12", "0C", "2", "CH3(OH)", "C6H5(CH3)", "(OH)2", "C H", " CH4", "CH4 ", "C-H", "Na+", "Cl-",
    "C007", "C0", "C00", "H010", "C1", "C12H22O11", "HHHH", "CHCl3", "ClCH", "cl", "CL", "cL2", "C2h5", "C2H5oh", "H2o", "X", "Xx9y",
    "C\n", "C\nH", "\nC", "C\t2", "C2\n3", "C.5", "C1.5H", "C_2", "A1B2C3", "Z9", "C9999999999", "C2H", "C22H", "C2 2", "C2x2", "C2xH2",
    "C[13]", "D2O", "T", "Uue3", "UUE", "uue", "Cl2Ca", "He@", "~", "C~2", "\x7f", "C\x7f2", "\x00C", "C\x002", "[A-Z]", "(\\D+)",
]


def regex_site_or_none(out):
    try:
        return formula_regex_site()
    except Exception as e:  # noqa  (the translator has already reported the broken tie; the streams below still run three-way on `of`)
        out.notes.append("formula_regex_site unavailable (%s: %s): cut/spl lines not generated" % (type(e).__name__, e))
        return None


def regex_case(out: Outcome, pend: Pending, site, text, case):
    """`cut|`, `spl|` lines for one ASCII text: CPython (patterns and group numbers as read from the tree under check) vs the
    hand cuts vs the engine"""
    out.evaluations += 1
    out.count("regex:texts")
    ms = re.findall(site["cut"], text)
    if "".join(ms) != text:
        out.count("regex:join_test_fails")
    out.nontrivial(("re", text))
    pend.add("cut|" + hx(text), "cut", (text, ms), dict(case, text=text))
    for chunk in [text] + [m for m in ms if isinstance(m, str)]:
        m = re.match(site["split"], chunk)
        if m is None:
            exp = None
            out.count("regex:split_no_match")
        else:
            g_name, g_cnt = m.group(site["name"]), m.group(site["count"])
            exp = (g_name, g_cnt, None if (g_name is None or g_cnt is None) else (1 if g_cnt == "" else int(g_cnt)))
        pend.add("spl|" + hx(chunk), "spl", (chunk, exp), dict(case, text=chunk))


def probe_lines(ctx, out: Outcome, pend: Pending):
    """engine `finditer` against CPython's on patterns that exercise the empty-match rule (not from the source)"""
    rng = ctx.rng
    fixed = ["", "x", "xx", "ax", "xa", "axxb", "ab", "abab", "aab", "b", "ba", "a1b22", "12a", "a b", "Cl2x", "CH3(OH)", "xxyz", "yxy", "xy", "_a ", "Zn2Cu"]
    for k, pat in enumerate(FINDALL_PROBES):
        rx = re.compile(pat)
        texts = list(fixed) + ["".join(rng.choice("axby1 Z_2") for _ in range(rng.randint(0, 7))) for _ in range(ctx.scale(25, 250))]
        for t in texts:
            out.evaluations += 1
            out.count("regex:probe_lines")
            exp = ",".join("s" + hx(m.group(0)) + "".join("/" + ("N" if g is None else "s" + hx(g)) for g in m.groups()) for m in rx.finditer(t))
            pend.add("fi|{}|{}".format(k, hx(t)), "probe", exp, {"type": "probe", "pattern": pat, "text": t})


def regex_streams(ctx, out: Outcome, pend: Pending):
    site = regex_site_or_none(out)
    rng = ctx.rng
    # near misses go through the whole function three ways as well
    from qcelemental.molutil import order_molecular_formula

    for f in NEAR_MISS:
        if "|" in f or not all(32 <= ord(ch) < 127 for ch in f) or re.search(r"\d{4}", f):
            continue  # the `of` line carries raw text: control characters go through cut/spl (hex) only; so do huge counts
            #           (order_molecular_formula materialises `count` copies of the symbol: 'C9999999999' exhausts memory)
        for order in ("alphabetical", "hill"):
            case = {"type": "order_formula", "formula": f, "order": order}
            out.evaluations += 1
            try:
                g = ("str", order_molecular_formula(f, order))
            except Exception as e:  # noqa
                g = ("str_err", err_class(e))
            out.count("order_formula_near_miss:" + ("ok" if g[0] == "str" else g[1]))
            out.nontrivial(("of", f, order))
            add_of(pend, order, f, g[0], g[1], case)
    if site is None:
        return
    texts = dict(getattr(pend, "regex_texts", {}))
    for f in NEAR_MISS:
        texts.setdefault(f, {"type": "regex", "source": "near-miss"})
    # random ASCII (all 128 code points, letters and digits favoured)
    for _ in range(ctx.scale(400, 4000)):
        n = rng.randint(0, 9)
        t = "".join(rng.choice("CHONClaehlr0123456789") if rng.random() < 0.8 else chr(rng.randrange(128)) for _ in range(n))
        texts.setdefault(t, {"type": "regex", "source": "random-ascii"})
    cap = ctx.scale(6000, 60000)
    items = list(texts.items())
    if len(items) > cap:
        keep = [it for it in items if it[1].get("type") != "formula"]
        rest = [it for it in items if it[1].get("type") == "formula"]
        items = keep + rng.sample(rest, max(0, cap - len(keep)))
    for t, case in items:
        regex_case(out, pend, site, t, case)
    probe_lines(ctx, out, pend)


# --------------------------------------------------------------------------------------
# formula streams


def formula_case(out: Outcome, pend: Pending, syms, order):
    from qcelemental.molutil import molecular_formula_from_symbols, order_molecular_formula

    case = {"type": "formula", "symbols": syms, "order": order}
    out.evaluations += 1
    out.count("formula:" + order.lower())
    try:
        f = molecular_formula_from_symbols(syms, order)
    except Exception as e:  # noqa
        pend.add("fs|{}|{}".format(order, ",".join(syms)), "str_err", err_class(e), case)
        out.violations.append(Finding("oracle:formula", case, observed=err_class(e), detail="formula of a list of element symbols raised"))
        return
    pend.add("fs|{}|{}".format(order, ",".join(syms)), "str", f, case)
    titled = Counter(s[:1].upper() + s[1:].lower() for s in syms)
    if len(titled) >= 2 or any(v > 1 for v in titled.values()):
        out.nontrivial(("f", order.lower(), tuple(sorted(titled.items()))))
    for msg in formula_oracle(f, syms, order.lower()):
        out.violations.append(Finding("oracle:formula", case, observed=f, detail=msg))
    # ordering is idempotent, and re-ordering into the other convention agrees with building it directly
    for o2 in ("alphabetical", "hill"):
        try:
            g = order_molecular_formula(f, o2)
        except Exception as e:  # noqa
            out.violations.append(Finding("oracle:formula_reorder", case, observed=err_class(e), detail="order_molecular_formula raised on a formula produced by the library"))
            continue
        add_of(pend, o2, f, "str", g, case)
        want = f if o2 == order.lower() else molecular_formula_from_symbols(syms, o2)
        if g != want:
            out.violations.append(Finding("oracle:formula_reorder", case, observed=g, expected=want,
                                          detail="order_molecular_formula(formula, %s) is not the %s formula of the same atoms" % (o2, o2)))


def random_case_variant(rng, s):
    r = rng.random()
    if r < 0.7:
        return s
    if r < 0.85:
        return s.lower()
    return s.upper()


def formula_streams(ctx, out: Outcome, pend: Pending):
    from qcelemental.molutil import order_molecular_formula

    rng = ctx.rng
    maxk = 6 if ctx.thorough else 5
    # exhaustive: every multiset up to size maxk (quick: 5 exhaustive + size 6 sampled)
    for k in range(0, maxk + 1):
        for ms in itertools.combinations_with_replacement(ALPHABET, k):
            syms = [random_case_variant(rng, s) for s in ms]
            rng.shuffle(syms)
            for order in ("alphabetical", "hill"):
                formula_case(out, pend, syms, order if rng.random() < 0.9 else order.upper())
    if not ctx.thorough:
        all6 = list(itertools.combinations_with_replacement(ALPHABET, 6))
        for ms in rng.sample(all6, 2500):
            syms = [random_case_variant(rng, s) for s in ms]
            rng.shuffle(syms)
            formula_case(out, pend, syms, rng.choice(["alphabetical", "hill"]))
    # larger random symbol lists over the whole table
    for _ in range(ctx.scale(600, 6000)):
        syms = [random_case_variant(rng, rng.choice(ELEMS + ALPHABET)) for _ in range(rng.randint(1, 40))]
        formula_case(out, pend, syms, rng.choice(["alphabetical", "hill", "Hill", "ALPHABETICAL"]))
    # many copies of one element (two-digit counts)
    for _ in range(ctx.scale(150, 1500)):
        syms = [rng.choice(ALPHABET)] * rng.randint(9, 120) + [rng.choice(ELEMS + ALPHABET) for _ in range(rng.randint(0, 12))]
        rng.shuffle(syms)
        out.count("formula:two_digit_counts")
        formula_case(out, pend, syms, rng.choice(["alphabetical", "hill"]))
    # every symbol of the periodic table: alone (count 1, 2, a random two/three-digit count), and random multisets
    import qcelemental as qcel

    table = [str(e) for e in qcel.periodictable.E]
    for e in table:
        out.count("formula:periodic_symbol")
        for cnt in (1, 2, rng.randint(10, 250)):
            formula_case(out, pend, [random_case_variant(rng, e)] * cnt, rng.choice(["alphabetical", "hill"]))
    for _ in range(ctx.scale(300, 3000)):
        syms = [random_case_variant(rng, rng.choice(table)) for _ in range(rng.randint(1, 30))]
        if rng.random() < 0.5:
            syms += ["C"] * rng.randint(1, 12) + ["h"] * rng.randint(0, 24)
            rng.shuffle(syms)
        out.count("formula:periodic_multiset")
        formula_case(out, pend, syms, rng.choice(["alphabetical", "hill"]))
    # order_molecular_formula on free-form formula strings (correspondence; errors included)
    pieces = ["C", "H", "Cl", "Ca", "He", "O", "N", "c", "l", "2", "10", "0", "3", "x", "-", " ", "Br", "Zn"]
    for _ in range(ctx.scale(1500, 15000)):
        f = "".join(rng.choice(pieces) for _ in range(rng.randint(0, 7)))
        order = rng.choice(["alphabetical", "hill", "Hill", "bogus"])
        case = {"type": "order_formula", "formula": f, "order": order}
        out.evaluations += 1
        try:
            g = ("str", order_molecular_formula(f, order))
        except Exception as e:  # noqa
            g = ("str_err", err_class(e))
        out.count("order_formula:" + ("ok" if g[0] == "str" else g[1]))
        out.nontrivial(("of", f, order))
        add_of(pend, order, f, g[0], g[1], case)


# --------------------------------------------------------------------------------------
# compare with the model


def _items(s):
    return [] if s == "" else [bytes.fromhex(x[1:]).decode("ascii") if x[:1] == "s" else None for x in s.split(",")]


def compare_cut(text, ms, ml):
    """`ok <hand prefix>|<hand chunks>|<engine findall>` against CPython's re.findall(<cut>, text)"""
    if not ml.startswith("ok "):
        return (ms, ml)
    parts = ml[3:].split("|")
    if len(parts) != 3:
        return (ms, ml)
    try:
        pre = bytes.fromhex(parts[0][1:]).decode("ascii")
        hand, eng = _items(parts[1]), _items(parts[2])
    except Exception:
        return (ms, ml)
    if eng != ms:
        return (ms, "regex engine findall on the generated AST: %r" % (eng,))
    if hand != ms:
        return (ms, "hand cutUpper chunks: %r" % (hand,))
    if pre + "".join(hand) != text or (pre == "") != ("".join(ms) == text):
        return (text, "hand cutUpper: unmatched prefix %r + chunks %r" % (pre, hand))
    return None


def compare_spl(chunk, exp, ml):
    """`ok <hand name>:<hand n>|<engine>` against CPython's re.match(<split>, chunk) and the two group reads"""
    if not ml.startswith("ok ") or "|" not in ml:
        return (exp, ml)
    hand, _, eng = ml[3:].partition("|")
    try:
        hname_hex, _, hn = hand.partition(":")
        hname = bytes.fromhex(hname_hex[1:]).decode("ascii")
    except Exception:
        return (exp, ml)
    if exp is None:
        # no match: the engine must say so; the (total) hand split reads an empty name there
        if eng != "none":
            return ("no match", "regex engine: " + eng)
        if hname != "":
            return ("no match", "hand splitCount name %r" % hname)
        return None
    g_name, g_cnt, n = exp
    want = "{}:{}:{}".format("N" if g_name is None else "s" + hx(g_name), "N" if g_cnt is None else "s" + hx(g_cnt),
                             "X" if n is None else "s{}:{}".format(hx(g_name), n))
    if eng != want:
        return (want, "regex engine: " + eng)
    if n is not None and (hname != g_name or hn != str(n)):
        return ((g_name, n), "hand splitCount: (%r, %s)" % (hname, hn))
    return None


def compare_orient(payload, ml):
    """get_fragment(..., orient=True) against the model's index lists: symbols, masses, real, fragments, charges, multiplicities,
    totals and electron counts exactly; geometry = the parent's rows at the model's indices up to a rigid motion (pair distances)"""
    syms_c, masses_c, geom_c, rest_c, psyms, pmasses, pgeom = payload
    if not ml.startswith("ok "):
        return ("ok ...", ml)
    ids, _, rest_m = ml[3:].partition("|")
    try:
        idx = [int(i) for i in ids.split(",") if i != ""]
        es, em, eg = [psyms[i] for i in idx], [pmasses[i] for i in idx], np.array([pgeom[i] for i in idx])
    except Exception:
        return (syms_c, "model atom ids " + ids)
    if es != syms_c:
        return (syms_c, "symbols at the model's atom ids %s: %s" % (ids, es))
    if em != masses_c:
        return (masses_c, "masses at the model's atom ids %s: %s" % (ids, em))
    if rest_m != rest_c:
        return (rest_c, rest_m)
    gc = np.array(geom_c)
    da = np.linalg.norm(gc[:, None, :] - gc[None, :, :], axis=2)
    db = np.linalg.norm(eg[:, None, :] - eg[None, :, :], axis=2)
    if da.shape != db.shape or not np.allclose(da, db, rtol=0, atol=1e-6):
        return ("pair distances of the oriented geometry", "pair distances of the parent's rows at the model's atom ids " + ids)
    return None


def compare(ctx, out: Outcome, pend: Pending):
    if not ctx.model_available or not pend.lines:
        return
    model = ctx.run_model(DRIVER, pend.lines)
    for line, (kind, payload, case), ml in zip(pend.lines, pend.expect, model):
        bad = None
        if kind == "gf_err":
            if line.startswith("sgf|") and ml == "err src" and payload in ("other:TypeError", "other:IndexError", "other:ValueError"):
                pass  # the AST evaluator says "Python raises here" without naming the exception class (the hand-model line does)
            elif ml != "err " + payload:
                bad = ("err " + payload, ml)
        elif kind == "gf_ok":
            atoms_c, rest_c, parent_atoms = payload
            if not ml.startswith("ok "):
                bad = ("ok ...", ml)
            else:
                ids, _, rest_m = ml[3:].partition("|")
                try:
                    exp_atoms = [parent_atoms[int(i)] for i in ids.split(",") if i != ""]
                except Exception:
                    exp_atoms = None
                if exp_atoms != atoms_c:
                    bad = (atoms_c, "model atom ids " + ids)
                elif rest_m != rest_c:
                    bad = (rest_c, rest_m)
        elif kind == "ne":
            if ml != "ok " + payload:
                bad = (payload, ml)
        elif kind == "nre":
            if not ml.startswith("ok "):
                bad = (payload, ml)
            elif not math.isfinite(payload):
                bad = (repr(payload), ml)  # inf / nan from the implementation: the model's exact pair sum is a rational
            else:
                ex = parse_rat(ml[3:])
                if not (abs(Fraction(payload) - ex) <= Fraction(1, 10**12) * max(1, abs(ex))):
                    bad = (payload, float(ex))
        elif kind == "str":
            if ml != "ok " + payload:
                bad = (payload, ml)
        elif kind == "str_err":
            if ml != "err " + payload:
                bad = ("err " + payload, ml)
        elif kind == "cut":
            text, ms = payload
            bad = compare_cut(text, ms, ml)
        elif kind == "spl":
            chunk, exp = payload
            bad = compare_spl(chunk, exp, ml)
        elif kind == "probe":
            if ml != "ok " + payload:
                bad = (payload, ml)
        elif kind == "gf_ok_orient":
            bad = compare_orient(payload, ml)
        if bad is not None:
            out.mismatches.append(Finding("mismatch", dict(case, line=line), observed=bad[0], expected=bad[1], detail="implementation vs %s (%s)" % ("the source-derived procedure (AST regenerated from the source, Lean evaluator)" if line[:1] == "s" and line.split("|")[0] in ("sgf", "sne", "snre", "sfs") else "Lean model", kind)))


# --------------------------------------------------------------------------------------


def run_parent(ctx, out, pend, spec, pairs_limit=None, orient_every=1):
    try:
        parent = build(spec)
    except Exception as e:  # noqa
        out.count("generator_reject:" + err_class(e))
        return
    P = mol_parts(parent)
    nfr = len(P["fragments"])
    out.count("parents:nfr%d" % nfr)
    if not all(P["real"]):
        out.count("parents_with_ghost_atoms")
    if any(c != 0 for c in P["fc"]):
        out.count("parents_charged")
    if any(m != 1 for m in P["fm"]):
        out.count("parents_open_shell")
    if "mass_numbers" in spec and any(a != -1 for a in spec["mass_numbers"]):
        out.count("parents_isotopic")
    if parent.__dict__.get("fragments_") is None:
        out.count("parents_default_fragment_properties")
    for fr in P["fragments"]:
        out.count("per_fragment_calls")
        flags = [P["real"][i] for i in fr]
        if any(flags) and not all(flags):
            out.count("per_fragment_calls:fragment_mixes_real_and_ghost")
            if sum(flags) >= 2:
                out.count("per_fragment_calls:mixed_with_a_real_pair")
        elif not any(flags):
            out.count("per_fragment_calls:fragment_all_ghost")
    out.sample({"parent": {k: spec[k] for k in spec if k != "geometry"}, "formula": parent.get_molecular_formula("hill", chgmult=True)})
    check_parent(ctx, out, pend, spec, parent, P)
    pairs = all_pairs(nfr)
    if pairs_limit is not None and len(pairs) > pairs_limit:
        pairs = ctx.rng.sample(pairs, pairs_limit)
    for n, (R, G) in enumerate(pairs):
        for group in (True, False):
            heavy = (n % 3 == 0) or len(pairs) <= 60
            child = check_extraction(ctx, out, pend, spec, parent, P, R, G, group, heavy=heavy)
            if child is not None and (n % orient_every == 0):
                check_orient(ctx, out, spec, parent, P, R, G, group, child, pend)
    # overlapping request: correspondence of the refusal
    if nfr >= 1:
        k = ctx.rng.randrange(nfr)
        check_extraction(ctx, out, pend, spec, parent, P, [k], [k], ctx.rng.random() < 0.5, heavy=False)
        # a fragment number that names no fragment, among valid ones, in `real` or in `ghost`: correspondence of the refusal
        # (grouped path: IndexError at self.fragments[frag]) and of the silent skip (order-preserving path), both paths
        bad = nfr + ctx.rng.randrange(3)
        keep = [j for j in range(nfr) if ctx.rng.random() < 0.6]
        ctx.rng.shuffle(keep)
        cut = ctx.rng.randrange(len(keep) + 1)
        R2, G2 = keep[:cut], keep[cut:]
        tgt = R2 if ctx.rng.random() < 0.7 else G2
        tgt.insert(ctx.rng.randrange(len(tgt) + 1), bad)
        for group in (True, False):
            check_extraction(ctx, out, pend, spec, parent, P, list(R2), list(G2), group, heavy=False)


def run(ctx: Ctx) -> Outcome:
    out = Outcome()
    pend = Pending()
    rng = ctx.rng
    plan = [(1, ctx.scale(25, 120)), (2, ctx.scale(30, 200)), (3, ctx.scale(20, 120)), (4, ctx.scale(8, 40))]
    for nfr, count in plan:
        for _ in range(count):
            run_parent(ctx, out, pend, gen_parent_spec(rng, nfr))
    for _ in range(ctx.scale(6, 40)):
        run_parent(ctx, out, pend, gen_parent_spec(rng, 5), pairs_limit=ctx.scale(80, 200))
    # parents whose first fragment mixes >= 2 real atoms with >= 1 ghost atom (per-fragment electrons / NRE)
    for _ in range(ctx.scale(30, 200)):
        run_parent(ctx, out, pend, gen_parent_spec(rng, rng.choice([1, 2, 2, 3]), force_mixed=True))
    formula_streams(ctx, out, pend)
    regex_streams(ctx, out, pend)
    compare(ctx, out, pend)
    out.exhaustive = False
    out.notes.append("per parent with <=4 fragments: all ordered disjoint (real, ghost) pairs x group on/off x orient on/off; 5 fragments sampled")
    out.notes.append("formula: all multisets up to size %d over the 12-symbol alphabet x both orders" % (6 if ctx.thorough else 5))
    return out


def replay(ctx: Ctx, case) -> Outcome:
    out = Outcome()
    pend = Pending()
    t = case.get("type")
    if t == "fragment":
        parent = build(case["spec"])
        P = mol_parts(parent)
        child = check_extraction(ctx, out, pend, case["spec"], parent, P, case["real"], case["ghost"], case["group"], heavy=True)
        if child is not None:
            check_orient(ctx, out, case["spec"], parent, P, case["real"], case["ghost"], case["group"], child, pend)
    elif t == "parent":
        parent = build(case["spec"])
        check_parent(ctx, out, pend, case["spec"], parent, mol_parts(parent))
    elif t == "formula":
        formula_case(out, pend, case["symbols"], case["order"])
        site = regex_site_or_none(out)
        if site is not None:
            for f, c in list(getattr(pend, "regex_texts", {}).items()):
                regex_case(out, pend, site, f, c)
    elif t == "order_formula":
        from qcelemental.molutil import order_molecular_formula

        try:
            g = ("str", order_molecular_formula(case["formula"], case["order"]))
        except Exception as e:  # noqa
            g = ("str_err", err_class(e))
        out.evaluations += 1
        add_of(pend, case["order"], case["formula"], g[0], g[1], case)
        site = regex_site_or_none(out)
        if site is not None:
            regex_case(out, pend, site, case["formula"], case)
    elif t == "regex":
        site = regex_site_or_none(out)
        if site is not None:
            regex_case(out, pend, site, case["text"], {"type": "regex"})
    elif t == "probe":
        rx = re.compile(case["pattern"])
        exp = ",".join("s" + hx(m.group(0)) + "".join("/" + ("N" if g is None else "s" + hx(g)) for g in m.groups()) for m in rx.finditer(case["text"]))
        pend.add("fi|{}|{}".format(FINDALL_PROBES.index(case["pattern"]), hx(case["text"])), "probe", exp, case)
    compare(ctx, out, pend)
    return out
