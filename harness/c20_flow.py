"""Translator for the CONTROL FLOW of the C20 validators: regenerates lean/QcelVerif/Gen/ProtocolsFlow.lean from the
*text* of the working tree (QCEL_REPO/qcelemental/models/{results,procedures,basis}.py), by `ast` — nothing is imported.

Every listed function body is printed, statement by statement, as a term of the small AST of
lean/QcelVerif/Model/ProtocolsAst.lean (`QcelVerif.Flow.Stmt` / `Expr`).  No interpretation happens here: an `if` stays an
`if`, a `for` a `for`, a list literal a list literal, `v[-1]` an index with the integer -1.  The only normalisations are
purely syntactic and listed here:
  * `elif` is the `else` branch holding one `if`; a missing `else` is `pass`; a statement list is a right-nested `seq`;
  * `values["f"]` -> `Expr.values "f"`, `"f" in / not in values` -> `Expr.inValues "f"` (negated by swapping branches is NOT
    done: `not in` becomes `cmp eq (inValues f) False`);
  * `d.get(k, None)` / `d.get(k)` -> `meth1 d "get" k` (any other default is an error); `d.pop(k)` as a statement -> `Stmt.pop`;
  * `for k, c in d.items()` -> `for2 k c d`; `cls.f(a, b)` / `x.f()` with f one of the translated functions -> `Expr.ext2` / `Expr.ext1`;
  * the argument of `raise C(...)` (a message) is dropped, the class name kept; docstrings and comments are dropped;
  * `x is True` keeps `is`; integer constants keep their sign (`-1` is `int (-1)`).
Anything else — an unknown node type, operator, builtin, method, keyword argument, starred / chained comparison — raises
FlowTranslatorError, which fails the run (broken tie), never silently dropped.
"""
from __future__ import annotations

import ast
from pathlib import Path

import common


class FlowTranslatorError(Exception):
    pass


# (file, class, function, Lean name)
FUNCTIONS = [
    ("results.py", "AtomicResult", "_wavefunction_protocol", "wavefunctionProtocol"),
    ("results.py", "AtomicResult", "_stdout_protocol", "stdoutProtocol"),
    ("results.py", "AtomicResult", "_native_file_protocol", "nativeFileProtocol"),
    ("procedures.py", "OptimizationResult", "_trajectory_protocol", "trajectoryProtocol"),
    ("basis.py", "ElectronShell", "nfunctions", "shellNfunctions"),
    ("basis.py", "BasisSet", "_check_atom_map", "checkAtomMap"),
    ("basis.py", "BasisSet", "_check_nbf", "checkNbf"),
    ("basis.py", "BasisSet", "_calculate_nbf", "calculateNbf"),
]
EXT_FUNCTIONS = {"_calculate_nbf", "nfunctions"}   # calls to these are `Expr.ext`
BUILTINS = {"len", "sum", "list", "set"}
METH0 = {"keys", "copy", "dict"}
METH1 = {"endswith"}


def lstr(s: str) -> str:
    out = []
    for ch in s:
        if ch == "\\":
            out.append("\\\\")
        elif ch == '"':
            out.append('\\"')
        elif ch == "\n":
            out.append("\\n")
        elif ord(ch) < 32 or ord(ch) > 126:
            out.append("\\u{%x}" % ord(ch))
        else:
            out.append(ch)
    return '"' + "".join(out) + '"'


def bad(node, why):
    raise FlowTranslatorError(f"line {getattr(node, 'lineno', '?')}: {why}: {ast.dump(node)[:200]}")


def is_values(node):
    return isinstance(node, ast.Name) and node.id == "values"


CMP = {ast.Eq: ".eq", ast.NotEq: ".ne", ast.Gt: ".gt", ast.Is: ".is", ast.IsNot: ".isNot", ast.In: ".isIn", ast.NotIn: ".notIn"}
BIN = {ast.Add: ".add", ast.Sub: ".sub", ast.Mult: ".mul", ast.FloorDiv: ".floordiv"}


def tr_list(elts):
    out = ".nil"
    for e in reversed(elts):
        out = f"(.cons {tr_expr(e)} {out})"
    return out


def tr_expr(n) -> str:
    if isinstance(n, ast.Constant):
        v = n.value
        if v is None:
            return ".none"
        if v is True or v is False:
            return f"(.bool {'true' if v else 'false'})"
        if isinstance(v, int):
            return f"(.int {v})" if v >= 0 else f"(.int ({v}))"
        if isinstance(v, str):
            return f"(.str {lstr(v)})"
        bad(n, "unsupported constant")
    if isinstance(n, ast.UnaryOp):
        if isinstance(n.op, ast.USub) and isinstance(n.operand, ast.Constant) and type(n.operand.value) is int:
            return f"(.int (-{n.operand.value}))"
        bad(n, "unsupported unary operator")
    if isinstance(n, ast.Name):
        if n.id in ("values", "cls"):
            bad(n, "bare `values` / `cls`")
        return f"(.var {lstr(n.id)})"
    if isinstance(n, (ast.List, ast.Set)):
        return tr_list(n.elts)
    if isinstance(n, ast.Tuple):
        bad(n, "tuple")
    if isinstance(n, ast.Dict):
        out = ".dictNil"
        for k, v in reversed(list(zip(n.keys, n.values))):
            if k is None:
                bad(n, "dict unpacking")
            out = f"(.dictCons {tr_expr(k)} {tr_expr(v)} {out})"
        return out
    if isinstance(n, ast.Subscript):
        if is_values(n.value):
            if isinstance(n.slice, ast.Constant) and isinstance(n.slice.value, str):
                return f"(.values {lstr(n.slice.value)})"
            bad(n, "values[...] with a non-literal key")
        if isinstance(n.slice, ast.Slice):
            bad(n, "slice")
        return f"(.index {tr_expr(n.value)} {tr_expr(n.slice)})"
    if isinstance(n, ast.Attribute):
        return f"(.attr {tr_expr(n.value)} {lstr(n.attr)})"
    if isinstance(n, ast.Compare):
        if len(n.ops) != 1:
            bad(n, "chained comparison")
        op, l, r = n.ops[0], n.left, n.comparators[0]
        if type(op) not in CMP:
            bad(n, "unsupported comparison")
        if is_values(r):
            if isinstance(l, ast.Constant) and isinstance(l.value, str) and isinstance(op, (ast.In, ast.NotIn)):
                inv = f"(.inValues {lstr(l.value)})"
                return inv if isinstance(op, ast.In) else f"(.cmp .eq {inv} (.bool false))"
            bad(n, "comparison with `values`")
        return f"(.cmp {CMP[type(op)]} {tr_expr(l)} {tr_expr(r)})"
    if isinstance(n, ast.BinOp):
        if type(n.op) not in BIN:
            bad(n, "unsupported binary operator")
        return f"(.bin {BIN[type(n.op)]} {tr_expr(n.left)} {tr_expr(n.right)})"
    if isinstance(n, ast.GeneratorExp) or isinstance(n, ast.ListComp):
        if len(n.generators) != 1:
            bad(n, "nested generators")
        g = n.generators[0]
        if g.ifs or g.is_async or not isinstance(g.target, ast.Name):
            bad(n, "generator with conditions / tuple target")
        return f"(.gen {tr_expr(n.elt)} {lstr(g.target.id)} {tr_expr(g.iter)})"
    if isinstance(n, ast.Call):
        if n.keywords or any(isinstance(a, ast.Starred) for a in n.args):
            bad(n, "keyword / starred arguments")
        f = n.func
        if isinstance(f, ast.Name):
            if f.id == "isinstance" and len(n.args) == 2 and isinstance(n.args[1], ast.Name):
                return f"(.isinst {tr_expr(n.args[0])} {lstr(n.args[1].id)})"
            if f.id in BUILTINS and len(n.args) == 1:
                return f"(.call {lstr(f.id)} {tr_expr(n.args[0])})"
            bad(n, "unsupported builtin / call")
        if isinstance(f, ast.Attribute):
            if f.attr in EXT_FUNCTIONS:
                if isinstance(f.value, ast.Name) and f.value.id == "cls" and len(n.args) == 2:
                    return f"(.ext2 {lstr(f.attr)} {tr_expr(n.args[0])} {tr_expr(n.args[1])})"
                if not n.args:
                    return f"(.ext1 {lstr(f.attr)} {tr_expr(f.value)})"
                bad(n, "call of a translated function in an unsupported form")
            if f.attr == "get" and len(n.args) in (1, 2):
                if len(n.args) == 2 and not (isinstance(n.args[1], ast.Constant) and n.args[1].value is None):
                    bad(n, ".get with a default other than None")
                if is_values(f.value):
                    bad(n, "values.get")
                return f"(.meth1 {tr_expr(f.value)} \"get\" {tr_expr(n.args[0])})"
            if f.attr in METH0 and not n.args:
                return f"(.meth0 {tr_expr(f.value)} {lstr(f.attr)})"
            if f.attr in METH1 and len(n.args) == 1:
                return f"(.meth1 {tr_expr(f.value)} {lstr(f.attr)} {tr_expr(n.args[0])})"
            if f.attr == "items" and not n.args:
                bad(n, ".items() outside a for statement")
            bad(n, "unsupported method")
        bad(n, "unsupported call")
    bad(n, "unsupported expression")


def tr_block(stmts) -> str:
    stmts = [s for s in stmts if not (isinstance(s, ast.Expr) and isinstance(s.value, ast.Constant) and isinstance(s.value.value, str))]
    if not stmts:
        return ".pass"
    parts = [tr_stmt(s) for s in stmts]
    out = parts[-1]
    for p in reversed(parts[:-1]):
        out = f"(.seq {p}\n {out})"
    return out


def tr_stmt(s) -> str:
    if isinstance(s, ast.Pass):
        return ".pass"
    if isinstance(s, ast.Continue):
        return ".continue"
    if isinstance(s, ast.Return):
        return f"(.ret {tr_expr(s.value) if s.value is not None else '.none'})"
    if isinstance(s, ast.Raise):
        e = s.exc
        if s.cause is not None or e is None:
            bad(s, "bare raise / raise from")
        if isinstance(e, ast.Call) and isinstance(e.func, ast.Name):
            return f"(.raise {lstr(e.func.id)})"
        if isinstance(e, ast.Name):
            return f"(.raise {lstr(e.id)})"
        bad(s, "unsupported raise")
    if isinstance(s, ast.Assign):
        if len(s.targets) != 1:
            bad(s, "multiple assignment targets")
        t = s.targets[0]
        if isinstance(t, ast.Name):
            return f"(.assign {lstr(t.id)} {tr_expr(s.value)})"
        if isinstance(t, ast.Subscript) and isinstance(t.value, ast.Name) and not is_values(t.value) and not isinstance(t.slice, ast.Slice):
            return f"(.setItem {lstr(t.value.id)} {tr_expr(t.slice)} {tr_expr(s.value)})"
        bad(s, "unsupported assignment target")
    if isinstance(s, ast.AugAssign):
        if isinstance(s.op, ast.Add) and isinstance(s.target, ast.Name):
            return f"(.augAdd {lstr(s.target.id)} {tr_expr(s.value)})"
        bad(s, "unsupported augmented assignment")
    if isinstance(s, ast.Expr):
        c = s.value
        if (isinstance(c, ast.Call) and isinstance(c.func, ast.Attribute) and c.func.attr == "pop" and len(c.args) == 1
                and not c.keywords and isinstance(c.func.value, ast.Name)):
            return f"(.pop {lstr(c.func.value.id)} {tr_expr(c.args[0])})"
        bad(s, "unsupported expression statement")
    if isinstance(s, ast.If):
        return f"(.ite {tr_expr(s.test)}\n {tr_block(s.body)}\n {tr_block(s.orelse)})"
    if isinstance(s, ast.For):
        if s.orelse:
            bad(s, "for-else")
        if isinstance(s.target, ast.Name):
            return f"(.for1 {lstr(s.target.id)} {tr_expr(s.iter)}\n {tr_block(s.body)})"
        if (isinstance(s.target, ast.Tuple) and len(s.target.elts) == 2 and all(isinstance(e, ast.Name) for e in s.target.elts)
                and isinstance(s.iter, ast.Call) and isinstance(s.iter.func, ast.Attribute) and s.iter.func.attr == "items"
                and not s.iter.args and not s.iter.keywords):
            k, v = s.target.elts
            return f"(.for2 {lstr(k.id)} {lstr(v.id)} {tr_expr(s.iter.func.value)}\n {tr_block(s.body)})"
        bad(s, "unsupported for target / iterable")
    if isinstance(s, ast.Try):
        if s.orelse or s.finalbody or len(s.handlers) != 1:
            bad(s, "try with else / finally / several handlers")
        h = s.handlers[0]
        if h.name is not None or not isinstance(h.type, ast.Name):
            bad(s, "unsupported except clause")
        return f"(.try {tr_block(s.body)}\n {lstr(h.type.id)}\n {tr_block(h.body)})"
    bad(s, "unsupported statement")


def find_function(tree, cls_name, fn_name):
    for n in tree.body:
        if isinstance(n, ast.ClassDef) and n.name == cls_name:
            hits = [m for m in n.body if isinstance(m, ast.FunctionDef) and m.name == fn_name]
            if len(hits) != 1:
                raise FlowTranslatorError(f"{cls_name}.{fn_name}: found {len(hits)} definitions")
            return hits[0]
    raise FlowTranslatorError(f"class {cls_name} not found")


def parse_sources(repo: Path):
    trees, out = {}, []
    for fname, cls, fn, lname in FUNCTIONS:
        if fname not in trees:
            trees[fname] = ast.parse((Path(repo) / "qcelemental" / "models" / fname).read_text())
        f = find_function(trees[fname], cls, fn)
        a = f.args
        if a.vararg or a.kwarg or a.kwonlyargs or a.defaults or a.posonlyargs:
            raise FlowTranslatorError(f"{cls}.{fn}: unsupported signature")
        out.append({"file": fname, "cls": cls, "fn": fn, "lean": lname, "line": f.lineno, "end": f.end_lineno,
                    "params": [x.arg for x in a.args], "body": tr_block(f.body)})
    return out


def emit_lean(fns) -> str:
    L = ["import QcelVerif.Model.ProtocolsAst",
         "/-! GENERATED by harness/c20_flow.py:gen_protocols_flow from qcelemental/models/results.py, procedures.py, basis.py of the",
         "working tree (ast) — do not edit.  One `FnDecl` per validator body, statement by statement. -/",
         "namespace QcelVerif.Flow.Gen", "open QcelVerif.Flow", ""]
    for f in fns:
        L.append(f"/-- {f['file']}:{f['line']}-{f['end']}  `{f['cls']}.{f['fn']}` -/")
        L.append(f"def {f['lean']} : FnDecl := {{ cls := {lstr(f['cls'])}, name := {lstr(f['fn'])}, params := [{', '.join(lstr(p) for p in f['params'])}], body :=")
        L.append(" " + f["body"] + " }")
        L.append("")
    L.append("end QcelVerif.Flow.Gen")
    return "\n".join(L) + "\n"


def gen_protocols_flow(ctx) -> None:
    """TRANSLATOR: rewrite lean/QcelVerif/Gen/ProtocolsFlow.lean from the working tree of common.REPO"""
    body = emit_lean(parse_sources(common.REPO))
    gen = common.LEAN / "QcelVerif" / "Gen"
    gen.mkdir(exist_ok=True)
    f = gen / "ProtocolsFlow.lean"
    if not f.exists() or f.read_text() != body:
        f.write_text(body)


# ----------------------------------------------------------------------------------------------------
# the translated text against the live classes the cases run on

# function -> (field it validates, pre, always)
REGISTERED = {
    ("AtomicResult", "_wavefunction_protocol"): ("wavefunction", True, False),
    ("AtomicResult", "_stdout_protocol"): ("stdout", False, False),
    ("AtomicResult", "_native_file_protocol"): ("native_files", False, True),
    ("OptimizationResult", "_trajectory_protocol"): ("trajectory", False, False),
    ("BasisSet", "_check_atom_map"): ("atom_map", False, False),
    ("BasisSet", "_check_nbf"): ("nbf", False, True),
}


def cross_check():
    """list of disagreements: (i) the body translated from the file text equals the body translated from the source of the live
    function object (`inspect.getsource`), i.e. what was translated is what is imported and run; (ii) each validator is the one
    pydantic has registered on the field the models say it guards, with the pre / always flags the models assume, and is the only
    one of that name"""
    import inspect
    import textwrap

    from qcelemental.models.basis import BasisSet, ElectronShell
    from qcelemental.models.procedures import OptimizationResult
    from qcelemental.models.results import AtomicResult

    live = {"AtomicResult": AtomicResult, "OptimizationResult": OptimizationResult, "ElectronShell": ElectronShell, "BasisSet": BasisSet}
    bad_items = []
    from_text = {(f["cls"], f["fn"]): f for f in parse_sources(common.REPO)}
    for _fname, cls, fn, _lname in FUNCTIONS:
        try:
            obj = getattr(live[cls], fn)
            node = ast.parse(textwrap.dedent(inspect.getsource(obj))).body[0]
            body = tr_block(node.body)
        except Exception as e:  # noqa
            bad_items.append(f"{cls}.{fn}: live source not translatable: {type(e).__name__}: {e}")
            continue
        if body != from_text[(cls, fn)]["body"]:
            bad_items.append(f"{cls}.{fn}: body of the imported function differs from the text of {common.REPO}")
        reg = REGISTERED.get((cls, fn))
        if reg is not None:
            field, pre, always = reg
            vs = [v for v in live[cls].__validators__.get(field, []) if getattr(v.func, "__name__", None) == fn]
            if len(vs) != 1:
                bad_items.append(f"{cls}.{fn}: registered {len(vs)} times on field `{field}`")
            elif (bool(vs[0].pre), bool(vs[0].always)) != (pre, always):
                bad_items.append(f"{cls}.{fn}: pre/always = {vs[0].pre}/{vs[0].always}, models assume {pre}/{always}")
            others = [f2 for f2, lst in live[cls].__validators__.items() if f2 != field and any(getattr(v.func, "__name__", None) == fn for v in lst)]
            if others:
                bad_items.append(f"{cls}.{fn}: also registered on {others}")
    return bad_items
