"""C07 — the text grammar of from_string, regenerated from the source on every run.

`gen_fromstring_regex(ctx)` (registered in harness/c07.py:TRANSLATORS) writes lean/QcelVerif/Gen/FromStringRegex.lean:

  * regex.py's building blocks NUMBER, SEP, ENDL, CHGMULT, CARTXYZ  (the file is executed from the working tree, never cached)
  * every pattern from_string.py compiles for the xyz / xyz+ / psi4 routes, taken from the compiled objects of the module
    imported from QCEL_REPO (`.pattern`, `.flags` - i.e. exactly what `re.compile` was given at the compile site):
    com, orient, bohrang, symmetry, fragment_marker, efpxyzabc, efppoints, cgmp, atom_cartesian, xyz1strict,
    atom_cartesian_strict, xyz1, xyz2
  * the comment pattern and its replacement template, read by `ast` from util/misc.py:filter_comments (an inline `re.sub`)

each as a Lean `Re` term through harness/regex_gen.py (CPython's own parse tree, re-encoded constructor by constructor).
It also reads from from_string.py's syntax tree HOW each compiled pattern is used (`re.sub` / `re.subn` / `re.split` /
`.match`) and refuses to emit anything if that differs from what the Lean side models (USES below).

Not translated (outside M1 and outside the property's quantifier): pubchemre (network), atom_vcart / atom_zmat1-4 / variable
(the psi4+ zmatrix dialect).

The second half is the three-way stream: CPython's `re` on the very (pattern, flags) that were emitted, the generic engine on the
generated ASTs and M1's hand recognisers (Driver/C07c.lean) on every generated line / token / text.
"""
from __future__ import annotations

import ast
import importlib
import re
from pathlib import Path

import common
from common import Finding, Outcome

DRIVER_C = "QcelVerif/Driver/C07c.lean"


class TieBroken(Exception):
    pass


# compiled patterns of from_string.py that the Lean side covers: python name -> (lean name, entry points in from_string.py)
COMPILED = {
    "com": ("com", {"re.subn"}),
    "orient": ("orient", {"re.subn"}),
    "bohrang": ("bohrang", {"re.subn"}),
    "symmetry": ("symmetry", {"re.subn"}),
    "fragment_marker": ("fragmentMarker", {"re.split"}),
    "efpxyzabc": ("efpxyzabc", {"re.sub"}),
    "efppoints": ("efppoints", {"re.sub"}),
    "cgmp": ("cgmp", {"re.subn", ".match"}),
    "atom_cartesian": ("atomCartesian", {"re.sub"}),
    "xyz1strict": ("xyz1strict", {"re.sub"}),
    "atom_cartesian_strict": ("atomCartesianStrict", {"re.sub"}),
    "xyz1": ("xyz1", {"re.sub"}),
    "xyz2": ("xyz2", {"re.sub"}),
}
# compiled there as well, deliberately not translated (psi4+ dialect / network lookup): their uses are checked to be `re.sub` only
NOT_MODELLED = {"pubchemre": {"re.sub"}, "atom_vcart": {"re.sub"}, "atom_zmat1": {"re.sub"}, "atom_zmat2": {"re.sub"},
                "atom_zmat3": {"re.sub"}, "atom_zmat4": {"re.sub"}, "variable": {"re.sub"}}
BLOCKS = {"NUMBER": "number", "SEP": "sep", "ENDL": "endl", "CHGMULT": "chgmult", "CARTXYZ": "cartxyz"}
ENTRY = {"sub", "subn", "split", "match", "search", "fullmatch", "findall", "finditer"}


def _module(name):
    """a module of the library under test - it must come from the working tree the check was pointed at"""
    mod = importlib.import_module(name)
    f = Path(mod.__file__).resolve()
    if not str(f).startswith(str(common.REPO.resolve()) + "/"):
        raise TieBroken(f"{name} was imported from {f}, not from {common.REPO}")
    return mod


def regex_blocks():
    import runpy

    ns = runpy.run_path(str(common.REPO / "qcelemental/molparse/regex.py"))
    for k in BLOCKS:
        if not isinstance(ns.get(k), str):
            raise TieBroken(f"regex.py no longer defines the string {k}")
    return ns


def pattern_uses():
    """from_string.py's syntax tree: {pattern variable: set of entry points it is used through}; also checks that a name
    compiled twice at module level is compiled from the same expression both times"""
    src = (common.REPO / "qcelemental/molparse/from_string.py").read_text()
    tree = ast.parse(src)
    compiled = {}
    for n in tree.body:
        if (isinstance(n, ast.Assign) and len(n.targets) == 1 and isinstance(n.targets[0], ast.Name) and isinstance(n.value, ast.Call)
                and isinstance(n.value.func, ast.Attribute) and n.value.func.attr == "compile"
                and isinstance(n.value.func.value, ast.Name) and n.value.func.value.id == "re"):
            d = ast.dump(n.value)
            if compiled.setdefault(n.targets[0].id, d) != d:
                raise TieBroken(f"from_string.py compiles {n.targets[0].id} twice from different expressions")
    uses = {k: set() for k in compiled}
    for n in ast.walk(tree):
        if not isinstance(n, ast.Call) or not isinstance(n.func, ast.Attribute):
            continue
        f = n.func
        if isinstance(f.value, ast.Name) and f.value.id == "re" and f.attr in ENTRY:
            if n.args and isinstance(n.args[0], ast.Name) and n.args[0].id in compiled:
                uses[n.args[0].id].add("re." + f.attr)
                if any(kw.arg in ("flags", "count", "maxsplit") for kw in n.keywords) or len(n.args) > 3:
                    raise TieBroken(f"re.{f.attr}({n.args[0].id}, ...) is called with count/flags arguments (line {n.lineno})")
            elif not n.args or not isinstance(n.args[0], ast.Name):
                raise TieBroken(f"re.{f.attr} is called with an inline pattern at from_string.py:{n.lineno}; the translator reads compiled module-level patterns only")
        elif isinstance(f.value, ast.Name) and f.value.id in compiled and f.attr in ENTRY:
            uses[f.value.id].add("." + f.attr)
    return uses


def comment_site():
    """util/misc.py:filter_comments -> (pattern, replacement template, line) of its single `re.sub(<str>, <str>, string)`"""
    src = (common.REPO / "qcelemental/util/misc.py").read_text()
    tree = ast.parse(src)
    fn = next((f for f in tree.body if isinstance(f, ast.FunctionDef) and f.name == "filter_comments"), None)
    if fn is None:
        raise TieBroken("filter_comments not found in util/misc.py")
    calls = [n for n in ast.walk(fn) if isinstance(n, ast.Call)]
    rets = [n for n in fn.body if isinstance(n, ast.Return)]
    body = [n for n in fn.body if not (isinstance(n, ast.Expr) and isinstance(n.value, ast.Constant))]
    if len(calls) != 1 or len(rets) != 1 or len(body) != 1 or rets[0].value is not calls[0]:
        raise TieBroken("filter_comments is no longer a single `return re.sub(...)`")
    c = calls[0]
    ok = (isinstance(c.func, ast.Attribute) and c.func.attr == "sub" and isinstance(c.func.value, ast.Name) and c.func.value.id == "re"
          and len(c.args) == 3 and not c.keywords and all(isinstance(a, ast.Constant) and isinstance(a.value, str) for a in c.args[:2])
          and isinstance(c.args[2], ast.Name) and c.args[2].id == fn.args.args[0].arg)
    if not ok:
        raise TieBroken("filter_comments' re.sub call changed shape (expected re.sub(<literal>, <literal>, string))")
    if c.args[1].value != "\\1":
        raise TieBroken(f"filter_comments replaces a comment by {c.args[1].value!r}; the Lean side models the template '\\1' (group 1 kept)")
    return c.args[0].value, c.args[1].value, c.lineno


def sources():
    """-> ordered {lean name: (pattern, flags, where)} - everything the generated file holds"""
    ns = regex_blocks()
    out = {}
    for k, ln in BLOCKS.items():
        out[ln] = (ns[k], int(re.VERBOSE), f"regex.py {k} under re.VERBOSE (as every use site in from_string.py compiles it)")
    uses = pattern_uses()
    want = {**{k: v[1] for k, v in COMPILED.items()}, **NOT_MODELLED}
    if set(uses) != set(want):
        raise TieBroken(f"from_string.py compiles {sorted(set(uses) ^ set(want))} differently from what the translator knows "
                        f"(new or removed module-level re.compile)")
    for k in want:
        if uses[k] != want[k]:
            raise TieBroken(f"from_string.py uses {k} through {sorted(uses[k])}; the Lean side models {sorted(want[k])}")
    fs = _module("qcelemental.molparse.from_string")
    for k, (ln, ent) in COMPILED.items():
        p = getattr(fs, k, None)
        if not isinstance(p, re.Pattern) or not isinstance(p.pattern, str):
            raise TieBroken(f"from_string.{k} is not a compiled str pattern")
        out[ln] = (p.pattern, int(p.flags), f"from_string.py `{k}` ({re.RegexFlag(p.flags)!s}), used through {', '.join(sorted(ent))}")
    # the building blocks must be what the compiled line patterns were assembled from
    for blk, names in (("NUMBER", ["cgmp", "xyz2", "atom_cartesian", "atom_cartesian_strict", "efpxyzabc"]), ("SEP", ["cgmp", "xyz2", "atom_cartesian"]),
                       ("CHGMULT", ["cgmp", "xyz2"]), ("CARTXYZ", ["atom_cartesian", "atom_cartesian_strict"]), ("ENDL", ["efpxyzabc"])):
        for k in names:
            if ns[blk] not in getattr(fs, k).pattern:
                raise TieBroken(f"from_string.{k} is not assembled from regex.{blk}")
    pat, tmpl, line = comment_site()
    out["comment"] = (pat, 0, f"util/misc.py:{line} filter_comments: re.sub(pattern, {tmpl!r}, string)")
    return out


_CACHE = {}


def translated():
    """{lean name: regex_gen.Translated}, once per process"""
    import regex_gen

    if "tr" not in _CACHE:
        trs = {}
        for ln, (pat, flags, _where) in sources().items():
            try:
                trs[ln] = regex_gen.translate(pat, flags)
            except regex_gen.Unsupported as e:
                raise TieBroken(f"pattern {ln}: {e}") from e
        _CACHE["tr"] = trs
    return _CACHE["tr"]


def compiled(name):
    if ("c", name) not in _CACHE:
        pat, flags, _ = sources()[name]
        _CACHE[("c", name)] = re.compile(pat, flags)
    return _CACHE[("c", name)]


def gen_fromstring_regex(ctx=None) -> None:
    import regex_gen

    _CACHE.clear()
    src = sources()
    trs = translated()
    lines = [
        "import QcelVerif.Model.RegexEngine",
        "/-! GENERATED by harness/c07_regex.py:gen_fromstring_regex from qcelemental/molparse/regex.py, the compiled patterns of",
        "qcelemental/molparse/from_string.py (module imported from the working tree) and util/misc.py:filter_comments - do not edit.",
        "Each term is CPython's own parse tree (`re._parser.parse`) of the pattern under the flags of its compile site, re-encoded",
        "constructor by constructor; IGNORECASE is folded into the classes (ASCII), `\\d \\w \\s` are the ASCII parts of the categories. -/",
        "namespace QcelVerif.Gen.FromStringRegex",
        "open QcelVerif.Regex",
        "",
    ]
    for ln, tr in trs.items():
        lines += regex_gen.lean_defs(ln, tr, src[ln][2].replace("-/", "- /"))
    lines.append("/-- every generated pattern by name: (AST, number of groups) -/")
    lines.append("def byName : List (String × Re × Nat) := [" + ", ".join(f'("{ln}", {ln}, {ln}Groups)' for ln in trs) + "]")
    lines.append("")
    lines.append("end QcelVerif.Gen.FromStringRegex")
    body = "\n".join(lines) + "\n"
    f = common.LEAN / "QcelVerif" / "Gen" / "FromStringRegex.lean"
    f.parent.mkdir(exist_ok=True)
    if not f.exists() or f.read_text() != body:
        f.write_text(body)


gen_fromstring_regex.__name__ = "c07_regex.gen_fromstring_regex"


# --------------------------------------------------------------------------------------
# three-way stream: CPython `re` (as the code calls it) | engine on the generated AST | M1 hand recogniser


def hx(t: str) -> str:
    return t.encode("ascii").hex() if t else "-"


def _via_sub(name, line, groups, whole=True):
    """what the library's `re.sub(<pattern>, callback, line)` hands to its callback: the named groups of the (single) match.
    -> None (no match) | list of group texts | 'odd:…' when the substitution does not behave like one match at the start"""
    seen = []

    def cb(m):
        seen.append([m.group(g) for g in groups] + [m.start()])
        return ""

    res, n = re.subn(compiled(name), cb, line)
    if n == 0:
        return None
    if n != 1 or seen[0][-1] != 0 or (whole and res != ""):
        return f"odd:{n}:{res!r}"
    return seen[0][:-1]


def _o(v, f):
    return "none" if v is None else v if isinstance(v, str) else f(v)


def _texts(v):
    return ",".join(hx(x) if x is not None else "N" for x in v)


def _unit(m_groups):
    uang, ubohr = m_groups
    return "A" if uang else "B" if ubohr else "-"


def cpython_line(s: str) -> dict:
    """every line-level recogniser on CPython, rendered as Driver/C07c.lean renders them"""
    out = {}
    out["cgmp"] = _o(_via_sub("cgmp", s, ["chg", "mult"]), _texts)
    m = compiled("cgmp").match(s)  # the `.match` use in _filter_mints must agree with the substitution
    if (m is None) != (out["cgmp"] == "none"):
        out["cgmp"] = "odd:match-vs-subn"
    out["xyz1strict"] = _o(_via_sub("xyz1strict", s, ["nat"]), _texts)
    out["xyz1"] = _o(_via_sub("xyz1", s, ["uang", "ubohr"]), _unit)
    out["xyz2"] = _o(_via_sub("xyz2", s, ["chg", "mult"], whole=False), _texts)
    out["atom"] = _o(_via_sub("atomCartesian", s, ["nucleus", "x", "y", "z"]), _texts)
    out["atomstrict"] = _o(_via_sub("atomCartesianStrict", s, ["nucleus", "x", "y", "z"]), _texts)
    for k in ("com", "orient"):
        v = _via_sub(k, s, [])
        out[k] = v if isinstance(v, str) else ("0" if v is None else "1")
    out["units"] = _o(_via_sub("bohrang", s, ["uang", "ubohr"]), _unit)
    out["sym"] = _o(_via_sub("symmetry", s, ["pg"]), lambda v: hx(v[0].lower()))
    out["efp"] = _o(_via_sub("efpxyzabc", s, ["efpfile", "x", "y", "z", "a", "b", "c"]), _texts)
    out["sep"] = ",".join(hx(x) for x in re.split(compiled("sep"), s))
    return out


def cpython_frags(t: str) -> str:
    fr = re.split(compiled("fragmentMarker"), t)
    return "/".join(",".join(hx(l) for l in (x.strip() for x in f.split("\n")) if l) for f in fr)


FIXED_LINES = [
    "", "12", "12 ", "012", "1 2", "12x", "12 au", "12 AU", "12,bohr", "12 \t,, Bohr", "12bohr", "12 ang", "12 angstrom", "12 a.u.", "12 aU", "12 au x", "12 bo", "1\x0b2", "3\x1cau",
    "0 1", "-1 2", "+1.5 3", ".5 2", "5. 2", "1e0 2", "1D0,2", "1 2 3", "1 2x", "1 x", "1  ,\t 02", "1,2,", "1 -2", "1.0 2 title words", "0 1x", "1e 2", "1.2.3 4", "- 1", "1", "1 ",
    "He 0 0 0", "he 0. .0 0.e0", "HE,0,0,0", "He 0 0 0 ", "He 0 0 0,", ",He 0 0 0", "He  0\t0 , 0", "He 0 0", "He 0 0 0 0", "@He 0 0 0", "Gh(He) 0 0 0", "gH(he_x@4.0026) 1 2 3",
    "Gh(He 0 0 0", "He) 0 0 0", "4He 0 0 0", "He_a 0 0 0", "He3 0 0 0", "2 0 0 0", "2_x 0 0 0", "999 0 0 0", "1234 0 0 0", "Heee 0 0 0", "He@4.0026 0 0 0", "He@4. 0 0 0",
    "He 1e5 1E-5 1d+5", "He 1.5D2 -.5 +3.", "He . 0 0", "He 0 0 1e", "He +-1 0 0", "He\x0b0 0 0", "He 0 0 0\x1f", "H_ 0 0 0", "H__ 0 0 0", "He_1@2.5 0 0 0", "12_ab 0 0 0",
    "no_com", "nocom", "NO_COM", "NoCom", "no_com ", "no com", "nocomm", "no__com", "no_reorient", "noreorient", "No_ReOrient", "no_reorien", "noreorient x",
    "units bohr", "unit au", "UNITS=A.U.", "units   = \t angstrom", "unit ang", "units a0u1", "units a,u,", "units nm", "units", "units,bohr", "unitsbohr", "units bohr x",
    "unitss bohr", "units  au", "units\x0bau", "units=ang", "units angs", "units angstro", "units angstroms", "units a.u", "units au.",
    "symmetry c1", "symmetry = C2V", "symmetry c 1", "symmetry\tD2h", "SYMMETRY==cs", "symmetry", "symmetry ", "symmetryc1", "symmetry c1-", "symmetry _x9",
    "efp h2o 0 0 0 0 0 0", "efp h2o 1.0 2 3 4 5 6", "EFP c6h6 0.0,0.0,0.0 1.0,2.0,3.0", "efp h2o 1 2 3 4 5 6,", "efp h2o 1 2 3 4 5 6 \t,", "efp h2o 1 2 3 4 5", "efp h2o 1 2 3 4 5 6 7",
    "efp h-o 1 2 3 4 5 6", "efp  h2o\t1d0 2e0 3 4 5 6", "efph2o 1 2 3 4 5 6", "efp h2o", "efp", "--", "---", "-- --", " -- ", "-",
]
FIXED_TOKENS = ["", ".", "+", "-", "1", "-1", "+1.", ".5", "-.5e3", "1e5", "1E5", "1d5", "1D-5", "1.e", "1.5e", "1.5e+", "1.5e+3", "1e5.3", "..5", "1..5", "+-1", "1.d", ".e5", "e5",
                "1e", "1ee5", "1e5e5", "1.5D+02", "12.", ".5.5", "12", "0x10", "1_000", "1.5x", "x1", "1e-", "1e+-5", "++1", "1+", "1-2", "1.5e3.", "00.10", "1e400", "-0.0", "1d", "inf", "nan",
                "1\n", "\n1", "1.\n5", "1e\n5", "1.5D", "D5", "1.D5", ".D5", "+.5e-0"]
FIXED_TEXTS = ["", "#", "a#b", "a #b", "a\t# b", "a\\#b", "\\#", "\\\\#x", "a##b", "a#b#c", "a#b\nc", "a#b\n#c\nd#", "#\n#\n#", "a\n#b", "a\n #b\n", "a \n\t#b", "He 0 0 0 # c\n# full\nHe 0 0 2#x",
               "\\# He 0 0 0", "He 0 0 0 \\# x # y", "He 0 0 0 ##\\##", "a#\\", "a\\\n#b", "a\\ #b", "#\\#", "x\r#y\rz", "x\x0b#y", "ab\n\n  # c\n\nd"]
FIXED_FRAG_TEXTS = ["", "--", "a\n--\nb", "a\n --\t\nb", "a\n--\n\n--\nb", "--\na", "a\n--", "a\n---\nb", "a\n-- --\nb", "a --\nb", "a\n\x0b--\x0c\nb", "a\n--\x0bb", "a\n\n  \n--\n\n\nb\n--\n--\nc",
                    "0 1\n--\nHe 0 0 0\n--\n1 2\nHe 0 0 2", "a\n-\n-\nb", "a\r--\rb", "a\n--\r\nb", "a\n\r--\nb"]


def _pattern_texts(rng, name, lines, tokens, texts):
    """inputs for the X lines of one generated pattern: what the pattern is applied to in the code, plus near-misses"""
    if name in ("number", "sep", "endl"):
        base = tokens
    elif name in ("comment", "fragmentMarker", "efppoints"):
        base = texts
    else:
        base = lines
    return base


def regex_stream(ctx, out: Outcome, m1_cases, budget_scale=1.0):
    """CPython | engine | hand on every generated line / token / text (within the budget; the fixed near-miss lists first)"""
    from qcelemental.util import filter_comments

    if not ctx.model_available:
        out.notes.append("Lean driver unavailable: regex three-way stream skipped")
        return
    try:
        trs = translated()
    except Exception as e:  # the translator already reported it as a broken obligation
        out.notes.append(f"regex three-way stream skipped: translator failed ({e})")
        return
    rng = ctx.rng
    nL, nN, nC, nF, nX = [int(x * budget_scale) for x in (ctx.scale(3500, 40000), ctx.scale(3000, 30000), ctx.scale(1200, 12000), ctx.scale(1200, 12000), ctx.scale(260, 2600))]
    lines, tokens, texts, ftexts = dict.fromkeys(FIXED_LINES), dict.fromkeys(FIXED_TOKENS), dict.fromkeys(FIXED_TEXTS), dict.fromkeys(FIXED_FRAG_TEXTS)
    pool_l, pool_t, pool_c, pool_f = {}, {}, {}, {}
    for _dt, text, _r in m1_cases:
        if any(ord(c) > 127 for c in text):
            continue
        pool_c.setdefault(text)
        t = filter_comments(text.strip())
        pool_f.setdefault(t)
        for ln in t.split("\n"):
            ln = ln.strip()
            if ln not in pool_l:
                pool_l[ln] = None
                for tok in re.split(r"[\t ,]+", ln):
                    pool_t.setdefault(tok)

    def take(fixed, pool, n):
        rest = [k for k in pool if k not in fixed]
        rng.shuffle(rest)
        return list(fixed) + rest[: max(0, n - len(fixed))]

    lines, tokens, texts, ftexts = take(lines, pool_l, nL), take(tokens, pool_t, nN), take(texts, pool_c, nC), take(ftexts, pool_f, nF)
    req = [("L", s) for s in lines] + [("N", s) for s in tokens] + [("C", s) for s in texts] + [("F", s) for s in ftexts]
    xs = []
    for name in trs:
        base = _pattern_texts(rng, name, lines, tokens, texts if name != "fragmentMarker" else ftexts)
        pick = list(base[: 40]) + [base[rng.randrange(len(base))] for _ in range(nX)]
        for s in dict.fromkeys(pick):
            for mode in ("m", "s") if name not in ("number",) else ("m", "f", "s"):
                xs.append((name, mode, s))
    _three_way(ctx, out, req, xs)


def _three_way(ctx, out: Outcome, req, xs):
    """req: [(op, text)] with op in L/N/C/F; xs: [(pattern name, mode, text)]"""
    from qcelemental.util import filter_comments

    n_before = len(out.mismatches)
    inp = [f"{op}|{hx(s)}" for op, s in req] + [f"X|{n}|{m}|{hx(s)}" for n, m, s in xs]
    res = ctx.run_model(DRIVER_C, inp)
    import regex_gen

    def three(kind, name, s, cp, ml):
        """cp: CPython's rendering; ml: `name=hand#engine`"""
        out.evaluations += 1
        out.count(f"RX:{name}:" + ("none" if cp in ("none", "0") else "match"))
        head, _, rest = ml.partition("=")
        hand, sep, eng = rest.partition("#")
        case = {"stream": "regex", "op": kind, "name": name, "text": s}
        if head != name or not sep:
            out.mismatches.append(Finding("mismatch:regex_driver", case, observed=cp, expected=ml[:200], detail="driver line not understood"))
            return
        if eng != cp:
            out.mismatches.append(Finding("mismatch:regex_engine", case, observed=cp, expected=eng[:300],
                                          detail=f"{name}: CPython's re (as from_string.py / filter_comments call it) vs the generic engine on the AST regenerated from the source"))
        if hand != cp:
            out.mismatches.append(Finding("mismatch:regex_hand", case, observed=cp, expected=hand[:300],
                                          detail=f"{name}: CPython's re vs M1's hand-written recogniser"))
        if hand != eng:
            out.mismatches.append(Finding("mismatch:hand_vs_engine", case, observed=eng[:300], expected=hand[:300],
                                          detail=f"{name}: M1's hand recogniser vs the engine on the regenerated AST (the …_eq_regex theorem no longer describes the source)"))
        if hand == eng == cp and cp not in ("none", "0"):
            out.nontrivial(("RX", name, s))

    for (op, s), ml in zip(req, res):
        if op == "L":
            cp = cpython_line(s)
            parts = ml.split(";")
            if len(parts) != len(cp):
                out.mismatches.append(Finding("mismatch:regex_driver", {"stream": "regex", "op": "L", "text": s}, observed=str(cp)[:200], expected=ml[:200], detail="driver line not understood"))
                continue
            for (name, v), p in zip(cp.items(), parts):
                three("L", name, s, v, p)
        elif op == "N":
            three("N", "number", s, "1" if compiled("number").fullmatch(s) else "0", ml)
        elif op == "C":
            three("C", "comment", s, hx(filter_comments(s)), ml)
            if filter_comments(s) != re.sub(compiled("comment"), "\\1", s):
                out.mismatches.append(Finding("mismatch:regex_engine", {"stream": "regex", "op": "C", "text": s}, detail="filter_comments is not re.sub(<translated pattern>, r'\\1', s)"))
        elif op == "F":
            three("F", "frags", s, cpython_frags(s), ml)
    for (name, mode, s), ml in zip(xs, res[len(req):]):  # X lines
        exp = regex_gen.cpython_eval(compiled(name), mode, s)
        out.evaluations += 1
        out.count(f"RX:engine:{name}")
        if ml != exp:
            out.mismatches.append(Finding("mismatch:regex_engine", {"stream": "regex", "op": "X", "name": name, "mode": mode, "text": s}, observed=exp[:300], expected=ml[:300],
                                          detail=f"CPython re.{ {'m': 'match', 'f': 'fullmatch', 's': 'search'}[mode] } on {name} vs the Lean engine on the generated AST"))
    for f in out.mismatches[n_before:]:
        out.count("RX:DISAGREE:" + f.kind + ":" + str((f.case or {}).get("name", "")))


def regex_replay(ctx, out: Outcome, case):
    """replay of one recorded disagreement of the regex stream"""
    if not ctx.model_available:
        return
    translated()
    if case.get("op") == "X":
        _three_way(ctx, out, [], [(case["name"], case["mode"], case["text"])])
    else:
        _three_way(ctx, out, [(case["op"], case["text"])], [])
