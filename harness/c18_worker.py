"""C18 call-sequence worker: executes ONE sequence of public-API calls in a fresh interpreter and reports what happened.

The worker judges nothing.  It reads a job {"root": <dir holding the qcelemental package>, "steps": [...]} from stdin, performs the steps in
order inside this single process (so whatever state the library keeps — caches, memo tables, module globals, objects handed out
earlier — is carried from step to step), and writes one record per step to stdout:
    {"st": "ok" | "err" | "skip", "res": ..., "before": ..., "after": ...}
`before` / `after` are snapshots of the argument objects taken by this script immediately before / after the call (floats as hex).
harness/c18.py generates the steps, computes the expected values independently, and evaluates the records.
"""
import json
import sys
import warnings


def hx(x):
    return float(x).hex()


def snap_pts(obj):
    """argument holding coordinates -> nested lists of hex floats, without touching the object"""
    import numpy as np

    a = np.array(obj, dtype=float)  # a copy
    return [hx(v) for v in a.ravel()], list(a.shape)


def snap_syms(obj):
    return [str(x) for x in list(obj)]


def build_geom(geom, form):
    import numpy as np

    pts = [[float.fromhex(c) for c in p] for p in geom]
    if form == "list":
        return [list(p) for p in pts]
    a = np.array(pts, dtype=float).reshape(-1, 3)
    if form == "flat":
        return a.ravel().copy()
    if form == "F":
        return np.asfortranarray(a)
    return a


def build_syms(symbols, form):
    import numpy as np

    if form == "tuple":
        return tuple(symbols)
    if form == "array":
        return np.array(list(symbols), dtype=object)
    return list(symbols)


def set_geom(obj, geom):
    """overwrite the coordinates held by `obj` in place (same object, new values)"""
    import numpy as np

    pts = [[float.fromhex(c) for c in p] for p in geom]
    if isinstance(obj, np.ndarray):
        if not obj.flags.writeable or obj.size != 3 * len(pts):
            return False
        obj[...] = np.array(pts, dtype=float).reshape(obj.shape)
        return True
    if isinstance(obj, list) and len(obj) == len(pts):
        for row, p in zip(obj, pts):
            row[:] = p
        return True
    return False


def set_syms(obj, symbols):
    import numpy as np

    if isinstance(obj, list) and len(obj) == len(symbols):
        obj[:] = list(symbols)
        return True
    if isinstance(obj, np.ndarray) and obj.dtype == object and len(obj) == len(symbols):
        for i, s in enumerate(symbols):
            obj[i] = s
        return True
    return False


def err_name(e):
    return type(e).__name__


def main():
    job = json.load(sys.stdin)
    sys.path.insert(0, job["root"])
    warnings.simplefilter("ignore")
    import numpy as np
    import qcelemental as qcel
    import qcelemental.util as u
    from qcelemental.molutil import guess_connectivity

    kept = {}  # step id -> objects handed to / received from the library at that step
    watch = {}  # step id -> (mutable object the library returned at that step, its value at return time)
    recs = []

    def snap_result(r):
        if isinstance(r, np.ndarray):
            return ["nd", list(r.shape)] + [hx(v) for v in np.array(r, dtype=float).ravel()]
        return ["l"] + [repr(tuple(x)) if isinstance(x, (tuple, list)) else repr(x) for x in r]

    def value(x):
        if isinstance(x, (float, int, np.floating, np.integer)) and not isinstance(x, bool):
            return hx(x)
        return repr(x)[:80]

    for st in job["steps"]:
        op = st["op"]
        rec = {"id": st.get("id"), "op": op}
        try:
            if op in ("cr_get", "vdw_get"):
                tab = qcel.covalentradii if op == "cr_get" else qcel.vdwradii
                try:
                    rec["res"] = value(tab.get(st["atom"], **st.get("kw", {})))
                    rec["st"] = "ok"
                except Exception as e:  # noqa  (an ordinary, documented way such a call ends)
                    rec["st"], rec["res"] = "err", err_name(e)
            elif op == "pt":
                try:
                    rec["res"] = value(getattr(qcel.periodictable, st["fn"])(st["atom"]))
                    rec["st"] = "ok"
                except Exception as e:  # noqa
                    rec["st"], rec["res"] = "err", err_name(e)
            elif op == "conn":
                old = kept.get(st.get("reuse"))
                if old is not None and "syms" in old:
                    syms, geom = old["syms"], old["geom"]
                    rec["reused"] = True
                else:
                    syms, geom = build_syms(st["symbols"], st.get("sym_as", "list")), build_geom(st["geom"], st.get("geom_as", "2d"))
                kw = {}
                if not st.get("default_thr"):
                    kw["threshold"] = st["thr"]
                if st.get("dc") is not None:
                    kw["default_connectivity"] = st["dc"]
                rec["before"] = {"syms": snap_syms(syms), "geom": snap_pts(geom)[0]}
                try:
                    res = guess_connectivity(syms, geom, **kw)
                    rec["st"] = "ok"
                    rec["res"] = [[int(x[0]), int(x[1])] + [hx(v) for v in x[2:]] for x in res]
                    rec["res_is_list"] = isinstance(res, list)
                except Exception as e:  # noqa
                    res = None
                    rec["st"], rec["res"] = "err", err_name(e)
                rec["after"] = {"syms": snap_syms(syms), "geom": snap_pts(geom)[0]}
                kept[st["id"]] = {"syms": syms, "geom": geom, "result": res}
            elif op == "mut_result":
                old = kept.get(st["of"])
                r = old.get("result") if old else None
                if isinstance(r, list):
                    how = st["how"]
                    if how == "clear":
                        r.clear()
                    elif how == "append":
                        r.append((0, 0))
                    elif how == "reverse":
                        r.reverse()
                    elif how == "pop" and r:
                        r.pop()
                    elif how == "dup" and r:
                        r.append(r[0])
                    rec["st"] = "ok"
                elif isinstance(r, np.ndarray) and r.flags.writeable:
                    r[...] = 0.0 if st["how"] in ("clear", "pop") else r[::-1].copy() if r.ndim == 1 else -r
                    rec["st"] = "ok"
                else:
                    rec["st"] = "skip"
            elif op == "mut_geom":
                old = kept.get(st["of"])
                rec["st"] = "ok" if old and set_geom(old["geom"] if "geom" in old else old["args"][st.get("arg", 0)], st["geom"]) else "skip"
            elif op == "mut_syms":
                old = kept.get(st["of"])
                rec["st"] = "ok" if old and "syms" in old and set_syms(old["syms"], st["symbols"]) else "skip"
            elif op == "meas":
                fn = st["fn"]
                old = kept.get(st.get("reuse"))
                if old is not None and "args" in old:
                    args = old["args"]
                    rec["reused"] = True
                else:
                    args = []
                    for pts, form in zip(st["args"], st["as"]):
                        a = build_geom(pts, "list" if form in ("list", "row_list") else "2d")
                        if form == "row":
                            a = a[0].copy()
                        elif form == "row_list":
                            a = a[0]
                        args.append(a)
                kw = {} if fn in ("distance", "dm") else {"degrees": st["degrees"]}
                f = {"distance": u.compute_distance, "angle": u.compute_angle, "dihedral": u.compute_dihedral, "dm": u.distance_matrix,
                     "measure": u.measure_coordinates}[fn]
                call_args = list(args) + ([st["spec"]] if fn == "measure" else [])
                rec["before"] = [snap_pts(a)[0] for a in args]
                try:
                    res = f(*call_args, **kw)
                    rec["st"] = "ok"
                    if fn == "measure":
                        rec["res_is_seq"] = isinstance(res, (list, tuple, np.ndarray))
                    a = np.array(res, dtype=float)
                    rec["res"] = [hx(v) for v in a.ravel()]
                    rec["shape"] = list(a.shape)
                except Exception as e:  # noqa
                    res = None
                    rec["st"], rec["res"] = "err", err_name(e)
                rec["after"] = [snap_pts(a)[0] for a in args]
                kept[st["id"]] = {"args": args, "result": res}
            elif op == "molm":
                from qcelemental.models import Molecule

                old = kept.get(st.get("reuse"))
                if old is not None and "mol" in old:
                    mol = old["mol"]
                    rec["reused"] = True
                else:
                    try:
                        g = np.array([[float.fromhex(c) for c in p] for p in st["geom"]], dtype=float)
                        mol = Molecule(symbols=st["symbols"], geometry=g.ravel(), nonphysical=True)
                    except Exception as e:  # noqa  (the molecule itself is not C18's concern)
                        mol = None
                        rec["st"], rec["res"] = "skip", "create:" + err_name(e)
                if mol is not None:
                    kw = {} if st.get("degrees") is None else {"degrees": st["degrees"]}
                    rec["before"] = [snap_pts(mol.geometry)[0]]
                    try:
                        res = mol.measure(st["spec"], **kw)
                        rec["st"] = "ok"
                        rec["res_is_seq"] = isinstance(res, (list, tuple, np.ndarray))
                        a = np.array(res, dtype=float)
                        rec["res"] = [hx(v) for v in a.ravel()]
                        rec["shape"] = list(a.shape)
                    except Exception as e:  # noqa
                        rec["st"], rec["res"] = "err", err_name(e)
                    rec["after"] = [snap_pts(mol.geometry)[0]]
                    kept[st["id"]] = {"mol": mol}
            else:
                rec["st"], rec["res"] = "skip", "unknown op"
        except Exception as e:  # noqa  — a fault of this script or of a skipped reference, never attributed to the library
            rec["st"], rec["res"] = "skip", "worker:" + err_name(e) + ":" + str(e)[:120]
        # values the library handed out earlier belong to the caller: only the caller's own edits (mut_result on that id) may change them
        try:
            if op == "mut_result":
                watch.pop(st["of"], None)
            for k in list(watch):
                if snap_result(watch[k][0]) != watch[k][1]:
                    rec.setdefault("changed_earlier", []).append(k)
                    del watch[k]
            r = kept.get(st.get("id"), {}).get("result") if op in ("conn", "meas") else None
            if isinstance(r, (list, np.ndarray)):
                watch[st["id"]] = (r, snap_result(r))
        except Exception as e:  # noqa
            rec["watch_error"] = err_name(e) + ":" + str(e)[:100]
        recs.append(rec)
    json.dump({"file": qcel.__file__, "steps": recs}, sys.stdout)


if __name__ == "__main__":
    main()
