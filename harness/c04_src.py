"""C04 — source translator for three stage functions of qcelemental/molparse/from_arrays.py.

Reads by python `ast` (never by importing) the bodies of
    validate_and_fill_geometry, validate_and_fill_nuclei, validate_and_fill_fragments
(located by name) and emits each as a term of the small syntax of lean/QcelVerif/Model/FromArraysAst.lean into
lean/QcelVerif/Gen/FromArraysSrc.lean.  Props/C04Src.lean proves that the evaluator at these terms equals the hand models
validateGeometry / validateNuclei / validateFragments of Model/FromArrays.lean for ALL inputs.

Only the syntax tree is read (whitespace, comments, docstrings, error-message texts are immaterial).  What IS translated into the
term: statement order, `if`/`else` nesting, every condition, the comparison operators, the exponent of `tooclose ** 2`, the slice offset
`x + 1`, which quantities the length / shape chains compare, the `if nat:` guard, what `frs`/`frc`/`frm`/`nfr` are assigned.  What is
only COMPARED with a fixed expected shape (a deviation raises): numpy call spellings (`np.array(...).reshape((-1, 3))`, the einsum
string, `np.asarray([None] * nat)`, `np.split(np.zeros((nat, 3)), fragment_separators, axis=0)`), the keyword mapping of the
`reconcile_nucleus(...)` call, the returned dictionaries, and that the raised class is `ValidationError`.
A shape outside the syntax raises C04SrcError (reported by run.py as a broken obligation) and leaves an inert Gen/FromArraysSrc.lean
with `ok := false`, which also breaks Props/C04Src.lean.
"""
from __future__ import annotations

import ast as A

FILE = "qcelemental/molparse/from_arrays.py"


class C04SrcError(ValueError):
    pass


def _fail(where, node=None, why=""):
    src = ""
    if node is not None:
        try:
            src = A.unparse(node)
        except Exception:  # noqa
            src = A.dump(node)
        src = f" at line {getattr(node, 'lineno', '?')}: `{src[:160]}`"
    raise C04SrcError(f"{where}: shape outside the translated syntax{src}" + (f" ({why})" if why else ""))


def _body(fn):
    b = list(fn.body)
    if b and isinstance(b[0], A.Expr) and isinstance(b[0].value, A.Constant) and isinstance(b[0].value.value, str):
        b = b[1:]
    return b


def _name(n, name=None):
    return isinstance(n, A.Name) and (name is None or n.id == name)


def _nat_lit(n):
    if isinstance(n, A.Constant) and type(n.value) is int and n.value >= 0:
        return n.value
    return None


def _u(n):
    return A.unparse(n)


def _same(n, text):
    """structural comparison of a node with the parse of `text`"""
    return A.dump(n) == A.dump(A.parse(text, mode="eval").body)


def _is_raise_validation(st):
    return (isinstance(st, A.Raise) and isinstance(st.exc, A.Call) and _name(st.exc.func, "ValidationError") and st.cause is None)


def _try_reraise(st, where, exc_name):
    """`try: <one stmt> except <exc_name>: raise ValidationError(...)` -> the statement"""
    if not (isinstance(st, A.Try) and len(st.body) == 1 and len(st.handlers) == 1 and not st.orelse and not st.finalbody):
        _fail(where, st, "expected try/except with one statement")
    h = st.handlers[0]
    if not (_name(h.type, exc_name) and len(h.body) == 1 and _is_raise_validation(h.body[0])):
        _fail(where, st, f"expected `except {exc_name}: raise ValidationError(...)`")
    return st.body[0]


CMP = {A.Lt: ".lt", A.LtE: ".le", A.Gt: ".gt", A.GtE: ".ge"}


# ------------------------------------------------------------------------------------------------ geometry

def _dists_cmp(n, where):
    """`dists <op> metric` -> the operator"""
    if not (isinstance(n, A.Compare) and len(n.ops) == 1 and _name(n.left, "dists") and _name(n.comparators[0], "metric")
            and type(n.ops[0]) in CMP):
        _fail(where, n, "expected `dists <op> metric`")
    return CMP[type(n.ops[0])]


def tr_geometry(fn):
    w = "validate_and_fill_geometry"
    b = _body(fn)
    if len(b) != 6:
        _fail(w, fn, f"expected 6 statements, found {len(b)}")
    # 1. reshape inside try/except ValueError
    st = b[0]
    if not (isinstance(st, A.Try) and len(st.body) == 1 and len(st.handlers) == 1 and not st.orelse and not st.finalbody):
        _fail(w, st, "expected try/except around the reshape")
    a0 = st.body[0]
    if not (isinstance(a0, A.Assign) and len(a0.targets) == 1 and _name(a0.targets[0], "npgeom")
            and _same(a0.value, "np.array(geom, copy=copy, dtype=float).reshape((-1, 3))")):
        _fail(w, a0, "expected `npgeom = np.array(geom, copy=copy, dtype=float).reshape((-1, 3))`")
    h = st.handlers[0]
    if not (_name(h.type, "ValueError") and len(h.body) == 1 and isinstance(h.body[0], A.Raise)):
        _fail(w, st, "expected `except ValueError: raise ...`")
    reshape_val = _is_raise_validation(h.body[0])
    # 2. metric = tooclose ** k
    st = b[1]
    if not (isinstance(st, A.Assign) and len(st.targets) == 1 and _name(st.targets[0], "metric") and isinstance(st.value, A.BinOp)
            and isinstance(st.value.op, A.Pow) and _name(st.value.left, "tooclose") and _nat_lit(st.value.right) is not None):
        _fail(w, st, "expected `metric = tooclose ** <int>`")
    metric_pow = _nat_lit(st.value.right)
    # 3. tooclose_inds = []
    st = b[2]
    if not (isinstance(st, A.Assign) and len(st.targets) == 1 and _name(st.targets[0], "tooclose_inds") and _same(st.value, "[]")):
        _fail(w, st, "expected `tooclose_inds = []`")
    # 4. the loop
    st = b[3]
    if not (isinstance(st, A.For) and _name(st.target, "x") and _same(st.iter, "range(npgeom.shape[0])") and not st.orelse and len(st.body) == 3):
        _fail(w, st, "expected `for x in range(npgeom.shape[0]):` with 3 statements")
    d, e, c = st.body
    ok = (isinstance(d, A.Assign) and len(d.targets) == 1 and _name(d.targets[0], "diffs") and isinstance(d.value, A.BinOp)
          and isinstance(d.value.op, A.Sub) and _same(d.value.left, "npgeom[x]"))
    off = None
    if ok:
        r = d.value.right
        if (isinstance(r, A.Subscript) and _name(r.value, "npgeom") and isinstance(r.slice, A.Slice) and r.slice.upper is None
                and r.slice.step is None and r.slice.lower is not None):
            lo = r.slice.lower
            if _name(lo, "x"):
                off = 0
            elif isinstance(lo, A.BinOp) and isinstance(lo.op, A.Add) and _name(lo.left, "x") and _nat_lit(lo.right) is not None:
                off = _nat_lit(lo.right)
    if off is None:
        _fail(w, d, "expected `diffs = npgeom[x] - npgeom[x + <k> :]`")
    if not (isinstance(e, A.Assign) and len(e.targets) == 1 and _name(e.targets[0], "dists")
            and _same(e.value, "np.einsum('ij,ij->i', diffs, diffs)")):
        _fail(w, e, "expected `dists = np.einsum('ij,ij->i', diffs, diffs)`")
    if not (isinstance(c, A.If) and not c.orelse and isinstance(c.test, A.Call) and _same(c.test.func, "np.any") and len(c.test.args) == 1
            and not c.test.keywords and len(c.body) == 2):
        _fail(w, c, "expected `if np.any(dists <op> metric):` with 2 statements")
    cmp_any = _dists_cmp(c.test.args[0], w)
    i1, i2 = c.body
    if not (isinstance(i1, A.Assign) and len(i1.targets) == 1 and _name(i1.targets[0], "indices") and isinstance(i1.value, A.Subscript)
            and _same(i1.value.slice, "0") and isinstance(i1.value.value, A.Call) and _same(i1.value.value.func, "np.where")
            and len(i1.value.value.args) == 1 and not i1.value.value.keywords):
        _fail(w, i1, "expected `indices = np.where(dists <op> metric)[0]`")
    cmp_where = _dists_cmp(i1.value.value.args[0], w)
    if not (isinstance(i2, A.Expr) and _same(i2.value, "tooclose_inds.extend([(x, y, dist) for y, dist in zip(indices + x + 1, dists[indices] ** 0.5)])")):
        _fail(w, i2, "expected `tooclose_inds.extend([...])`")
    # 5. if tooclose_inds: raise
    st = b[4]
    if not (isinstance(st, A.If) and _name(st.test, "tooclose_inds") and not st.orelse and len(st.body) == 1 and _is_raise_validation(st.body[0])):
        _fail(w, st, "expected `if tooclose_inds: raise ValidationError(...)`")
    # 6. return
    st = b[5]
    if not (isinstance(st, A.Return) and _same(st.value, "{'geom': npgeom.reshape(-1)}")):
        _fail(w, st, "expected `return {'geom': npgeom.reshape((-1))}`")
    return ("{ reshapeErrValidation := %s, metricPow := %d, innerOffset := %d, cmpAny := %s, cmpWhere := %s, raiseIfAny := true }"
            % ("true" if reshape_val else "false", metric_pow, off, cmp_any, cmp_where))


# ------------------------------------------------------------------------------------------------ nuclei

FLDS = ["elea", "elez", "elem", "mass", "real", "elbl"]


def _fill(st, w):
    """`if f is None: f = np.asarray([None] * nat) else: f = np.asarray(f) [; if -1 in f: f = np.array([...])]` -> (f, minus_one)"""
    if not (isinstance(st, A.If) and isinstance(st.test, A.Compare) and len(st.test.ops) == 1 and isinstance(st.test.ops[0], A.Is)
            and _name(st.test.left) and st.test.left.id in FLDS and _same(st.test.comparators[0], "None")):
        return None
    f = st.test.left.id
    if not (len(st.body) == 1 and isinstance(st.body[0], A.Assign) and _name(st.body[0].targets[0], f) and len(st.body[0].targets) == 1
            and _same(st.body[0].value, "np.asarray([None] * nat)")):
        _fail(w, st, f"expected `{f} = np.asarray([None] * nat)`")
    el = st.orelse
    if not (len(el) in (1, 2) and isinstance(el[0], A.Assign) and len(el[0].targets) == 1 and _name(el[0].targets[0], f)
            and _same(el[0].value, f"np.asarray({f})")):
        _fail(w, st, f"expected `else: {f} = np.asarray({f})`")
    minus = False
    if len(el) == 2:
        m = el[1]
        if f not in ("elea", "elez"):
            _fail(w, m, "the -1 rebuild is only modelled for the integer arrays elea / elez")
        if not (isinstance(m, A.If) and not m.orelse and _same(m.test, f"-1 in {f}") and len(m.body) == 1 and isinstance(m.body[0], A.Assign)
                and len(m.body[0].targets) == 1 and _name(m.body[0].targets[0], f)
                and _same(m.body[0].value, f"np.array([None if at == -1 else at for at in {f}])")):
            _fail(w, m, f"expected `if -1 in {f}: {f} = np.array([(None if at == -1 else at) for at in {f}])`")
        minus = True
    return f, minus


def _shape_check(st, w):
    """`if not (t0 == t1 == ...): raise ValidationError` -> list of terms"""
    if not (isinstance(st, A.If) and not st.orelse and isinstance(st.test, A.UnaryOp) and isinstance(st.test.op, A.Not)
            and isinstance(st.test.operand, A.Compare) and all(isinstance(o, A.Eq) for o in st.test.operand.ops)
            and len(st.body) == 1 and _is_raise_validation(st.body[0])):
        return None
    terms = []
    for t in [st.test.operand.left] + list(st.test.operand.comparators):
        if _same(t, "(nat,)"):
            terms.append(".nat")
        elif isinstance(t, A.Attribute) and t.attr == "shape" and _name(t.value) and t.value.id in FLDS:
            terms.append(f"(.arr .{t.value.id})")
        else:
            _fail(w, t, "expected `(nat,)` or `<array>.shape` in the shape chain")
    return terms


RECON = ("zip(*[reconcile_nucleus(A=elea[at], Z=elez[at], E=elem[at], mass=mass[at], real=real[at], label=elbl[at], speclabel=speclabel, "
         "nonphysical=nonphysical, mtol=mtol, verbose=verbose) for at in range(nat)])")


def _reconcile(st):
    return (isinstance(st, A.Assign) and len(st.targets) == 1 and _u(st.targets[0]) in ("(A, Z, E, mass, real, label)", "A, Z, E, mass, real, label") and _same(st.value, RECON))


def _empties(st):
    return (isinstance(st, A.Assign) and [_u(t) for t in st.targets] == ["A", "Z", "E", "mass", "real", "label"] and _same(st.value, "[]"))


NUC_RET = ("{'elea': np.array(A, dtype=int), 'elez': np.array(Z, dtype=int), 'elem': np.array(E), 'mass': np.array(mass, dtype=float), "
           "'real': np.array(real, dtype=bool), 'elbl': np.array(label)}")


def _is_nat_zero_test(t):
    return _same(t, "nat == 0") or _same(t, "not nat")


def tr_nuclei(fn):
    w = "validate_and_fill_nuclei"
    b = _body(fn)
    fills = []
    k = 0
    while k < len(b):
        r = _fill(b[k], w)
        if r is None:
            break
        fills.append(r)
        k += 1
    if sorted(f for f, _ in fills) != sorted(FLDS):
        _fail(w, fn, f"expected one None-fill per array before anything else, found {[f for f, _ in fills]}")
    body = []  # (guarded, term)
    have_empty_default = False
    guarded = False  # after an early return for nat == 0

    def stmts(lst, g):
        nonlocal have_empty_default
        for st in lst:
            t = _shape_check(st, w)
            if t is not None:
                body.append((g, "(.checkShape [" + ", ".join(t) + "])"))
            elif _reconcile(st):
                body.append((g, ".reconcile"))
            else:
                _fail(w, st, "expected the shape check or the reconcile_nucleus loop")

    rest = b[k:]
    if not rest or not (isinstance(rest[-1], A.Return) and _same(rest[-1].value, NUC_RET)):
        _fail(w, rest[-1] if rest else fn, "expected the final `return {elea, elez, elem, mass, real, elbl}`")
    for st in rest[:-1]:
        if isinstance(st, A.If) and _name(st.test, "nat"):
            # if nat: <stmts> else: A = Z = ... = []
            if not (len(st.orelse) == 1 and _empties(st.orelse[0])):
                _fail(w, st, "expected `else: A = Z = E = mass = real = label = []`")
            have_empty_default = True
            stmts(st.body, True)
        elif isinstance(st, A.If) and _is_nat_zero_test(st.test) and not st.orelse and len(st.body) == 1 and isinstance(st.body[0], A.Return):
            # early return of the empty record for nat == 0
            if not _same(st.body[0].value, NUC_RET.replace("(A,", "([],").replace("(Z,", "([],").replace("(E)", "([])").replace("(mass,", "([],").replace("(real,", "([],").replace("(label)", "([])")):
                _fail(w, st, "expected an early return of the empty arrays")
            have_empty_default = True
            guarded = True
        else:
            stmts([st], guarded)
    if sum(1 for _, t in body if t == ".reconcile") != 1:
        _fail(w, fn, "expected exactly one reconcile_nucleus loop")
    if not all(g for g, t in body if t == ".reconcile") or not have_empty_default:
        _fail(w, fn, "the reconcile_nucleus loop must be guarded by `if nat:` with empty lists otherwise")
    return ("{ fills := [" + ", ".join(f"(.{f}, {'true' if m else 'false'})" for f, m in fills) + "],\n    body := ["
            + ", ".join(f"({'true' if g else 'false'}, {t})" for g, t in body) + "] }")


# ------------------------------------------------------------------------------------------------ fragments

ARGS = {"fragment_separators": ".seps", "fragment_charges": ".fc", "fragment_multiplicities": ".fm"}


class FragTr:
    def __init__(self):
        self.w = "validate_and_fill_fragments"

    def fi(self, n):
        if _name(n, "nat"):
            return ".nat"
        if _name(n, "nfr"):
            return ".nfr"
        v = _nat_lit(n)
        if v is not None:
            return f"(.lit {v})"
        if isinstance(n, A.Call) and _name(n.func, "len") and len(n.args) == 1 and not n.keywords and _name(n.args[0]):
            m = {"frs": ".lenFrs", "frc": ".lenFrc", "frm": ".lenFrm", "split_geom": ".lenSplit"}.get(n.args[0].id)
            if m:
                return m
        if _same(n, "sum((len(f) for f in split_geom))"):
            return ".sumSplit"
        if isinstance(n, A.BinOp) and isinstance(n.op, A.Add):
            return f"(.add {self.fi(n.left)} {self.fi(n.right)})"
        _fail(self.w, n, "integer expression")

    def fb(self, n):
        if isinstance(n, A.Compare) and len(n.ops) == 1 and isinstance(n.ops[0], A.Is) and _name(n.left) and n.left.id in ARGS \
                and _same(n.comparators[0], "None"):
            return f"(.isNone {ARGS[n.left.id]})"
        if isinstance(n, A.BoolOp) and isinstance(n.op, A.And):
            r = self.fb(n.values[0])
            for v in n.values[1:]:
                r = f"(.and {r} {self.fb(v)})"
            return r
        if isinstance(n, A.UnaryOp) and isinstance(n.op, A.Not):
            return f"(.not {self.fb(n.operand)})"
        if isinstance(n, A.Call) and _name(n.func, "any") and len(n.args) == 1 and isinstance(n.args[0], A.GeneratorExp):
            g = n.args[0]
            if (len(g.generators) == 1 and _name(g.generators[0].target, "f") and _name(g.generators[0].iter, "split_geom") and not g.generators[0].ifs
                    and isinstance(g.elt, A.Compare) and len(g.elt.ops) == 1 and isinstance(g.elt.ops[0], A.Eq) and _same(g.elt.left, "len(f)")
                    and _nat_lit(g.elt.comparators[0]) is not None):
                return f"(.anySplitLenEq {_nat_lit(g.elt.comparators[0])})"
        if isinstance(n, A.Compare) and len(n.ops) == 1 and isinstance(n.ops[0], A.NotEq):
            return f"(.ne {self.fi(n.left)} {self.fi(n.comparators[0])})"
        if isinstance(n, A.Compare) and all(isinstance(o, A.Eq) for o in n.ops):
            return "(.eqChain [" + ", ".join(self.fi(t) for t in [n.left] + list(n.comparators)) + "])"
        _fail(self.w, n, "condition")

    def fl(self, n):
        if _same(n, "[None]"):
            return ".list1None"
        if isinstance(n, A.BinOp) and isinstance(n.op, A.Mult) and _same(n.left, "[None]"):
            return f"(.noneTimes {self.fi(n.right)})"
        _fail(self.w, n, "list expression")

    def cast(self, st, var):
        """try: var = [(f if f is None else float(f)) for f in <arg>] except TypeError: raise ValidationError"""
        inner = _try_reraise(st, self.w, "TypeError")
        if not (isinstance(inner, A.Assign) and len(inner.targets) == 1 and _name(inner.targets[0], var) and isinstance(inner.value, A.ListComp)):
            _fail(self.w, st, f"expected `{var} = [...]` in the try")
        lc = inner.value
        if not (len(lc.generators) == 1 and _name(lc.generators[0].target, "f") and not lc.generators[0].ifs and _name(lc.generators[0].iter)
                and lc.generators[0].iter.id in ARGS and _same(lc.elt, "f if f is None else float(f)")):
            _fail(self.w, inner, "expected `[(f if f is None else float(f)) for f in <argument>]`")
        return f"(.castArg {ARGS[lc.generators[0].iter.id]})"

    def block(self, lst):
        out = [self.stmt(s) for s in lst]
        if not out:
            return ".skip"
        r = out[-1]
        for s in reversed(out[:-1]):
            r = f"(.seq {s} {r})"
        return r

    def stmt(self, st):
        w = self.w
        if _is_raise_validation(st):
            return ".raise"
        if isinstance(st, A.If):
            return f"(.ite {self.fb(st.test)} {self.block(st.body)} {self.block(st.orelse)})"
        if isinstance(st, A.Try):
            inner = st.body[0] if st.body else None
            if isinstance(inner, A.Assign) and len(inner.targets) == 1 and _name(inner.targets[0], "split_geom"):
                _try_reraise(st, w, "TypeError")
                if not _same(inner.value, "np.split(trial_geom, fragment_separators, axis=0)"):
                    _fail(w, inner, "expected `np.split(trial_geom, fragment_separators, axis=0)`")
                if not self.have_trial:
                    _fail(w, inner, "trial_geom is not `np.zeros((nat, 3))` at this point")
                return ".trialSplit"
            if isinstance(inner, A.Assign) and len(inner.targets) == 1 and _name(inner.targets[0], "frc"):
                return f"(.setFrc {self.cast(st, 'frc')})"
            if isinstance(inner, A.Assign) and len(inner.targets) == 1 and _name(inner.targets[0], "frm"):
                return f"(.setFrm {self.cast(st, 'frm')})"
            _fail(w, st, "try block")
        if isinstance(st, A.Assign) and len(st.targets) == 1 and _name(st.targets[0]):
            v = st.targets[0].id
            if v == "trial_geom":
                if not _same(st.value, "np.zeros((nat, 3))"):
                    _fail(w, st, "expected `trial_geom = np.zeros((nat, 3))`")
                self.have_trial = True
                return ".skip"
            if v == "frs":
                if _same(st.value, "[]"):
                    return ".setFrsEmpty"
                if _name(st.value, "fragment_separators"):
                    return ".setFrsArg"
                _fail(w, st, "frs")
            if v == "frc":
                return f"(.setFrc {self.fl(st.value)})"
            if v == "frm":
                return f"(.setFrm {self.fl(st.value)})"
            if v == "nfr":
                return f"(.setNfr {self.fi(st.value)})"
        _fail(w, st, "statement")

    have_trial = False


def _definitely_assigned(node_list, have):
    """variables assigned on every path that falls through `node_list`; None when every path raises.  Reads are checked against `have`."""
    LOCALS = {"frs", "frc", "frm", "nfr", "split_geom"}
    have = set(have)
    for st in node_list:
        if isinstance(st, A.Raise):
            return None
        if isinstance(st, A.If):
            for n in A.walk(st.test):
                if isinstance(n, A.Name) and n.id in LOCALS and n.id not in have:
                    raise C04SrcError(f"validate_and_fill_fragments: `{n.id}` may be read before assignment at line {st.lineno}")
            a = _definitely_assigned(st.body, have)
            b = _definitely_assigned(st.orelse, have)
            if a is None and b is None:
                return None
            have = b if a is None else a if b is None else (a & b)
            continue
        if isinstance(st, A.Try):
            r = _definitely_assigned(st.body, have)
            have = have if r is None else r
            continue
        if isinstance(st, A.Assign):
            for n in A.walk(st.value):
                if isinstance(n, A.Name) and n.id in LOCALS and n.id not in have:
                    raise C04SrcError(f"validate_and_fill_fragments: `{n.id}` may be read before assignment at line {st.lineno}")
            for t in st.targets:
                if _name(t):
                    have.add(t.id)
            continue
        if isinstance(st, A.Return):
            for n in A.walk(st.value):
                if isinstance(n, A.Name) and n.id in LOCALS and n.id not in have:
                    raise C04SrcError(f"validate_and_fill_fragments: `{n.id}` may be read before assignment at line {st.lineno}")
    return have


def tr_fragments(fn):
    w = "validate_and_fill_fragments"
    b = _body(fn)
    if not b or not (isinstance(b[-1], A.Return) and _same(
            b[-1].value, "{'fragment_separators': list(frs), 'fragment_charges': frc, 'fragment_multiplicities': frm}")):
        _fail(w, b[-1] if b else fn, "expected the final `return {fragment_separators: list(frs), fragment_charges: frc, fragment_multiplicities: frm}`")
    _definitely_assigned(b, set())
    return FragTr().block(b[:-1])


# ------------------------------------------------------------------------------------------------ driver

def translate(repo):
    import pathlib

    tree = A.parse((pathlib.Path(repo) / FILE).read_text())
    fns = {n.name: n for n in tree.body if isinstance(n, A.FunctionDef)}
    for name in ("validate_and_fill_geometry", "validate_and_fill_nuclei", "validate_and_fill_fragments"):
        if name not in fns:
            raise C04SrcError(f"{FILE}: function {name} not found")
    return {
        "geom": (fns["validate_and_fill_geometry"].lineno, tr_geometry(fns["validate_and_fill_geometry"])),
        "nuc": (fns["validate_and_fill_nuclei"].lineno, tr_nuclei(fns["validate_and_fill_nuclei"])),
        "frag": (fns["validate_and_fill_fragments"].lineno, tr_fragments(fns["validate_and_fill_fragments"])),
    }


INERT = {
    "geom": (0, "{ reshapeErrValidation := false, metricPow := 0, innerOffset := 0, cmpAny := .lt, cmpWhere := .lt, raiseIfAny := false }"),
    "nuc": (0, "{ fills := [],\n    body := [] }"),
    "frag": (0, ".skip"),
}


def render(t, ok, note=""):
    return f"""import QcelVerif.Model.FromArraysAst
/-! GENERATED by harness/c04_src.py:gen_from_arrays_src from {FILE} (read by `ast`) — do not edit{(' — TRANSLATION FAILED: ' + note.replace('-/', '- /')) if note else ''} -/
namespace QcelVerif.FromArrays.Gen
open QcelVerif.FromArrays.Src

/-- `validate_and_fill_geometry` ({FILE}:{t['geom'][0]}) -/
def geomFn : GeomFn :=
  {t['geom'][1]}

/-- `validate_and_fill_nuclei` ({FILE}:{t['nuc'][0]}) -/
def nucFn : NucFn :=
  {t['nuc'][1]}

/-- `validate_and_fill_fragments` ({FILE}:{t['frag'][0]}) -/
def fragFn : FS :=
  {t['frag'][1]}

/-- the translator recognised every region -/
def translationOk : Bool := {'true' if ok else 'false'}

def progs : Progs := {{ ok := translationOk, geom := geomFn, nuc := nucFn, frag := fragFn }}

end QcelVerif.FromArrays.Gen
"""


def gen_from_arrays_src(ctx=None) -> None:
    import common

    gen = common.LEAN / "QcelVerif" / "Gen"
    gen.mkdir(exist_ok=True)
    f = gen / "FromArraysSrc.lean"
    try:
        body = render(translate(common.REPO), True)
    except Exception as e:
        # never leave a stale term behind that could still satisfy Props/C04Src.lean
        f.write_text(render(INERT, False, f"{type(e).__name__}: {e}"))
        raise
    if not f.exists() or f.read_text() != body:
        f.write_text(body)


if __name__ == "__main__":
    import sys

    for k, (ln, term) in translate(sys.argv[1] if len(sys.argv) > 1 else "/repo").items():
        print(k, ln, term)
