"""C13 translator, second part: qcelemental/util/np_blockwise.py  ->  (appended to) lean/QcelVerif/Gen/MillSrc.lean

  * `blockwise_expand(a, blockshape, aslist=False, require_aligned_blocks=True)`: the body is read statement by statement;
    tuple / integer-array valued names (`a.shape`, `a.strides`, `blockshape`, and `//`, `*`, `+` of them) become `IVec`
    terms (an `+` of two tuples is concatenation, `//` and `*` with an `np.array(...)` operand are elementwise), the two asserts
    are recorded, the `if aslist:` branch is not part of the model (aslist=False is the only call the library makes),
    and the `shape=` / `strides=` arguments of `np.lib.stride_tricks.as_strided(a, …)` - the returned view - form the `ExpandAst`.
  * `blockwise_contract(arr)`: `gr, gc, lr, lc = arr.shape`, `np.reshape(x, (…))`, the local helper with
    `n, nrows, ncols = arr.shape` and one `return arr.reshape(…).swapaxes(1, 2).reshape(…)`; dimension expressions
    (`*`, `//`, `-1`, unpacked names, helper parameters substituted by the actual arguments) become `DimE` terms.

Anything else fails loudly (`Unsupported: np_blockwise.py:<line>: …`).
"""
from __future__ import annotations

import ast

import common

FILE = "qcelemental/util/np_blockwise.py"


class Unsupported(Exception):
    pass


def fail(node, msg):
    src = ""
    try:
        src = ast.unparse(node)[:140]
    except Exception:  # noqa
        pass
    raise Unsupported(f"Unsupported: {FILE}:{getattr(node, 'lineno', '?')}: {msg}: {src}")


def is_doc(st):
    return isinstance(st, ast.Expr) and isinstance(st.value, ast.Constant) and isinstance(st.value.value, str)


def int_const(node):
    if isinstance(node, ast.Constant) and isinstance(node.value, int) and not isinstance(node.value, bool):
        return node.value
    return None


# ---------------------------------------------------------------------------------------------------------------------
# blockwise_expand


class IV:
    def __init__(self, kind, lean):  # kind: 'tuple' | 'ndarray'
        self.kind, self.lean = kind, lean


def expand_ast(fn):
    a = fn.args
    names = [x.arg for x in a.args]
    if names != ["a", "blockshape", "aslist", "require_aligned_blocks"] or a.vararg or a.kwarg or a.kwonlyargs or a.posonlyargs or fn.decorator_list:
        fail(fn, "signature of blockwise_expand")
    dv = [d.value if isinstance(d, ast.Constant) else "?" for d in a.defaults]
    if dv != [False, True]:
        fail(fn, "defaults other than aslist=False, require_aligned_blocks=True")
    arr = names[0]
    env = {"blockshape": IV("tuple", ".block")}  # a tuple/list argument; `tuple(blockshape)` keeps it
    asserts = {"contig": False, "aligned": False}
    view = {}

    def is_arr_attr(node, attr):
        return isinstance(node, ast.Attribute) and isinstance(node.value, ast.Name) and node.value.id == arr and node.attr == attr

    def tx(node):
        if isinstance(node, ast.Name):
            if node.id not in env:
                fail(node, f"unknown name '{node.id}'")
            return env[node.id]
        if is_arr_attr(node, "shape"):
            return IV("tuple", ".shape")
        if is_arr_attr(node, "strides"):
            return IV("tuple", ".strides")
        if isinstance(node, ast.Call) and not node.keywords and len(node.args) == 1:
            f = node.func
            if isinstance(f, ast.Name) and f.id == "tuple":
                return IV("tuple", tx(node.args[0]).lean)
            if isinstance(f, ast.Attribute) and isinstance(f.value, ast.Name) and f.value.id == "np" and f.attr == "array":
                return IV("ndarray", tx(node.args[0]).lean)
        if isinstance(node, ast.BinOp):
            l, r = tx(node.left), tx(node.right)
            if isinstance(node.op, ast.Add) and l.kind == "tuple" and r.kind == "tuple":
                return IV("tuple", f"(.concat {l.lean} {r.lean})")
            if isinstance(node.op, ast.FloorDiv) and "ndarray" in (l.kind, r.kind):
                return IV("ndarray", f"(.floordiv {l.lean} {r.lean})")
            if isinstance(node.op, ast.Mult) and "ndarray" in (l.kind, r.kind):
                return IV("ndarray", f"(.mul {l.lean} {r.lean})")
            fail(node, "operator on integer vectors (tuple + tuple, or // and * with an np.array operand, are read)")
        fail(node, "integer-vector expression")

    def is_aligned_assert(st):
        # assert (np.mod(a.shape, blockshape) == 0).all(), msg
        t = st.test
        if not (isinstance(t, ast.Call) and isinstance(t.func, ast.Attribute) and t.func.attr == "all" and not t.args and not t.keywords):
            return False
        c = t.func.value
        if not (isinstance(c, ast.Compare) and len(c.ops) == 1 and isinstance(c.ops[0], ast.Eq) and int_const(c.comparators[0]) == 0):
            return False
        m = c.left
        return isinstance(m, ast.Call) and isinstance(m.func, ast.Attribute) and isinstance(m.func.value, ast.Name) and m.func.value.id == "np" \
            and m.func.attr == "mod" and len(m.args) == 2 and not m.keywords and is_arr_attr(m.args[0], "shape") \
            and isinstance(m.args[1], ast.Name) and m.args[1].id in env and env[m.args[1].id].lean == ".block"

    returned = None
    for i, st in enumerate(fn.body):
        if is_doc(st):
            continue
        if returned is not None:
            fail(st, "statement after return")
        if isinstance(st, ast.Assert):
            t = st.test
            if isinstance(t, ast.Subscript) and is_arr_attr(t.value, "flags") and isinstance(t.slice, ast.Constant) and t.slice.value == "C_CONTIGUOUS":
                asserts["contig"] = True
                continue
            fail(st, "assert")
        if isinstance(st, ast.If) and isinstance(st.test, ast.Name) and st.test.id == "require_aligned_blocks" and not st.orelse \
                and len(st.body) == 1 and isinstance(st.body[0], ast.Assert) and is_aligned_assert(st.body[0]):
            asserts["aligned"] = True
            continue
        if isinstance(st, ast.If) and isinstance(st.test, ast.Name) and st.test.id == "aslist" and not st.orelse \
                and len(st.body) == 1 and isinstance(st.body[0], ast.Return):
            continue  # aslist=True path: outside the model (never taken by align_hessian)
        if isinstance(st, ast.Assign) and len(st.targets) == 1 and isinstance(st.targets[0], ast.Name):
            v = st.value
            f = v.func if isinstance(v, ast.Call) else None
            if f is not None and ast.unparse(f) == "np.lib.stride_tricks.as_strided":
                kw = {k.arg: k.value for k in v.keywords}
                if not (len(v.args) == 1 and isinstance(v.args[0], ast.Name) and v.args[0].id == arr and sorted(kw) == ["shape", "strides"]):
                    fail(st, "as_strided call other than as_strided(a, shape=…, strides=…)")
                sh, sd = tx(kw["shape"]), tx(kw["strides"])
                if sh.kind != "tuple" or sd.kind != "tuple":
                    fail(st, "as_strided shape/strides that are not tuples")
                view[st.targets[0].id] = (sh.lean, sd.lean)
                continue
            env[st.targets[0].id] = tx(v)
            continue
        if isinstance(st, ast.Return) and isinstance(st.value, ast.Name) and st.value.id in view:
            returned = view[st.value.id]
            continue
        fail(st, "statement")
    if returned is None:
        fail(fn, "no `return <as_strided view>`")
    return ("{ assertContiguous := %s, assertAligned := %s,\n    viewShape := %s,\n    viewStrides := %s }"
            % (str(asserts["contig"]).lower(), str(asserts["aligned"]).lower(), returned[0], returned[1]))


# ---------------------------------------------------------------------------------------------------------------------
# blockwise_contract


def contract_ast(fn):
    a = fn.args
    if [x.arg for x in a.args] != ["arr"] or a.vararg or a.kwarg or a.kwonlyargs or a.posonlyargs or a.defaults or fn.decorator_list:
        fail(fn, "signature of blockwise_contract")
    dims = {}  # name -> DimE lean
    helpers = {}
    state = {"in_rank": None, "ops": {"arr": []}, "arg_rank": None, "outer": None, "inner": None}

    def dim(node, env):
        if isinstance(node, ast.Name):
            if node.id not in env:
                fail(node, f"unknown name '{node.id}'")
            return env[node.id]
        if isinstance(node, ast.UnaryOp) and isinstance(node.op, ast.USub) and int_const(node.operand) == 1:
            return ".neg1"
        if isinstance(node, ast.BinOp) and isinstance(node.op, (ast.Mult, ast.FloorDiv)):
            return f"(.{'mul' if isinstance(node.op, ast.Mult) else 'floordiv'} {dim(node.left, env)} {dim(node.right, env)})"
        fail(node, "dimension expression")

    def unpack_shape(st, of, ctor):
        t = st.targets[0]
        v = st.value
        if isinstance(t, ast.Tuple) and all(isinstance(e, ast.Name) for e in t.elts) and isinstance(v, ast.Attribute) and v.attr == "shape" \
                and isinstance(v.value, ast.Name) and v.value.id == of:
            return {e.id: f"(.{ctor} {k})" for k, e in enumerate(t.elts)}
        return None

    def chain(node, env, base):
        """x.reshape(…).swapaxes(1, 2).reshape(…) / np.reshape(x, (…)) on the array named `base` -> list of ViewOp"""
        if isinstance(node, ast.Name) and node.id == base:
            return []
        if isinstance(node, ast.Call) and not node.keywords:
            f = node.func
            if ast.unparse(f) == "np.reshape" and len(node.args) == 2 and isinstance(node.args[1], ast.Tuple):
                return chain(node.args[0], env, base) + ["(.reshape [" + ", ".join(dim(e, env) for e in node.args[1].elts) + "])"]
            if isinstance(f, ast.Attribute) and f.attr == "reshape" and node.args:
                elts = node.args[0].elts if (len(node.args) == 1 and isinstance(node.args[0], ast.Tuple)) else node.args
                return chain(f.value, env, base) + ["(.reshape [" + ", ".join(dim(e, env) for e in elts) + "])"]
            if isinstance(f, ast.Attribute) and f.attr == "swapaxes" and [int_const(x) for x in node.args] == [1, 2]:
                return chain(f.value, env, base) + [".swapaxes12"]
        fail(node, "view expression (reshape / swapaxes(1, 2) chains are read)")

    cur = "arr"  # the name that holds the array being transformed
    ops = []
    returned = False
    for st in fn.body:
        if is_doc(st):
            continue
        if returned:
            fail(st, "statement after return")
        if isinstance(st, ast.If) and not st.orelse and all(isinstance(s, ast.Expr) and isinstance(s.value, ast.Call) and ast.unparse(s.value.func) == "print" for s in st.body):
            continue  # the rank warning only prints
        if isinstance(st, ast.FunctionDef):
            helpers[st.name] = st
            continue
        if isinstance(st, ast.Assign) and len(st.targets) == 1:
            u = unpack_shape(st, "arr", "inShape")
            if u is not None:
                if ops or state["in_rank"] is not None:
                    fail(st, "shape unpacking after the array was transformed")
                dims.update(u)
                state["in_rank"] = len(u)
                continue
            t = st.targets[0]
            if isinstance(t, ast.Name):
                v = st.value
                if isinstance(v, ast.Call) and isinstance(v.func, ast.Name) and v.func.id in helpers and not v.keywords:
                    h = helpers[v.func.id]
                    ha = h.args
                    hp = [x.arg for x in ha.args]
                    if len(hp) != len(v.args) or ha.vararg or ha.kwarg or ha.kwonlyargs or ha.defaults or state["inner"] is not None:
                        fail(st, "helper call")
                    if not (isinstance(v.args[0], ast.Name) and v.args[0].id == cur):
                        fail(st, "helper called on something other than the current array")
                    henv = {p: dim(x, dims) for p, x in zip(hp[1:], v.args[1:])}
                    body = [s for s in h.body if not is_doc(s)]
                    if len(body) != 2 or not (isinstance(body[0], ast.Assign) and len(body[0].targets) == 1) or not isinstance(body[1], ast.Return):
                        fail(h, "helper body other than `<names> = arr.shape; return <view chain>`")
                    u2 = unpack_shape(body[0], hp[0], "argShape")
                    if u2 is None:
                        fail(body[0], "helper shape unpacking")
                    henv.update(u2)
                    state["arg_rank"] = len(u2)
                    state["outer"] = list(ops)
                    state["inner"] = chain(body[1].value, henv, hp[0])
                    cur = t.id
                    continue
                if state["inner"] is not None:
                    fail(st, "view operation after the helper call")
                ops = ops + chain(v, dims, cur)
                cur = t.id
                continue
        if isinstance(st, ast.Return) and isinstance(st.value, ast.Name) and st.value.id == cur and state["inner"] is not None:
            returned = True
            continue
        fail(st, "statement")
    if not returned or state["in_rank"] is None:
        fail(fn, "blockwise_contract does not end in `return <result of the helper>`")
    return ("{ inRank := %d,\n    outer := [%s],\n    argRank := %d,\n    inner := [%s] }"
            % (state["in_rank"], ", ".join(state["outer"]), state["arg_rank"], ", ".join(state["inner"])))


def translate_text(source=None):
    if source is None:
        source = (common.REPO / FILE).read_text()
    tree = ast.parse(source)
    fns = {n.name: n for n in tree.body if isinstance(n, ast.FunctionDef)}
    for w in ("blockwise_contract", "blockwise_expand"):
        if w not in fns:
            raise Unsupported(f"Unsupported: {FILE}: function {w} not found")
    e, c = fns["blockwise_expand"], fns["blockwise_contract"]
    L = []
    L.append(f"/-- np_blockwise.py:{c.lineno}-{c.end_lineno} `blockwise_contract` -/")
    L.append("def genAST_blockwise_contract : ContractAst :=\n  " + contract_ast(c))
    L.append("")
    L.append(f"/-- np_blockwise.py:{e.lineno}-{e.end_lineno} `blockwise_expand` -/")
    L.append("def genAST_blockwise_expand : ExpandAst :=\n  " + expand_ast(e))
    L.append("")
    return "\n".join(L)


if __name__ == "__main__":
    print(translate_text())
