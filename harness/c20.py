"""C20 — result models: array shapes, basis function count, retention protocols, re-validation.

generator -> implementation (real qcelemental, in-process) -> same lines to the Lean driver -> canonicalise -> diff,
plus an independent oracle that states the property on the implementation's outputs.
Every case is one protocol line; the implementation input is rebuilt from the line (so a replay is exact).
"""
from __future__ import annotations

import itertools
import json
import warnings

import numpy as np

import common
from common import Ctx, Finding, Outcome

import c20_flow
import c20_spec

PROPERTY = "C20"
LEAN_TARGETS = ["QcelVerif.Props.C20", "QcelVerif.Props.C20Spec", "QcelVerif.Props.C20Elems", "QcelVerif.Model.ProtocolsAst", "QcelVerif.Gen.ProtocolsFlow",
                "QcelVerif.Model.ProtocolsFlow", "QcelVerif.Props.C20Flow", "QcelVerif.Driver.C20"]
TRANSLATORS = [c20_spec.gen_result_spec, c20_flow.gen_protocols_flow]
DRIVER = "QcelVerif/Driver/C20.lean"
THEOREMS = [
    ("QcelVerif.Protocols.reshapeExact_ok_iff", "reshape to a full shape is accepted iff the sizes agree, and then yields exactly that shape (size preserved)"),
    ("QcelVerif.Protocols.reshapeRows_ok_iff", "reshape(nbf,-1) accepted iff nbf>0 and nbf | size; result [nbf, size/nbf] has the same size"),
    ("QcelVerif.Protocols.reshapeCols3_ok_iff", "reshape(-1,3) accepted iff 3 | size; result [size/3, 3] has the same size"),
    ("QcelVerif.Protocols.reshapeSquare_ok_iff", "hessian return: accepted iff size is a perfect square k*k, result [k,k]"),
    ("QcelVerif.Protocols.props_shapes", "validated properties: gradients are [nat,3], hessians [3nat,3nat], every dipole [3], quadrupole [3,3]; sizes preserved; nothing added or lost"),
    ("QcelVerif.Protocols.props_accept_iff", "properties accepted iff every supplied array fits (derivatives need calcinfo_natom)"),
    ("QcelVerif.Protocols.rr_ok_iff", "return_result: gradient accepted iff 3 | size -> [size/3,3]; hessian iff perfect square -> [k,k]; energy/properties returned unchanged"),
    ("QcelVerif.Protocols.nfunctions_append", "a fused shell has as many functions as its parts together (spherical 2L+1, cartesian (L+1)(L+2)/2 each)"),
    ("QcelVerif.Protocols.cartesian_count", "(L+1)(L+2)/2 is the number of exponent triples (i,j,k) with i+j+k = L"),
    ("QcelVerif.Protocols.nbf_consistent", "an accepted basis carries nbf = count implied by its shells; a supplied nbf is accepted iff equal; absent is filled in"),
    ("QcelVerif.Protocols.validateBasis_idem", "re-validating an accepted basis returns it unchanged"),
    ("QcelVerif.Protocols.wfn_all_keeps", "protocol all: restricted -> exactly the non-beta entries unchanged; unrestricted -> everything unchanged"),
    ("QcelVerif.Protocols.wfn_keeps_exactly", "subset protocols: kept pointers = selected, supplied, non-beta-if-restricted pointers (values unchanged); kept arrays = exactly their targets (unchanged); basis and restricted kept"),
    ("QcelVerif.Protocols.wfn_none_drops", "protocol none keeps no wavefunction"),
    ("QcelVerif.Protocols.wfn_rejects_iff_dangling", "the protocol filter rejects (validation error at `wavefunction`, never another exception) exactly when a selected pointer names an array that is not (any longer) supplied"),
    ("QcelVerif.Protocols.wfn_idempotent", "applying a wavefunction protocol to its own output returns it unchanged (all five protocols)"),
    ("QcelVerif.Protocols.wfn_shapes", "accepted WavefunctionProperties: AO matrices (h_core, h_effective, density, fock, coulomb, exchange) are [nbf,nbf], scf_orbitals and localized_orbitals [nbf, size/nbf], eigenvalues/occupations flat, localized_fock as supplied; sizes preserved; presence and pointers unchanged; nbf = computed"),
    ("QcelVerif.Protocols.validateWfn_idem", "re-validating accepted WavefunctionProperties changes nothing (shapes, pointers, basis)"),
    ("QcelVerif.Protocols.stdout_keeps", "stdout kept unchanged iff requested; idempotent"),
    ("QcelVerif.Protocols.native_keeps", "native files: all -> unchanged, none -> empty, input -> only 'input' with its supplied content; idempotent"),
    ("QcelVerif.Protocols.trajectory_selects", "trajectory: all -> everything, none -> nothing, final -> the last step (or nothing if empty), initial_and_final -> first and last (a trajectory of <= 2 steps unchanged)"),
    ("QcelVerif.Protocols.trajectory_sublist", "whatever a trajectory policy returns is a sub-list of the trajectory (never raises, never duplicates)"),
    ("QcelVerif.Protocols.trajectory_idempotent", "each trajectory policy applied twice equals applied once"),
    ("QcelVerif.Protocols.atomicResult_revalidate", "an accepted AtomicResult dumped and validated again (same protocols, driver) is accepted and identical — unconditionally"),
    # ---- Props/C20Spec.lean: over Gen/ResultSpec.lean, regenerated from the source text on every run
    ("QcelVerif.ResultSpec.field_names_unique", "generated tables: field names of AtomicResultProperties and of WavefunctionProperties are unique"),
    ("QcelVerif.ResultSpec.declared_shape_units_agree", "where an Array field carries both shape= and units=, the shape class read from the units equals the declared shape"),
    ("QcelVerif.ResultSpec.props_shape_complete", "COMPLETENESS: every Array field of AtomicResultProperties declares (nat,3) / (3nat,3nat) / (3,) / (3,3) (by shape= or units=) and exactly one validator is attached to it, applying exactly that reshape — no exceptions"),
    ("QcelVerif.ResultSpec.wfn_shape_complete", "COMPLETENESS: every Array field of WavefunctionProperties declares (nao,nao) / (nao,nmo) / (nmo,) / (nmo,nmo) and exactly one validator applies exactly the demanded reshape — except localized_fock_a/b (nmo x nmo: no rule can exist), named in the statement, which have no validator"),
    ("QcelVerif.ResultSpec.wfn_unvalidated_classes", "the (nmo,nmo) fields are exactly localized_fock_a/b, and they are the only array fields of WavefunctionProperties without a validator"),
    ("QcelVerif.ResultSpec.props_validators_sound", "SOUNDNESS: every name in a decorator list of AtomicResultProperties is an Array field whose declared shape demands exactly the rule the validator body applies for that name; all are plain post-validators"),
    ("QcelVerif.ResultSpec.wfn_validators_sound", "SOUNDNESS: likewise for WavefunctionProperties; a validator on a string field is the target-exists check"),
    ("QcelVerif.ResultSpec.model_prop_table_eq", "the model's PropArr.all / propRule table equals the generated (array field -> validator rules) table of AtomicResultProperties, in declaration order"),
    ("QcelVerif.ResultSpec.model_wfn_table_eq", "the model's ArrKey.all / arrRule table (incl. `unvalidated`) equals the generated table of WavefunctionProperties, in declaration order"),
    ("QcelVerif.ResultSpec.gen_prop_rule_agrees", "for every properties array field, natom and shape: the generated rule interpreted with numpy reshape semantics = the model's applyPropRule"),
    ("QcelVerif.ResultSpec.gen_wfn_rule_agrees", "for every wavefunction array field, nbf (or failed basis) and shape: the generated rule interpreted with numpy reshape semantics = the model's applyArrRule"),
    ("QcelVerif.ResultSpec.wfn_field_order", "WavefunctionProperties declares basis, restricted, then exactly the model's 22 array keys, then exactly its 10 pointer keys (pointers last, so `values` holds what each validator reads)"),
    ("QcelVerif.ResultSpec.pointer_targets_exist", "every return-pointer field x_s has its natural target scf_x_s among the array fields with the matching declared shape; the model's target universe is exactly the set of array field names"),
    ("QcelVerif.ResultSpec.natom_before_derivatives", "calcinfo_natom is an Optional[int] declared before every array field of AtomicResultProperties"),
    ("QcelVerif.ResultSpec.enums_eq_generated", "WavefunctionProtocolEnum, DriverEnum, NativeFilesProtocolEnum, TrajectoryProtocolEnum have exactly the members of the model's inductive types"),
    ("QcelVerif.ResultSpec.keep_lists_eq_generated", "the per-protocol branch (all / none / keep list) of _wavefunction_protocol for every enum member equals the model's keepList; dropped suffix `_b`; always-copied keys restricted, basis"),
    ("QcelVerif.ResultSpec.wfnProtocol_follows_spec", "the branch table compared with the source really is the branch structure of the model's wfnProtocol (for every wavefunction)"),
    ("QcelVerif.ResultSpec.return_results_names_eq", "_return_results_names, the decorator list of _assert_exists and the model's pointer keys are the same set"),
    ("QcelVerif.ResultSpec.rr_rules_agree", "for every driver and return value: the reshape read from _validate_return_result for that DriverEnum member, interpreted with numpy semantics, = the model's validateRR"),
    ("QcelVerif.ResultSpec.trajectory_generated_agrees", "for every policy and trajectory of any length: the branch read from _trajectory_protocol with Python indexing = the model's trajectoryProtocol"),
    ("QcelVerif.ResultSpec.native_stdout_eq_generated", "the native_files and stdout branches read from the source equal the model's nativeProtocol / stdoutProtocol"),
    # ---- Props/C20Elems.lean: element-level model (array = shape + row-major element sequence)
    ("QcelVerif.Protocols.reshape_preserves_elements", "reshape is the identity on the row-major element sequence and yields the shape the shape model computes"),
    ("QcelVerif.Protocols.reshape_wellformed", "with a list of elements as payload, every reshape the validators perform keeps `number of elements = product of the shape`"),
    ("QcelVerif.Protocols.validatePropsE_shapes", "forgetting the elements, element-level AtomicResultProperties validation is the shape model's (same verdict, failing fields, shapes)"),
    ("QcelVerif.Protocols.validatePropsE_data", "every array of an accepted properties object holds exactly the elements supplied under the same name"),
    ("QcelVerif.Protocols.wfnProtocolE_shapes", "forgetting the elements, the element-level wavefunction protocol is the shape model's wfnProtocol"),
    ("QcelVerif.Protocols.wfnProtocolE_retains", "the wavefunction protocol does not alter retained arrays: what is kept under a key is exactly (shape and elements) the array supplied under that key"),
    ("QcelVerif.Protocols.validateWfnE_shapes", "forgetting the elements, element-level WavefunctionProperties validation is the shape model's validateWfn"),
    ("QcelVerif.Protocols.validateWfnE_data", "every array of accepted WavefunctionProperties holds exactly the elements supplied under the same name"),
    ("QcelVerif.Protocols.validateRRE_shapes", "forgetting the elements, element-level return_result validation is the shape model's validateRR"),
    ("QcelVerif.Protocols.validateRRE_data", "the validated return value holds exactly the supplied row-major elements (gradient, Hessian, unchanged otherwise)"),
    ("QcelVerif.Protocols.atomicResultE_shapes", "forgetting the elements, element-level AtomicResult construction is the shape model's atomicResult (same verdict, error locations, shapes, retained keys) — all C20 theorems transfer"),
    ("QcelVerif.Protocols.atomicResultE_data", "in an accepted AtomicResult every properties array, every retained wavefunction array and the return value hold exactly the row-major elements supplied under the same name"),
    # --- control flow tied to the source (Props/C20Flow.lean): the validator bodies as translated by harness/c20_flow.py, run by the evaluator of Model/ProtocolsAst.lean
    ("QcelVerif.Protocols.Src.wfn_body_shape", "OBLIGATION: the generated body of _wavefunction_protocol is exactly the statement tree the proofs walk through (loop bodies dropBody / keepBody named); any change of the source text breaks it"),
    ("QcelVerif.Protocols.Src.nbf_body_shape", "OBLIGATION: the generated body of _calculate_nbf is exactly the statement tree the proofs walk through (two loops, bodies named)"),
    ("QcelVerif.Protocols.Src.wfnProtocolSrc_eq", "for EVERY protocol and wavefunction dict: _wavefunction_protocol as translated from the source (restricted check, beta-dropping loop, if/elif chain, keep loop with its dangling check, returns and raises) evaluates — never stuck, no other exception — to exactly the hand model wfnProtocol"),
    ("QcelVerif.Protocols.Src.wfnProtocolESrc_eq", "the same for the element-carrying model: _wavefunction_protocol as translated, run on dicts whose arrays carry shape AND row-major elements, = the hand model wfnProtocolE (Model/ProtocolsElems.lean), for every protocol and wavefunction"),
    ("QcelVerif.Protocols.Src.src_wfnE_retains", "headline, over the source-derived element-carrying function: what the wavefunction protocol keeps under a key is exactly (shape and elements) the array supplied under that key"),
    ("QcelVerif.Protocols.Src.stdoutSrc_eq", "for every flag and value: _stdout_protocol as translated = the hand model stdoutProtocol"),
    ("QcelVerif.Protocols.Src.nativeSrc_eq", "for every policy and every files dict (distinct names): _native_file_protocol as translated = the hand model nativeProtocol"),
    ("QcelVerif.Protocols.Src.trajectorySrc_eq", "for every policy and trajectory of any length: _trajectory_protocol as translated (len tests, v[0], v[-1] with Python indexing) = the hand model trajectoryProtocol; in particular no IndexError"),
    ("QcelVerif.Protocols.Src.nfunctionsSrc_eq", "for every shell: ElectronShell.nfunctions as translated (harmonic_type branch, sum over the generator, 2L+1 / (L+1)(L+2)//2) = the model's count"),
    ("QcelVerif.Protocols.Src.calcNbfSrc_eq", "for every centre table and atom map naming known centres: BasisSet._calculate_nbf as translated (dict-building loop over center_data.items(), summing loop over atom_map, calling the translated nfunctions) = the model's calcNbf"),
    ("QcelVerif.Protocols.Src.checkAtomMapRaw_eq", "_check_atom_map as translated (set difference with center_data keys, KeyError escape when center_data failed) raises ValueError exactly when center_data is valid and some atom names no centre"),
    ("QcelVerif.Protocols.Src.checkNbfRaw_eq", "_check_nbf as translated, with both fields valid: fills in the computed count when nbf is absent, accepts a supplied nbf iff equal, raises qcelemental's ValidationError otherwise"),
    ("QcelVerif.Protocols.Src.checkNbfRaw_skip", "_check_nbf as translated passes the supplied value through (KeyError caught) when center_data or atom_map failed validation"),
    ("QcelVerif.Protocols.Src.validateBasisSrc_eq", "for EVERY basis input: BasisSet validation with _check_atom_map, _check_nbf, _calculate_nbf and nfunctions taken from the source = the hand model validateBasis (same verdict, error locations, nbf)"),
    ("QcelVerif.Protocols.Src.atomicResultSrc_eq", "for every AtomicResult input (distinct file names): construction with the wavefunction / stdout / native-files protocol validators taken from the source = the hand model atomicResult — all C20 theorems transfer"),
    ("QcelVerif.Protocols.Src.src_wfn_all_keeps", "headline, over the source-derived function: protocol all keeps, restricted -> exactly the non-beta entries unchanged, unrestricted -> everything unchanged"),
    ("QcelVerif.Protocols.Src.src_wfn_keeps_exactly", "headline, over the source-derived function: subset protocols keep exactly the selected, supplied, non-beta-if-restricted pointers and exactly the arrays they point to (unchanged), plus basis and restricted"),
    ("QcelVerif.Protocols.Src.src_wfn_none_drops", "headline, over the source-derived function: protocol none keeps no wavefunction"),
    ("QcelVerif.Protocols.Src.src_wfn_rejects_iff_dangling", "headline, over the source-derived function: rejection (ValueError -> validation error at `wavefunction`) exactly when a selected pointer names an array that is not (any longer) supplied"),
    ("QcelVerif.Protocols.Src.src_wfn_idempotent", "headline, over the source-derived function: the wavefunction protocol applied to its own output returns it unchanged"),
    ("QcelVerif.Protocols.Src.src_stdout_keeps", "headline, over the source-derived function: stdout kept unchanged iff requested; idempotent"),
    ("QcelVerif.Protocols.Src.src_native_keeps", "headline, over the source-derived function: native files all -> unchanged, none -> empty, input -> only `input` with its supplied content"),
    ("QcelVerif.Protocols.Src.src_trajectory_selects", "headline, over the source-derived function: trajectory all / none / final (last step, nothing if empty) / initial_and_final (first and last; <= 2 steps unchanged)"),
    ("QcelVerif.Protocols.Src.src_nbf_consistent", "headline, over the source-derived BasisSet validators: accepted => nbf = count implied by the shells; supplied nbf accepted iff equal; absent is filled in"),
]
TRUSTED_BASE = [
    "Lean 4.33 kernel; axioms per theorem audited on every run (subset of propext, Classical.choice, Quot.sound)",
    "hand-written models Model/Protocols.lean (shapes) and Model/ProtocolsElems.lean (shapes + row-major elements) of results.py / procedures.py / basis.py validators. "
    "REGENERATED FROM THE SOURCE on every run and compared in Lean (Props/C20Spec.lean): which field gets which reshape rule, the guard when calcinfo_natom / basis is missing, "
    "field universes and declaration order, per-protocol keep lists, dropped suffix, driver -> return_result rule, trajectory / native_files / stdout branches, enum members. "
    "ALSO REGENERATED FROM THE SOURCE on every run (harness/c20_flow.py -> Gen/ProtocolsFlow.lean) and PROVED equal to the hand models for all inputs (Props/C20Flow.lean): the control flow of "
    "_wavefunction_protocol (restricted check, beta-dropping loop, protocol if/elif chain, keep loop with its dangling-pointer check), _stdout_protocol, _native_file_protocol, "
    "OptimizationResult._trajectory_protocol, ElectronShell.nfunctions, BasisSet._check_atom_map / _check_nbf / _calculate_nbf. "
    "Still tied only by differential correspondence: what pydantic does around the validators (collecting errors, failed fields absent from `values`, ValueError -> ValidationError at the field, "
    "other exceptions escaping, validator order), the shell validators _check_coefficient_length / _check_general_contraction_or_fused (Shell.ok), the reshape validators' bodies beyond their "
    "tables, the isinstance(value, WavefunctionProperties) branch of _wavefunction_protocol (only dict inputs are modelled) — on the generated stream (retained key sets, shapes, element digests, error class and failing locations)",
    "the evaluator of Model/ProtocolsAst.lean — the semantics given to the Python constructs the validators use (if/elif/else, for over a list / dict items with continue, try/except, return, raise, "
    "`is`/`==`/`in`, dict get/pop/[]/keys/copy, list literals and Python indexing, len/sum/set/list, generator expressions, + - * //) — and the encodings of Model/ProtocolsFlow.lean "
    "(a wavefunction dict as a dict over the 34 field keys whose pointer values are array keys; sets as lists; dict iteration in key-list order). THREE-WAY on every A / AE / B / T line: the driver "
    "evaluates the source-derived functions too and reports any difference from the hand model (`FLOWDIFF`), so a wrong evaluator semantics shows as a disagreement with the implementation",
    "harness/c20_flow.py (translator): prints every statement / expression node of the eight function bodies one-to-one (normalisations listed in its docstring); any node type, operator, builtin, "
    "method or call form outside the AST is a FlowTranslatorError (= failed run); cross-checked on every run against the live classes: the body translated from the file text equals the body "
    "translated from `inspect.getsource` of the imported function, and each validator is registered exactly once, on the field and with the pre / always flags the models assume",
    "harness/c20_spec.py (translator): reads the text by `ast`, evaluates each validator body symbolically per attached field name (reshape arguments, `is None` guards); unknown constructs are a "
    "translator error or a `.other` rule (both fail the run). Its field lists, shape/units keywords, required flags and validator attachments are cross-checked on every run against the live classes "
    "(`__fields__`, `__validators__`); a translator bug in the rule extraction would show as a failed `decide` (the model tables are independent) or as a correspondence disagreement",
    "numpy semantics as parameters: reshape succeeds iff sizes agree / the known part divides the size (`npReshape` in Props/C20Spec.lean), and C-order reshape leaves the row-major element sequence "
    "unchanged whatever the memory layout (`Arr.reshapeWith`) — checked differentially with C-contiguous, Fortran-ordered, strided-view and nested-list inputs",
    "pydantic v1 semantics (field order, failed fields absent from `values`, ValueError collected / other exceptions escape) folded into the models and checked differentially",
    "harness/c20.py generators and the Python oracle; element digests are SHA-1 (12 hex digits) of the float64 row-major bytes",
]
ASSUMPTIONS = [
    "element values: modelled (payload carried through reshape and protocols, theorems *_data / *_retains) and tied by digest on the AE / PE streams; the A / P streams still compare shapes only (plus the oracle's own element comparison)",
    "dict keys are distinct (file names of native_files, centre ids of center_data: hypotheses `Nodup` of nativeSrc_eq / atomicResultSrc_eq; the driver rejects duplicate centre ids); the loops of the "
    "translated validators are order-independent, so a dict is iterated in the order of its key list and a set is the list of its elements",
    "return pointers name wavefunction array fields (any of the 22), calcinfo_natom >= 0, well-formed shells (non-empty angular_momentum/exponents/coefficients), protocols objects themselves valid",
    "array inputs are float ndarrays (C-contiguous, Fortran-ordered or strided views; in the AE / PE streams also another factorisation of the right size) or nested lists; "
    "hessian sizes < 2^52 so that int(size**0.5) is the exact integer square root",
    "a hessian return_result of any memory layout is reshaped (row-major element order of the logical array) by model and implementation alike (since /repo 5bfcfbf); the AE / PE oracle also demands that the "
    "caller's own array objects are left untouched (shape and elements) — a demand about the inputs that the Lean model, being functional, does not express",
    "localized_fock_* (declared nmo x nmo) has no shape implied by atom count, basis size or driver and no reshape rule can exist: no demand (the one explicit exception in wfn_shape_complete); "
    "localized_orbitals_* (declared nao x nmo) is demanded and modelled like scf_orbitals (validator added in /repo ddb6df6); scf_orbitals/localized_orbitals with nbf = 0: no demand (numpy finds (0,-1) ambiguous)",
    "an Array field of AtomicResultProperties without shape= is classified by its units= (E_h/a0 gradient, E_h/a0^2 Hessian, e a0 dipole, e a0^2 quadrupole); the classification is a Lean definition (unitsShape) visible next to the completeness theorem",
    "a native_files entry whose value is None ({'input': None}) is a placeholder, not a retained file",
    "for the energy / properties drivers no shape is implied: return values are a float, a dict or a 1-D array; wavefunctions over an empty basis (nbf = 0) are not generated",
    "scalar (non-array) fields of AtomicResultProperties are not generated; that no validator is attached to one is proved from the source text (props_validators_sound), not exercised",
]
RULE = (
    "A-cases: full product of 5 wavefunction protocols x stdout on/off x 3 native policies x restricted/unrestricted x 4 drivers "
    "(240 combinations), each with K random payloads: random subset of the 22 wavefunction arrays (flat / shaped / other-shaped / "
    "wrong size), random subset of the 10 pointers (natural, crossed, other-spin or dangling targets), random basis (spherical/cartesian, "
    "fused and general contractions, nbf right/wrong/absent, occasional unknown centre or bad shell), properties arrays with/without "
    "calcinfo_natom, return_result per driver, stdout and native files supplied or not; AE-cases: the same product with K/4 payloads, every array "
    "carrying the digest of its row-major elements and built in a random memory layout (C, Fortran, strided view, nested list); PE-cases: properties alone, likewise; "
    "B-cases: basis sets alone; P-cases: properties alone; "
    "T-cases: 4 trajectory policies x 0..6 steps (exhaustive). On A / AE / B / T lines the Lean driver answers three-way (hand model and source-derived evaluator). A case is distinct by its line; non-trivial when a filter removes something, "
    "an array needs reshaping, a layout is given, or the outcome is a rejection."
)
LEVEL_TEXT = (
    "proof (about the models) of shape rules, exact-retention characterisations, idempotence of every protocol and of re-validation, "
    "nbf consistency, and that reshape / protocols / validation never alter the row-major elements of a retained array; "
    "proof by kernel evaluation over tables regenerated from the source text on every run that every declared array shape has exactly its validator "
    "(completeness, with localized_fock nmo x nmo as the one named exception), that no validator sits on a wrong field (soundness), and that the model's "
    "field->rule tables, keep lists, driver / trajectory / native / stdout branches and enum members equal the source's; "
    "proof that the CONTROL FLOW of the eight protocol / basis validator bodies, translated statement by statement from the source text on every run and run by a small Python-subset evaluator in Lean, "
    "equals the hand models for all inputs (so every retention theorem is restated and proved over the source-derived functions); "
    "partial: pydantic's bookkeeping around the validators (error collection, `values` contents, validator order), the two shell-coefficient validators, and the object (non-dict) wavefunction input "
    "are tied by differential correspondence only (retained key sets, shapes, element digests, error class, failing locations)"
)
TECHNIQUE = ("Lean 4 proof over abstract payloads (key sets, shapes, pointer targets, row-major element sequences) + ast translator of field/validator/protocol tables with `decide` "
             "theorems + ast translator of the validator bodies into a statement AST with an evaluator in Lean and equivalence proofs + line-protocol differential correspondence + independent oracle")

warnings.simplefilter("ignore")

# ----------------------------------------------------------------------------------------------
# static tables (independent of the Lean model; from the field declarations of results.py)

ARR_BASES = ["h_core", "h_effective", "scf_orbitals", "scf_density", "scf_fock", "scf_eigenvalues", "scf_occupations",
             "scf_coulomb", "scf_exchange", "localized_orbitals", "localized_fock"]
PTR_BASES = ["orbitals", "density", "fock", "eigenvalues", "occupations"]
ARR_KEYS = [b + s for b in ARR_BASES for s in ("_a", "_b")]
PTR_KEYS = [b + s for b in PTR_BASES for s in ("_a", "_b")]
PROP_ARRS = ["return_gradient", "return_hessian", "scf_dipole_moment", "scf_quadrupole_moment", "scf_total_gradient",
             "scf_total_hessian", "mp2_dipole_moment", "ccsd_dipole_moment", "ccsd_prt_pr_dipole_moment",
             "ccsdt_dipole_moment", "ccsdtq_dipole_moment"]
WPS = ["all", "orbitals_and_eigenvalues", "occupations_and_eigenvalues", "return_results", "none"]
NFS = ["all", "input", "none"]
DRIVERS = ["energy", "gradient", "hessian", "properties"]
TPS = ["all", "initial_and_final", "final", "none"]
SELECT = {
    "return_results": set(PTR_KEYS),
    "orbitals_and_eigenvalues": {"orbitals_a", "orbitals_b", "eigenvalues_a", "eigenvalues_b"},
    "occupations_and_eigenvalues": {"occupations_a", "occupations_b", "eigenvalues_a", "eigenvalues_b"},
}
# Fields that once lacked a shape validator (repaired in /repo: 763bf2b, c58ba51). A regression there is reported under
# its own kind (KIND_DIPOLE / KIND_AO); everything else under the general kinds.
UNVALIDATED_DIPOLES = {"ccsdt_dipole_moment", "ccsdtq_dipole_moment"}
UNVALIDATED_AO = {"scf_coulomb_a", "scf_coulomb_b", "scf_exchange_a", "scf_exchange_b"}

KIND_DANGLING = "oracle:dangling_pointer_keyerror"
KIND_TRAJ_EMPTY = "oracle:trajectory_empty_indexerror"
KIND_TRAJ_SINGLE = "oracle:trajectory_single_step_duplicated"
KIND_NATIVE_REVAL = "oracle:revalidate_native_input_placeholder"
KIND_DIPOLE = "oracle:unvalidated_dipole"
KIND_AO = "oracle:unvalidated_ao_matrix"
# Repaired in /repo ddb6df6 (found by Props/C20Spec.lean: wfn_shape_complete): localized_orbitals_a/b, declared
# shape=["nao","nmo"] like scf_orbitals_a/b, were missing from the decorator list of `_assert2d_nao_x`. A regression is
# reported under its own kind, like the dipole / AO-matrix ones above; nothing is tolerated.
UNVALIDATED_LOCORB = {"localized_orbitals_a", "localized_orbitals_b"}
KIND_LOCORB = "oracle:unvalidated_localized_orbitals"
# Repaired in /repo 5bfcfbf: `_validate_return_result` (hessian) assigned `v.shape = (nsq, nsq)` in place; on an array that is
# not C-contiguous and has another shape numpy raised AttributeError (not collected by pydantic), and a C-contiguous
# caller's array had its shape changed. Regressions: KIND_HESS_INPLACE / KIND_CALLER_MODIFIED.
KIND_HESS_INPLACE = "oracle:hessian_return_inplace_shape_attributeerror"
KIND_CALLER_MODIFIED = "oracle:caller_array_modified"


def prod(shape):
    p = 1
    for d in shape:
        p *= d
    return p


# ----------------------------------------------------------------------------------------------
# line encoding / decoding


def enc_shape(s):
    return "0d" if len(s) == 0 else "x".join(str(d) for d in s)


def dec_shape(t):
    return [] if t == "0d" else [int(d) for d in t.split("x")]


def enc_fields(lst):
    return ",".join(f"{n}:{enc_shape(s)}" for n, s in lst)


def dec_fields(t):
    out = []
    for it in t.split(","):
        if it.strip():
            n, s = it.split(":")
            out.append((n, dec_shape(s)))
    return out


def enc_optnat(v):
    return "N" if v is None else str(v)


def dec_optnat(t):
    return None if t == "N" else int(t)


def enc_basis(b):
    cs = "&".join(
        f"{cid}=" + "+".join(f"{h}/{'.'.join(map(str, am))}/{ne}/{'.'.join(map(str, rows))}" for h, am, ne, rows in shells)
        for cid, shells in b["centers"]
    )
    return f"{enc_optnat(b['nbf'])}^{'.'.join(map(str, b['atom_map']))}^{cs}"


def dec_basis(t):
    n, am, cs = t.split("^")
    centers = []
    for c in cs.split("&"):
        if not c.strip():
            continue
        cid, sh = c.split("=")
        shells = []
        for s in sh.split("+"):
            if not s.strip():
                continue
            h, a, ne, rows = s.split("/")
            shells.append((h, [int(x) for x in a.split(".") if x], int(ne), [int(x) for x in rows.split(".") if x]))
        centers.append((int(cid), shells))
    return {"nbf": dec_optnat(n), "atom_map": [int(x) for x in am.split(".") if x], "centers": centers}


def enc_props(p):
    return f"{enc_optnat(p['natom'])}~{enc_fields(p['arr'])}"


def dec_props(t):
    n, fs = t.split("~")
    return {"natom": dec_optnat(n), "arr": dec_fields(fs)}


def enc_wfn(w):
    if w is None:
        return "N"
    r = "-" if w["restricted"] is None else ("1" if w["restricted"] else "0")
    b = "-" if w["basis"] is None else enc_basis(w["basis"])
    return f"{r}~{b}~{enc_fields(w['arr'])}~" + ",".join(f"{p}>{t}" for p, t in w["ptr"])


def dec_wfn(t):
    if t == "N":
        return None
    r, b, arrs, ptrs = t.split("~")
    return {
        "restricted": None if r == "-" else r == "1",
        "basis": None if b == "-" else dec_basis(b),
        "arr": dec_fields(arrs),
        "ptr": [tuple(x.split(">")) for x in ptrs.split(",") if x.strip()],
    }


def enc_rr(rr):
    return rr if isinstance(rr, str) else enc_shape(rr)


def dec_rr(t):
    return t if t in ("f", "d") else dec_shape(t)


def enc(spec):
    op = spec["op"]
    if op in ("AE", "PE"):
        return enc_E(spec)
    if op == "A":
        files = "N" if spec["files"] is None else ".".join(map(str, spec["files"]))
        return "|".join(["A", spec["wp"], "1" if spec["so"] else "0", spec["nf"], spec["driver"], enc_props(spec["props"]),
                         enc_wfn(spec["wfn"]), enc_rr(spec["rr"]), "1" if spec["stdout"] else "0", files])
    if op == "W":
        return "W|" + enc_wfn(spec["wfn"])
    if op == "P":
        return "P|" + enc_props(spec["props"])
    if op == "B":
        return "B|" + enc_basis(spec["basis"])
    if op == "T":
        return f"T|{spec['policy']}|{spec['n']}"
    raise ValueError(op)


def dec(line):
    f = line.split("|")
    if f[0] in ("AE", "PE"):
        return dec_E(line)
    if f[0] == "A":
        return {"op": "A", "wp": f[1], "so": f[2] == "1", "nf": f[3], "driver": f[4], "props": dec_props(f[5]), "wfn": dec_wfn(f[6]),
                "rr": dec_rr(f[7]), "stdout": f[8] == "1", "files": None if f[9] == "N" else [int(x) for x in f[9].split(".") if x]}
    if f[0] == "W":
        return {"op": "W", "wfn": dec_wfn(f[1])}
    if f[0] == "P":
        return {"op": "P", "props": dec_props(f[1])}
    if f[0] == "B":
        return {"op": "B", "basis": dec_basis(f[1])}
    if f[0] == "T":
        return {"op": "T", "policy": f[1], "n": int(f[2])}
    raise ValueError(line)


# ----------------------------------------------------------------------------------------------
# building implementation inputs from a spec

_MOL = None


def mol():
    global _MOL
    if _MOL is None:
        import qcelemental as qcel

        _MOL = qcel.models.Molecule.from_data("O 0 0 0\nH 0 0 2\nH 0 2 0")
    return _MOL


def arr_data(name, shape):
    """deterministic, distinct contents; 1-D even-sized arrays are passed as Python lists"""
    size = prod(shape)
    off = (sum(ord(c) for c in name) % 97) + 0.25
    a = (np.arange(size, dtype=float) * 0.5 + off).reshape(shape)
    if len(shape) == 1 and size % 2 == 0:
        return a.tolist()
    return a


def file_name(i):
    return "input" if i == 0 else f"file{i}"


def build_basis(b):
    cd = {}
    for cid, shells in b["centers"]:
        cd[f"c{cid}"] = {
            "electron_shells": [
                {
                    "harmonic_type": "spherical" if h == "s" else "cartesian",
                    "angular_momentum": list(am),
                    "exponents": [1.0 + 0.5 * k for k in range(ne)],
                    "coefficients": [[0.1 * (j + 1) + k for k in range(r)] for j, r in enumerate(rows)],
                }
                for h, am, ne, rows in shells
            ]
        }
    d = {"name": "gen", "center_data": cd, "atom_map": [f"c{a}" for a in b["atom_map"]]}
    if b["nbf"] is not None:
        d["nbf"] = b["nbf"]
    return d


_RESTRICTED_SPELLING = [0]


def build_wfn(w):
    d = {}
    if w["basis"] is not None:
        d["basis"] = build_basis(w["basis"])
    if w["restricted"] is not None:
        # the flag in the spellings a caller's data may hold it in (Python bool, numpy bool, 0/1): all mean the same boolean
        _RESTRICTED_SPELLING[0] += 1
        alts = [True, np.True_, 1, np.bool_(1)] if w["restricted"] else [False, np.False_, 0]
        d["restricted"] = alts[_RESTRICTED_SPELLING[0] % len(alts)]
    for n, s in w["arr"]:
        d[n] = arr_data(n, s)
    for p, t in w["ptr"]:
        d[p] = t
    return d


def build_props(p):
    d = {}
    if p["natom"] is not None:
        d["calcinfo_natom"] = p["natom"]
    for n, s in p["arr"]:
        d[n] = arr_data(n, s)
    return d


def build_rr(rr):
    if rr == "f":
        return 1.5
    if rr == "d":
        return {"some_property": 1.0}
    return arr_data("return_result", rr)


# program output as programs write it: leading blanks, a banner, a final newline — retained text is retained verbatim
STDOUT_TEXT = "    -- banner --\n  I ran.\n"
STDERR_TEXT = "warning: basis set is small\nnote: 2 near-linear dependencies\n"


def native_content(i):
    return f"  content {i}\n\n"

EXTRAS_GIVEN = {"tag": "t1", "n": 3}


def build_A(spec, wfn_override=None):
    d = {
        "molecule": mol(),
        "driver": spec["driver"],
        "model": {"method": "UFF"},
        "return_result": build_rr(spec["rr"]),
        "success": True,
        "properties": build_props(spec["props"]),
        "provenance": {"creator": "qcel"},
        "protocols": {"wavefunction": spec["wp"], "stdout": spec["so"], "native_files": spec["nf"]},
    }
    if spec["stdout"]:
        d["stdout"] = STDOUT_TEXT
    # fields no protocol governs: supplied on every case, must be retained as given whatever the protocols say
    d["stderr"] = STDERR_TEXT
    d["extras"] = dict(EXTRAS_GIVEN)
    if spec["files"] is not None:
        d["native_files"] = {file_name(i): native_content(i) for i in spec["files"]}
    if spec["wfn"] is not None:
        d["wavefunction"] = build_wfn(spec["wfn"]) if wfn_override is None else wfn_override
    return d


# ----------------------------------------------------------------------------------------------
# canonical form of implementation outcomes (same text as the driver prints)


def canon_err(e):
    import qcelemental as qcel

    try:
        import pydantic.v1 as pv1
    except ImportError:  # pragma: no cover
        import pydantic as pv1
    if isinstance(e, pv1.ValidationError):
        locs = sorted({".".join(str(x) for x in er["loc"]) for er in e.errors()})
        return "err Validation " + ",".join(locs)
    if isinstance(e, qcel.exceptions.ValidationError):
        return "err NbfMismatch"
    if isinstance(e, KeyError):
        return "err KeyError"
    if isinstance(e, IndexError):
        return "err IndexError"
    return "err other:" + type(e).__name__


def canon_model_line(s):
    """sort the locations of a model error line (pydantic's order is not part of the comparison)"""
    if s is not None and s.startswith("err Validation "):
        return "err Validation " + ",".join(sorted(s[len("err Validation "):].split(",")))
    return s


def shape_of(v):
    return list(np.shape(v))


def canon_props(p):
    d = p.dict()
    fs = [(n, shape_of(d[n])) for n in PROP_ARRS if d.get(n) is not None]
    return f"{enc_optnat(d.get('calcinfo_natom'))}~{enc_fields(fs)}"


def canon_wfn(w):
    if w is None:
        return "N"
    d = w.dict()
    r = "-" if d.get("restricted") is None else ("1" if d["restricted"] else "0")
    b = "-" if getattr(w, "basis", None) is None else str(w.basis.nbf)
    arrs = [(n, shape_of(d[n])) for n in ARR_KEYS if d.get(n) is not None]
    ptrs = [(n, d[n]) for n in PTR_KEYS if d.get(n) is not None]
    return f"{r}~{b}~{enc_fields(arrs)}~" + ",".join(f"{p}>{t}" for p, t in ptrs)


def canon_rr(v):
    if isinstance(v, dict):
        return "d"
    if isinstance(v, np.ndarray):
        return enc_shape(list(v.shape))
    return "f"


def file_id(name):
    return 0 if name == "input" else int(name[4:])


def canon_A(r):
    files = ",".join(f"{file_id(k)}:{0 if v is None else 1}" for k, v in r.native_files.items())
    return (f"ok props={canon_props(r.properties)} wfn={canon_wfn(r.wavefunction)} rr={canon_rr(r.return_result)} "
            f"stdout={0 if r.stdout is None else 1} files={files}")


def deep_equal(a, b):
    """structural equality of dumped objects, arrays compared by shape and content"""
    if isinstance(a, dict) and isinstance(b, dict):
        return a.keys() == b.keys() and all(deep_equal(a[k], b[k]) for k in a)
    if isinstance(a, (list, tuple)) and isinstance(b, (list, tuple)):
        return len(a) == len(b) and all(deep_equal(x, y) for x, y in zip(a, b))
    if isinstance(a, np.ndarray) or isinstance(b, np.ndarray):
        if not (isinstance(a, np.ndarray) and isinstance(b, np.ndarray)):
            return False
        return a.shape == b.shape and bool(np.array_equal(a, b))
    return type(a) == type(b) and a == b


def first_diff(a, b, path=""):
    if isinstance(a, dict) and isinstance(b, dict):
        if a.keys() != b.keys():
            return f"{path}: keys {sorted(set(a) ^ set(b))}"
        for k in a:
            d = first_diff(a[k], b[k], f"{path}.{k}")
            if d:
                return d
        return None
    if isinstance(a, (list, tuple)) and isinstance(b, (list, tuple)):
        if len(a) != len(b):
            return f"{path}: length {len(a)} vs {len(b)}"
        for i, (x, y) in enumerate(zip(a, b)):
            d = first_diff(x, y, f"{path}[{i}]")
            if d:
                return d
        return None
    return None if deep_equal(a, b) else f"{path}: {np.shape(a)} {type(a).__name__} vs {np.shape(b)} {type(b).__name__}"


def dump_diff(a, b):
    """paths (depth 2 inside properties / wavefunction, depth 1 elsewhere) on which two dumps differ"""
    out = []
    for k in sorted(set(a) | set(b)):
        x, y = a.get(k, "<absent>"), b.get(k, "<absent>")
        if k in ("properties", "wavefunction") and isinstance(x, dict) and isinstance(y, dict):
            for kk in sorted(set(x) | set(y)):
                if not deep_equal(x.get(kk, "<absent>"), y.get(kk, "<absent>")):
                    out.append(f"{k}.{kk}")
        elif not deep_equal(x, y):
            out.append(k)
    return out


def flat_same(x, y):
    """same contents, only the shape differs (y flat)"""
    return isinstance(x, np.ndarray) and isinstance(y, np.ndarray) and y.ndim == 1 and np.array_equal(x.ravel(), y)


# ----------------------------------------------------------------------------------------------
# the oracle's own reading of the statement


def nfunc(h, am):
    return sum((2 * L + 1) if h == "s" else ((L + 1) * (L + 2)) // 2 for L in am)


def basis_expect(b):
    """('ok', nbf) | ('reject',) according to the statement"""
    ids = {cid for cid, _ in b["centers"]}
    for _cid, shells in b["centers"]:
        if not shells:
            return ("reject",)
        for h, am, ne, rows in shells:
            if any(r != ne for r in rows) or (len(am) > 1 and len(am) != len(rows)):
                return ("reject",)
    if any(a not in ids for a in b["atom_map"]):
        return ("reject",)
    per = {cid: sum(nfunc(h, am) for h, am, _ne, _rows in shells) for cid, shells in b["centers"]}
    nbf = sum(per[a] for a in b["atom_map"])
    if b["nbf"] is not None and b["nbf"] != nbf:
        return ("reject",)
    return ("ok", nbf)


def prop_implied(name, natom):
    """implied shape of a properties array: list | 'need-natom' | None (no demand)"""
    if name.endswith("_gradient"):
        return "need-natom" if natom is None else [natom, 3]
    if name.endswith("_hessian"):
        return "need-natom" if natom is None else [3 * natom, 3 * natom]
    if name.endswith("_dipole_moment"):
        return [3]
    if name.endswith("_quadrupole_moment"):
        return [3, 3]
    return None


def wfn_implied(name, nbf, shape):
    base = name[:-2]
    size = prod(shape)
    if base in ("h_core", "h_effective", "scf_density", "scf_fock", "scf_coulomb", "scf_exchange"):
        return [nbf, nbf]
    if base in ("scf_orbitals", "localized_orbitals"):  # both declared (nao, nmo): rows implied by the basis size
        if nbf == 0:
            return None
        return [nbf, size // nbf] if size % nbf == 0 else "misfit"
    if base in ("scf_eigenvalues", "scf_occupations"):
        return [size]
    return None  # localized_fock (nmo x nmo): no demand (nmo unknown; not implied by atom count, basis size or driver)


def isqrt(n):
    import math

    return math.isqrt(n)


def rr_expect(driver, rr):
    """expected canonical return_result, or 'reject'"""
    if driver in ("energy", "properties"):
        return enc_rr(rr)
    shape = [] if isinstance(rr, str) else rr
    size = prod(shape)
    if driver == "gradient":
        return enc_shape([size // 3, 3]) if size % 3 == 0 else "reject"
    k = isqrt(size)
    return enc_shape([k, k]) if k * k == size else "reject"


def wfn_expect(spec):
    """What the statement says must be retained.
    returns dict(kept_arr, kept_ptr, dangling, none) — `none` means no wavefunction is kept."""
    w = spec["wfn"]
    if w is None or spec["wp"] == "none":
        return {"none": True}
    arrs = dict(w["arr"])
    ptrs = dict(w["ptr"])
    if w["restricted"]:
        arrs = {k: v for k, v in arrs.items() if not k.endswith("_b")}
        ptrs = {k: v for k, v in ptrs.items() if not k.endswith("_b")}
    if spec["wp"] == "all":
        kp = ptrs
        ka = arrs
    else:
        kp = {k: v for k, v in ptrs.items() if k in SELECT[spec["wp"]]}
        ka = {t: arrs[t] for t in kp.values() if t in arrs}
    dangling = sorted(p for p, t in kp.items() if t not in arrs)
    return {"none": False, "kept_arr": ka, "kept_ptr": kp, "dangling": dangling}


def in_quantifier_A(spec):
    w = spec["wfn"]
    if w is not None and (w["restricted"] is None or w["basis"] is None):
        return False
    return True


def expect_A(spec):
    """Independent expectation for an A-case. Returns dict with
    verdict 'accept'|'reject', misfits (list of field names that do not fit), canon (expected canonical line if accept)."""
    misfits = []
    # properties
    p = spec["props"]
    pshapes = []
    for n, s in p["arr"]:
        imp = prop_implied(n, p["natom"])
        if imp == "need-natom":
            misfits.append("properties." + n)
        elif imp is not None and prod(imp) != prod(s):
            misfits.append("properties." + n)
        else:
            pshapes.append((n, imp if imp is not None else s))
    pshapes.sort(key=lambda x: PROP_ARRS.index(x[0]))
    # return_result
    rr = rr_expect(spec["driver"], spec["rr"])
    if rr == "reject":
        misfits.append("return_result")
    # wavefunction
    we = wfn_expect(spec)
    wcanon = "N"
    if not we["none"]:
        w = spec["wfn"]
        be = basis_expect(w["basis"]) if w["basis"] is not None else ("reject",)
        if be[0] == "reject":
            misfits.append("wavefunction.basis")
            nbf = None
        else:
            nbf = be[1]
        for pk in we["dangling"]:
            misfits.append("wavefunction." + pk)
        ashapes = []
        for n, s in we["kept_arr"].items():
            imp = wfn_implied(n, nbf, s) if nbf is not None else None
            if imp == "misfit" or (isinstance(imp, list) and prod(imp) != prod(s)):
                misfits.append("wavefunction." + n)
            else:
                ashapes.append((n, imp if isinstance(imp, list) else s))
        ashapes.sort(key=lambda x: ARR_KEYS.index(x[0]))
        kptr = sorted(we["kept_ptr"].items(), key=lambda x: PTR_KEYS.index(x[0]))
        wcanon = f"{'1' if w['restricted'] else '0'}~{nbf}~{enc_fields(ashapes)}~" + ",".join(f"{a}>{b}" for a, b in kptr)
    # stdout / native files
    so = 1 if (spec["stdout"] and spec["so"]) else 0
    files = []
    if spec["files"] is not None:
        if spec["nf"] == "all":
            files = list(spec["files"])
        elif spec["nf"] == "input":
            files = [i for i in spec["files"] if i == 0]
    canon = f"ok props={enc_optnat(p['natom'])}~{enc_fields(pshapes)} wfn={wcanon} rr={rr} stdout={so} files=" + ",".join(f"{i}:1" for i in files)
    return {"verdict": "reject" if misfits else "accept", "misfits": misfits, "canon": canon, "wfn": we}


def strip_placeholders(canon):
    """drop `id:0` (None-valued) native file entries: placeholders are not retained files"""
    head, _, files = canon.rpartition(" files=")
    keep = [x for x in files.split(",") if x and not x.endswith(":0")]
    return head + " files=" + ",".join(keep)


def canon_items(canon):
    """split an `ok …` canonical line into comparable items {name: value}"""
    items = {}
    for part in canon.split()[1:]:
        k, _, v = part.partition("=")
        if k == "props":
            nat, _, fs = v.partition("~")
            items["properties.calcinfo_natom"] = nat
            for n, sh in dec_fields(fs):
                items["properties." + n] = enc_shape(sh)
        elif k == "wfn" and v != "N":
            r, nbf, arrs, ptrs = v.split("~")
            items["wavefunction.restricted"] = r
            items["wavefunction.basis.nbf"] = nbf
            for n, sh in dec_fields(arrs):
                items["wavefunction." + n] = enc_shape(sh)
            for x in ptrs.split(","):
                if x:
                    pn, _, t = x.partition(">")
                    items["wavefunction." + pn] = t
        else:
            items[k] = v
    return items


def canon_diff(obs, exp):
    """names of the items on which two `ok …` canonical lines differ"""
    a, b = canon_items(obs), canon_items(exp)
    return sorted(k for k in set(a) | set(b) if a.get(k) != b.get(k))


# ----------------------------------------------------------------------------------------------
# element-carrying cases (ops AE / PE): every array travels with a digest of its row-major element list and with the
# memory layout the implementation's input is built in; the Lean driver (Model/ProtocolsElems.lean) carries the digest
# through reshape / protocols, the implementation's outputs are digested the same way and the lines are compared.

LAYOUTS = "cfsl"  # C-contiguous, Fortran-ordered, strided (non-contiguous) view, nested list


def tok(a):
    """digest of the row-major (logical C order) element list"""
    import hashlib

    return hashlib.sha1(np.ascontiguousarray(np.asarray(a, dtype=np.float64)).tobytes()).hexdigest()[:12]


def tok_dict(d):
    import hashlib

    return hashlib.sha1(json.dumps(d, sort_keys=True).encode()).hexdigest()[:12]


def content(name, size):
    """the row-major element list of the array supplied under `name` (distinct per name, not symmetric)"""
    off = _OFFSETS.get(name)
    if off is None:
        raise ValueError(f"no content offset for {name}")
    return ((np.arange(size, dtype=np.int64) * 7 + off) % 1009).astype(np.float64) * 0.5 + 0.25


def _mk_offsets():
    import hashlib

    names = PROP_ARRS + ARR_KEYS + ["return_result"]
    offs = {n: int(hashlib.sha1(n.encode()).hexdigest()[:8], 16) % 1009 for n in names}
    used = set()
    for n in names:  # make them distinct (deterministically)
        while offs[n] in used:
            offs[n] = (offs[n] + 1) % 1009
        used.add(offs[n])
    return offs


_OFFSETS = _mk_offsets()


def lay_ok(shape, lay):
    if lay == "l" and len(shape) > 1 and prod(shape) == 0:
        return False  # a nested list cannot express a zero-sized dimension other than the first
    if lay == "s" and len(shape) == 0:
        return False
    return True


def build_layout(name, shape, lay):
    a = content(name, prod(shape)).reshape(shape)
    if lay == "c":
        return a
    if lay == "f":
        return np.asfortranarray(a)
    if lay == "s":
        v = np.repeat(a, 2, axis=-1)[..., ::2]
        assert v.shape == a.shape and np.array_equal(v, a)
        return v
    if lay == "l":
        return a.tolist()
    raise ValueError(lay)


def enc_fields_E(lst, lay, sect):
    return ",".join(f"{n}:{enc_shape(sh)}:{tok(content(n, prod(sh)))}:{lay[sect + '.' + n]}" for n, sh in lst)


def dec_fields_E(t, lay, sect):
    out = []
    for it in t.split(","):
        if it.strip():
            n, sh, tk, ly = it.split(":")
            shape = dec_shape(sh)
            if tk != tok(content(n, prod(shape))) or ly not in LAYOUTS:
                raise ValueError(f"element digest / layout of {n} does not match its content")
            out.append((n, shape))
            lay[sect + "." + n] = ly
    return out


RR_F, RR_D = 1.5, {"some_property": 1.0}


def enc_rr_E(rr, lay):
    if rr == "f":
        return "f:" + tok(np.array(RR_F))
    if rr == "d":
        return "d:" + tok_dict(RR_D)
    return f"{enc_shape(rr)}:{tok(content('return_result', prod(rr)))}:{lay['return_result']}"


def dec_rr_E(t, lay):
    f = t.split(":")
    if f[0] == "f" and f[1] == tok(np.array(RR_F)):
        return "f"
    if f[0] == "d" and f[1] == tok_dict(RR_D):
        return "d"
    shape = dec_shape(f[0])
    if f[1] != tok(content("return_result", prod(shape))) or f[2] not in LAYOUTS:
        raise ValueError("element digest / layout of return_result does not match its content")
    lay["return_result"] = f[2]
    return shape


def enc_wfn_E(w, lay):
    if w is None:
        return "N"
    r = "-" if w["restricted"] is None else ("1" if w["restricted"] else "0")
    b = "-" if w["basis"] is None else enc_basis(w["basis"])
    return f"{r}~{b}~{enc_fields_E(w['arr'], lay, 'wavefunction')}~" + ",".join(f"{p}>{t}" for p, t in w["ptr"])


def dec_wfn_E(t, lay):
    if t == "N":
        return None
    r, b, arrs, ptrs = t.split("~")
    return {
        "restricted": None if r == "-" else r == "1",
        "basis": None if b == "-" else dec_basis(b),
        "arr": dec_fields_E(arrs, lay, "wavefunction"),
        "ptr": [tuple(x.split(">")) for x in ptrs.split(",") if x.strip()],
    }


def enc_E(spec):
    lay = spec["lay"]
    pe = f"{enc_optnat(spec['props']['natom'])}~{enc_fields_E(spec['props']['arr'], lay, 'properties')}"
    if spec["op"] == "PE":
        return "PE|" + pe
    files = "N" if spec["files"] is None else ".".join(map(str, spec["files"]))
    return "|".join(["AE", spec["wp"], "1" if spec["so"] else "0", spec["nf"], spec["driver"], pe, enc_wfn_E(spec["wfn"], lay),
                     enc_rr_E(spec["rr"], lay), "1" if spec["stdout"] else "0", files])


def dec_E(line):
    f = line.split("|")
    lay = {}

    def props(t):
        n, fs = t.split("~")
        return {"natom": dec_optnat(n), "arr": dec_fields_E(fs, lay, "properties")}

    if f[0] == "PE":
        return {"op": "PE", "props": props(f[1]), "lay": lay}
    if f[0] == "AE":
        return {"op": "AE", "wp": f[1], "so": f[2] == "1", "nf": f[3], "driver": f[4], "props": props(f[5]), "wfn": dec_wfn_E(f[6], lay),
                "rr": dec_rr_E(f[7], lay), "stdout": f[8] == "1", "files": None if f[9] == "N" else [int(x) for x in f[9].split(".") if x],
                "lay": lay}
    raise ValueError(line)


def build_props_E(p, lay):
    d = {}
    if p["natom"] is not None:
        d["calcinfo_natom"] = p["natom"]
    for n, sh in p["arr"]:
        d[n] = build_layout(n, sh, lay["properties." + n])
    return d


def build_AE(spec):
    lay = spec["lay"]
    d = build_A(spec)
    d["properties"] = build_props_E(spec["props"], lay)
    if not isinstance(spec["rr"], str):
        d["return_result"] = build_layout("return_result", spec["rr"], lay["return_result"])
    else:
        d["return_result"] = RR_F if spec["rr"] == "f" else dict(RR_D)
    if spec["wfn"] is not None:
        w = build_wfn(spec["wfn"])
        for n, sh in spec["wfn"]["arr"]:
            w[n] = build_layout(n, sh, lay["wavefunction." + n])
        d["wavefunction"] = w
    return d


def canon_fields_E(d, names):
    return ",".join(f"{n}:{enc_shape(shape_of(d[n]))}:{tok(d[n])}" for n in names if d.get(n) is not None)


def canon_props_E(p):
    d = p.dict()
    return f"{enc_optnat(d.get('calcinfo_natom'))}~{canon_fields_E(d, PROP_ARRS)}"


def canon_wfn_E(w):
    if w is None:
        return "N"
    d = w.dict()
    r = "-" if d.get("restricted") is None else ("1" if d["restricted"] else "0")
    b = "-" if getattr(w, "basis", None) is None else str(w.basis.nbf)
    ptrs = [(n, d[n]) for n in PTR_KEYS if d.get(n) is not None]
    return f"{r}~{b}~{canon_fields_E(d, ARR_KEYS)}~" + ",".join(f"{p}>{t}" for p, t in ptrs)


def canon_rr_E(v):
    if isinstance(v, dict):
        return "d:" + tok_dict(v)
    if isinstance(v, np.ndarray):
        return f"{enc_shape(list(v.shape))}:{tok(v)}"
    return "f:" + tok(np.array(v))


def canon_AE(r):
    files = ",".join(f"{file_id(k)}:{0 if v is None else 1}" for k, v in r.native_files.items())
    return (f"ok props={canon_props_E(r.properties)} wfn={canon_wfn_E(r.wavefunction)} rr={canon_rr_E(r.return_result)} "
            f"stdout={0 if r.stdout is None else 1} files={files}")


def elements_kept(out, sect, obj_dict, names):
    """the statement itself: every retained array holds exactly the supplied row-major elements"""
    bad = []
    for n in names:
        v = obj_dict.get(n)
        if v is None:
            continue
        got = np.ascontiguousarray(np.asarray(v, dtype=np.float64)).ravel()
        if not np.array_equal(got, content(n, got.size)):
            bad.append(f"{sect}.{n}")
    return bad


# ----------------------------------------------------------------------------------------------
# generators


def flavour(rng, target, bad):
    """a supplied shape for an array whose implied shape is `target`"""
    size = prod(target)
    if bad:
        c = rng.random()
        if c < 0.4:
            return [size + 1]
        if c < 0.6 and size >= 2:
            return [size - 1]
        if c < 0.8 and len(target) >= 1:
            t = list(target)
            i = rng.randrange(len(t))
            t[i] += 1
            if prod(t) != size:
                return t
            return [size + 2]
        return [size + 3]
    c = rng.random()
    if c < 0.4:
        return [size]
    if c < 0.75:
        return list(target)
    if c < 0.9:
        return [size, 1]
    return [1, size]


def gen_shell(rng, bad=False):
    h = rng.choice("sc")
    if rng.random() < 0.3:
        am = rng.choice([[0, 1], [0, 1], [0, 1, 2], [1, 2]])
        ne = rng.randint(1, 3)
        rows = [ne] * len(am)
        if bad:
            if rng.random() < 0.5:
                rows = rows + [ne]
            else:
                rows[rng.randrange(len(rows))] = ne + 1
    else:
        am = [rng.choice([0, 0, 0, 1, 1, 2, 2, 3, 4])]
        ne = rng.randint(1, 3)
        rows = [ne] * rng.randint(1, 3)
        if bad:
            rows[rng.randrange(len(rows))] = ne + 1
    return (h, am, ne, rows)


def gen_basis(rng, mode=None):
    """mode: None (random), 'ok'"""
    nc = rng.randint(1, 3)
    badshell = mode != "ok" and rng.random() < 0.05
    centers = []
    for cid in range(nc):
        shells = [gen_shell(rng) for _ in range(rng.choice([1, 1, 2, 3]))]
        centers.append((cid, shells))
    if badshell:
        cid = rng.randrange(nc)
        k = rng.randrange(len(centers[cid][1]))
        centers[cid][1][k] = gen_shell(rng, bad=True)
    natoms = rng.choice([0, 1, 1, 2, 2, 3, 4]) if mode != "ok" else rng.randint(1, 3)
    am = [rng.randrange(nc) for _ in range(natoms)]
    if mode != "ok" and rng.random() < 0.05:
        am.append(nc + 1)
    b = {"nbf": None, "atom_map": am, "centers": centers}
    be = basis_expect(b)
    true_nbf = be[1] if be[0] == "ok" else rng.randint(1, 9)
    c = rng.random()
    if c < 0.4:
        b["nbf"] = None
    elif c < 0.85 or mode == "ok":
        b["nbf"] = true_nbf
    else:
        b["nbf"] = max(0, true_nbf + rng.choice([-1, 1, 2, -2, 7]))
        if b["nbf"] == true_nbf:
            b["nbf"] = true_nbf + 1
    return b


def gen_wfn(rng, restricted, clean):
    basis = gen_basis(rng, "ok" if clean or rng.random() < 0.8 else None)
    if not basis["atom_map"]:  # wavefunctions over an empty basis (nbf = 0) are not generated
        basis["atom_map"] = [basis["centers"][0][0]]
        basis["nbf"] = None
    be = basis_expect(basis)
    nbf = be[1] if be[0] == "ok" else rng.randint(1, 6)
    nmo = rng.randint(0, 3) if rng.random() < 0.3 else max(1, nbf - rng.randint(0, 1))
    pa = rng.choice([0.15, 0.35, 0.7])
    arrs = []
    for k in ARR_KEYS:
        if rng.random() >= pa:
            continue
        base = k[:-2]
        bad = (not clean) and rng.random() < 0.12
        if base in ("h_core", "h_effective", "scf_density", "scf_fock", "scf_coulomb", "scf_exchange"):
            s = flavour(rng, [nbf, nbf], bad)
        elif base in ("scf_orbitals", "localized_orbitals"):
            s = flavour(rng, [nbf, nmo], bad)
        elif base == "localized_fock":
            s = flavour(rng, [nmo, nmo], bad)
        else:
            s = flavour(rng, [nmo], False)
        arrs.append((k, s))
    have = [k for k, _ in arrs]
    pp = rng.choice([0.2, 0.5, 0.9])
    ptrs = []
    for p in PTR_KEYS:
        if rng.random() >= pp:
            continue
        natural = "scf_" + p
        c = rng.random()
        if natural in have and c < 0.7:
            t = natural
        elif have and c < 0.85:
            t = rng.choice(have)  # crossed / other spin
        elif (not clean) and c < 0.93:
            t = rng.choice(ARR_KEYS)  # possibly dangling
        elif natural in have:
            t = natural
        else:
            continue
        ptrs.append((p, t))
    w = {"restricted": restricted, "basis": basis, "arr": arrs, "ptr": ptrs}
    if not clean and rng.random() < 0.01:
        w["basis"] = None
    if not clean and rng.random() < 0.01:
        w["restricted"] = None
    return w


def gen_props(rng, clean):
    natom = rng.choice([None, 0, 1, 2, 3, 3, 4])
    pa = rng.choice([0.1, 0.3, 0.6])
    arrs = []
    for n in PROP_ARRS:
        if rng.random() >= pa:
            continue
        if (n.endswith("_gradient") or n.endswith("_hessian")) and natom is None and (clean or rng.random() < 0.7):
            continue
        nat = natom if natom is not None else 2
        imp = prop_implied(n, nat)
        bad = (not clean) and rng.random() < 0.12
        s = flavour(rng, imp, bad)
        arrs.append((n, s))
    return {"natom": natom, "arr": arrs}


def gen_rr(rng, driver, clean):
    if driver == "energy":
        return "f" if rng.random() < 0.8 else [rng.randint(2, 4)]  # no shape implied: 1-D only
    if driver == "properties":
        return "d" if rng.random() < 0.8 else "f"
    bad = (not clean) and rng.random() < 0.15
    k = rng.randint(0, 4)
    if driver == "gradient":
        s = flavour(rng, [k, 3], bad)
        if not bad and rng.random() < 0.15:
            s = [3, k]
        return s
    if not clean and rng.random() < 0.05:
        return "f"
    return flavour(rng, [3 * k, 3 * k] if rng.random() < 0.7 else [k + 1, k + 1], bad)


def gen_A(rng, wp, so, nf, restricted, driver):
    clean = rng.random() < 0.55
    spec = {"op": "A", "wp": wp, "so": so, "nf": nf, "driver": driver}
    spec["props"] = gen_props(rng, clean)
    spec["wfn"] = None if rng.random() < 0.08 else gen_wfn(rng, restricted, clean)
    spec["rr"] = gen_rr(rng, driver, clean)
    spec["stdout"] = rng.random() < 0.8
    c = rng.random()
    if c < 0.25:
        spec["files"] = None
    else:
        spec["files"] = [i for i in (0, 1, 2) if rng.random() < 0.5]
        rng.shuffle(spec["files"])
    return spec


def pick_lay(rng, shape):
    for _ in range(8):
        ly = rng.choice(LAYOUTS)
        if lay_ok(shape, ly):
            return ly
    return "c"


def refactor_shape(rng, sh):
    """sometimes supply a 2-D array under another factorisation of the same size (transposed shape, (size/d, d)):
    reshaping it to the implied shape must still go through the row-major element order, whatever the memory layout"""
    if len(sh) != 2 or prod(sh) == 0 or rng.random() >= 0.3:
        return sh
    a, b = sh
    cands = [[b, a]] + [[a * b // d, d] for d in (2, 3) if (a * b) % d == 0]
    cands = [c for c in cands if c != [a, b]]
    return rng.choice(cands) if cands else sh


def add_layouts(rng, spec):
    lay = {}
    spec["props"]["arr"] = [(n, refactor_shape(rng, sh)) for n, sh in spec["props"]["arr"]]
    if spec.get("wfn") is not None:
        spec["wfn"]["arr"] = [(n, refactor_shape(rng, sh)) for n, sh in spec["wfn"]["arr"]]
    if "rr" in spec and not isinstance(spec["rr"], str):
        spec["rr"] = refactor_shape(rng, spec["rr"])
    for n, sh in spec["props"]["arr"]:
        lay["properties." + n] = pick_lay(rng, sh)
    if spec.get("wfn") is not None:
        for n, sh in spec["wfn"]["arr"]:
            lay["wavefunction." + n] = pick_lay(rng, sh)
    if "rr" in spec and not isinstance(spec["rr"], str):
        lay["return_result"] = pick_lay(rng, spec["rr"])
    spec["lay"] = lay
    return spec


def gen_cases(ctx: Ctx):
    rng = ctx.rng
    K = ctx.scale(30, 300)
    for wp, so, nf, restricted, driver in itertools.product(WPS, (True, False), NFS, (True, False), DRIVERS):
        for _ in range(K):
            yield gen_A(rng, wp, so, nf, restricted, driver)
    KE = ctx.scale(8, 80)
    for wp, so, nf, restricted, driver in itertools.product(WPS, (True, False), NFS, (True, False), DRIVERS):
        for _ in range(KE):
            spec = gen_A(rng, wp, so, nf, restricted, driver)
            spec["op"] = "AE"
            yield add_layouts(rng, spec)
    for _ in range(ctx.scale(800, 8000)):
        yield add_layouts(rng, {"op": "PE", "props": gen_props(rng, rng.random() < 0.6)})
    for _ in range(ctx.scale(2000, 20000)):
        yield {"op": "B", "basis": gen_basis(rng)}
    for _ in range(ctx.scale(1500, 15000)):
        yield {"op": "P", "props": gen_props(rng, rng.random() < 0.4)}
    for pol in TPS:
        for n in range(0, 7):
            yield {"op": "T", "policy": pol, "n": n}


# ----------------------------------------------------------------------------------------------
# per-op checks


def viol(out, kind, line, observed=None, expected=None, detail="", fields=None):
    case = {"line": line}
    if fields is not None:
        case["fields"] = sorted(fields)
    out.violations.append(Finding(kind, case, observed=observed, expected=expected, detail=detail))


def hess_inplace_class(spec, obs):
    """(labels a regression of 5bfcfbf) driver hessian, return_result an array of square size supplied in a non-C-contiguous
    layout, bare AttributeError"""
    if spec.get("op") != "AE" or spec["driver"] != "hessian" or isinstance(spec["rr"], str) or obs != "err other:AttributeError":
        return False
    size = prod(spec["rr"])
    return spec["lay"].get("return_result") in ("f", "s") and isqrt(size) ** 2 == size


def data_preserved(obj_dict, supplied):
    """every retained array has the supplied contents (row-major order)"""
    for n, v in supplied.items():
        if obj_dict.get(n) is not None:
            if not np.array_equal(np.asarray(obj_dict[n], dtype=float).ravel(), np.asarray(v, dtype=float).ravel()):
                return n
    return None


def check_A(ctx, out, spec, line, model_line):
    from qcelemental.models import AtomicResult
    from qcelemental.models.results import WavefunctionProperties

    kwargs = build_A(spec)
    try:
        r = AtomicResult(**kwargs)
        obs = canon_A(r)
    except Exception as e:  # noqa
        r = None
        obs = canon_err(e)
    out.evaluations += 1
    out.count("op:A")
    out.count("A:outcome:" + " ".join(obs.split()[:2] if obs.startswith("err") else ["ok"]))
    out.count("A:wp:" + spec["wp"])
    # ---- correspondence
    if model_line is not None and canon_model_line(model_line) != obs:
        out.mismatches.append(Finding("mismatch", {"line": line}, observed=obs, expected=model_line, detail="implementation vs Lean model"))
    if not in_quantifier_A(spec):
        out.count("A:outside_quantifier(correspondence only)")
        return
    exp = expect_A(spec)
    we = exp["wfn"]
    nontrivial = obs.startswith("err") or (spec["wfn"] is not None and (spec["wp"] != "all" or spec["wfn"]["restricted"])) or not spec["so"] or spec["nf"] != "all"
    if nontrivial:
        out.nontrivial(line)
    out.sample({"input": line, "impl": obs, "model": model_line})
    # ---- oracle: verdict and error class
    if obs.startswith("err"):
        cls = obs.split()[1]
        if cls not in ("Validation", "NbfMismatch"):
            if cls == "KeyError" and not we["none"] and we["dangling"] and spec["wp"] in SELECT:
                viol(out, KIND_DANGLING, line, obs, "err Validation (pydantic ValidationError)",
                     f"pointer(s) {we['dangling']} name arrays that are not supplied (after the restricted filter); KeyError escapes instead of a ValidationError")
            else:
                viol(out, "oracle:error_class", line, obs, "accepted or ValidationError", "an exception that is not a ValidationError escaped")
            return
        if exp["verdict"] == "accept":
            viol(out, "oracle:spurious_rejection", line, obs, exp["canon"], "every supplied array fits, pointers resolve, basis consistent — but construction was rejected")
        else:
            out.count("A:rejected_as_expected")
        return
    # accepted: what no protocol governs is retained exactly as given (stdout, native files and the wavefunction are the only
    # things the protocols may drop)
    kept_text = []
    if r.stdout is not None and r.stdout != STDOUT_TEXT:
        kept_text.append(f"stdout retained as {r.stdout!r}, supplied {STDOUT_TEXT!r}")
    for k_, v_ in (r.native_files or {}).items():
        if v_ is not None and str(k_).startswith("file") and v_ != native_content(int(str(k_)[4:])):
            kept_text.append(f"native file {k_!r} retained as {v_!r}")
    if kept_text:
        viol(out, "oracle:retained_text_altered", line, "; ".join(kept_text)[:400], "verbatim", "a retained stdout / native file does not hold the supplied text verbatim")
    if r.stderr != STDERR_TEXT or dict(r.extras) != EXTRAS_GIVEN:
        viol(out, "oracle:ungoverned_field_dropped", line, f"stderr={r.stderr!r} extras={r.extras!r}", f"stderr={STDERR_TEXT!r} extras={EXTRAS_GIVEN!r}",
             f"a field that no protocol governs was altered or dropped (protocols: wavefunction={spec['wp']}, stdout={spec['so']}, native_files={spec['nf']})")
    if exp["verdict"] == "reject":
        m = set(exp["misfits"])
        dip = {x for x in m if x.startswith("properties.") and x.split(".")[1] in UNVALIDATED_DIPOLES}
        ao = {x for x in m if x.startswith("wavefunction.") and x.split(".")[1] in UNVALIDATED_AO}
        loc = {x for x in m if x.startswith("wavefunction.") and x.split(".")[1] in UNVALIDATED_LOCORB}
        rest = m - dip - ao - loc
        if loc:
            viol(out, KIND_LOCORB, line, obs, "rejection", f"{sorted(loc)} cannot be shaped (nbf, -1) but accepted (no validator registered)", fields=loc)
        if rest:
            viol(out, "oracle:accepts_misfit", line, obs, "rejection", f"accepted although {sorted(rest)} do(es) not fit")
        if dip:
            viol(out, KIND_DIPOLE, line, obs, "rejection", f"{sorted(dip)} wrongly sized but accepted (no validator registered)")
        if ao:
            viol(out, KIND_AO, line, obs, "rejection", f"{sorted(ao)} wrongly sized but accepted (no validator registered)")
        return
    # accepted and expected to be accepted: exact retention and shapes
    obs_cmp = strip_placeholders(obs)
    if obs_cmp != exp["canon"]:
        diff = canon_diff(obs_cmp, exp["canon"])
        dipf = [x for x in diff if x.startswith("properties.") and x.split(".")[1] in UNVALIDATED_DIPOLES]
        aof = [x for x in diff if x.startswith("wavefunction.") and x.split(".")[1] in UNVALIDATED_AO]
        locf = [x for x in diff if x.startswith("wavefunction.") and x.split(".")[1] in UNVALIDATED_LOCORB]
        rest = [x for x in diff if x not in dipf and x not in aof and x not in locf]
        if locf:
            viol(out, KIND_LOCORB, line, obs, exp["canon"], f"{locf} not reshaped to (nbf, -1)", fields=locf)
        if dipf:
            viol(out, KIND_DIPOLE, line, obs, exp["canon"], f"{dipf} not reshaped to (3,)")
        if aof:
            viol(out, KIND_AO, line, obs, exp["canon"], f"{aof} not reshaped to (nbf, nbf)")
        if rest:
            viol(out, "oracle:retention", line, obs, exp["canon"], f"retained keys / shapes differ from what the protocols and shape rules prescribe: {rest}")
            return
    out.count("A:accepted_as_expected")
    # contents unchanged
    rd = r.dict()
    bad = data_preserved(rd["properties"], {n: v for n, v in kwargs["properties"].items() if n != "calcinfo_natom"})
    if bad:
        viol(out, "oracle:contents_changed", line, detail=f"properties.{bad} contents changed")
    if r.wavefunction is not None:
        wd = rd["wavefunction"]
        bad = data_preserved(wd, {n: v for n, v in kwargs["wavefunction"].items() if n in ARR_KEYS})
        if bad:
            viol(out, "oracle:contents_changed", line, detail=f"wavefunction.{bad} contents changed")
    if isinstance(r.return_result, np.ndarray):
        if not np.array_equal(r.return_result.ravel(), np.asarray(kwargs["return_result"], dtype=float).ravel()):
            viol(out, "oracle:contents_changed", line, detail="return_result contents changed")
    elif r.return_result != kwargs["return_result"]:
        viol(out, "oracle:contents_changed", line, detail="return_result changed")
    if r.stdout is not None and r.stdout != kwargs.get("stdout"):
        viol(out, "oracle:contents_changed", line, detail="stdout changed")
    for k, v in r.native_files.items():
        if v is not None and v != kwargs.get("native_files", {}).get(k):
            viol(out, "oracle:contents_changed", line, detail=f"native file {k} changed")
    # ---- re-validation of the dumped object (dict route and JSON route)
    for route in ("dict", "json"):
        try:
            r2 = AtomicResult(**rd) if route == "dict" else AtomicResult.parse_raw(r.json())
            obs2 = canon_A(r2)
            d2 = r2.dict()
        except Exception as e:  # noqa
            viol(out, "oracle:revalidate", line, canon_err(e), obs, f"re-validating the dumped object ({route} route) fails")
            continue
        out.count("A:revalidated:" + route)
        changed = dump_diff(rd, d2)
        if not changed:
            continue
        rest = []
        dipf, aof = [], []
        for c in changed:
            sect, _, name = c.partition(".")
            if c == "native_files" and spec["nf"] == "input" and spec["files"] is None and rd["native_files"] == {} and d2["native_files"] == {"input": None}:
                viol(out, KIND_NATIVE_REVAL, line, "native_files {} -> {'input': None}", "unchanged", f"re-validation ({route} route) adds a None placeholder")
            elif route == "json" and sect == "properties" and name in UNVALIDATED_DIPOLES and flat_same(rd[sect][name], d2[sect].get(name)):
                dipf.append(c)
            elif route == "json" and sect == "wavefunction" and name in UNVALIDATED_AO and flat_same(rd[sect][name], d2[sect].get(name)):
                aof.append(c)
            elif route == "json" and sect == "wavefunction" and name in UNVALIDATED_LOCORB and flat_same(rd[sect][name], d2[sect].get(name)):
                viol(out, KIND_LOCORB, line, f"after JSON round trip {c} comes back flat", "unchanged",
                     "unvalidated array is not reshaped when its stored (flat) form is validated again", fields=[c])
            elif route == "json" and sect == "wavefunction" and name.startswith("localized_fock") and flat_same(rd[sect][name], d2[sect].get(name)):
                out.count("A:json_flattens_localized_fock(no demand)")
            else:
                rest.append(c)
        if dipf:
            viol(out, KIND_DIPOLE, line, f"after JSON round trip {dipf} come back flat", "unchanged", "unvalidated array is not reshaped when its stored (flat) form is validated again")
        if aof:
            viol(out, KIND_AO, line, f"after JSON round trip {aof} come back flat", "unchanged", "unvalidated array is not reshaped when its stored (flat) form is validated again")
        if rest:
            viol(out, "oracle:revalidate", line, obs2, obs, f"re-validating the dumped object ({route} route) changes {rest}")
    # ---- object route: a WavefunctionProperties instance instead of a dict gives the same result
    if spec["wfn"] is not None:
        try:
            wobj = WavefunctionProperties(**build_wfn(spec["wfn"]))
        except Exception:  # noqa
            wobj = None
        if wobj is not None:
            out.count("A:object_route")
            try:
                r3 = AtomicResult(**build_A(spec, wfn_override=wobj))
                obs3 = canon_A(r3)
                same3 = deep_equal(rd, r3.dict())
            except Exception as e:  # noqa
                obs3, same3 = canon_err(e), False
            if not same3:
                viol(out, "oracle:object_route", line, obs3, obs, "passing a WavefunctionProperties object instead of a dict gives a different result")


def check_B(ctx, out, spec, line, model_line):
    from qcelemental.models import BasisSet

    b = spec["basis"]
    try:
        r = BasisSet(**build_basis(b))
        obs = f"ok {r.nbf}"
    except Exception as e:  # noqa
        r, obs = None, canon_err(e)
    out.evaluations += 1
    out.count("op:B")
    out.count("B:outcome:" + " ".join(obs.split()[:2] if obs.startswith("err") else ["ok"]))
    if model_line is not None and canon_model_line(model_line) != obs:
        out.mismatches.append(Finding("mismatch", {"line": line}, observed=obs, expected=model_line, detail="implementation vs Lean model"))
    exp = basis_expect(b)
    if b["nbf"] is not None or exp[0] == "reject" or any(len(am) > 1 for _c, sh in b["centers"] for _h, am, _n, _r in sh):
        out.nontrivial(line)
    if obs.startswith("err"):
        if obs.split()[1] not in ("Validation", "NbfMismatch"):
            viol(out, "oracle:error_class", line, obs, "accepted or ValidationError")
        elif exp[0] == "ok":
            viol(out, "oracle:nbf", line, obs, f"ok {exp[1]}", "a consistent basis set was rejected")
        return
    if exp[0] == "reject":
        viol(out, "oracle:nbf", line, obs, "rejection", "inconsistent basis set (nbf / centres / contraction lengths) accepted")
        return
    if r.nbf != exp[1]:
        viol(out, "oracle:nbf", line, obs, f"ok {exp[1]}", "nbf differs from the count implied by the shells")
    # per-shell counts
    for (cid, shells) in b["centers"]:
        for k, (h, am, _ne, _rows) in enumerate(shells):
            got = r.center_data[f"c{cid}"].electron_shells[k].nfunctions()
            if got != nfunc(h, am):
                viol(out, "oracle:nfunctions", line, got, nfunc(h, am), f"shell c{cid}[{k}] {h} {am}")
    try:
        r2 = BasisSet(**r.dict())
    except Exception as e:  # noqa
        viol(out, "oracle:revalidate", line, canon_err(e), "the same basis set", "re-validating the dumped basis set is refused")
        return
    if not deep_equal(r.dict(), r2.dict()):
        viol(out, "oracle:revalidate", line, detail="re-validating the dumped basis set changes it")


def check_P(ctx, out, spec, line, model_line):
    from qcelemental.models import AtomicResultProperties

    p = spec["props"]
    kw = build_props(p)
    try:
        r = AtomicResultProperties(**kw)
        obs = "ok " + canon_props(r)
    except Exception as e:  # noqa
        r, obs = None, canon_err(e)
    out.evaluations += 1
    out.count("op:P")
    out.count("P:outcome:" + " ".join(obs.split()[:2] if obs.startswith("err") else ["ok"]))
    if model_line is not None and canon_model_line(model_line) != obs:
        out.mismatches.append(Finding("mismatch", {"line": line}, observed=obs, expected=model_line, detail="implementation vs Lean model"))
    if p["arr"]:
        out.nontrivial(line)
    misfit, shapes = [], []
    for n, s in p["arr"]:
        imp = prop_implied(n, p["natom"])
        if imp == "need-natom" or (imp is not None and prod(imp) != prod(s)):
            misfit.append(n)
        else:
            shapes.append((n, imp if imp is not None else s))
    expc = f"ok {enc_optnat(p['natom'])}~{enc_fields(shapes)}"
    if obs.startswith("err"):
        if obs.split()[1] != "Validation":
            viol(out, "oracle:error_class", line, obs, "accepted or ValidationError")
        elif not misfit:
            viol(out, "oracle:spurious_rejection", line, obs, expc, "all arrays fit but construction was rejected")
        return
    if misfit:
        dip = [n for n in misfit if n in UNVALIDATED_DIPOLES]
        rest = [n for n in misfit if n not in UNVALIDATED_DIPOLES]
        if rest:
            viol(out, "oracle:accepts_misfit", line, obs, "rejection", f"accepted although {rest} do(es) not fit")
        if dip:
            viol(out, KIND_DIPOLE, line, obs, "rejection", f"{dip} wrongly sized but accepted (no validator registered)")
        return
    if obs != expc:
        diff = canon_diff("ok props=" + obs[3:], "ok props=" + expc[3:])
        dipf = [x for x in diff if x.split(".")[1] in UNVALIDATED_DIPOLES]
        rest = [x for x in diff if x not in dipf]
        if dipf:
            viol(out, KIND_DIPOLE, line, obs, expc, f"{dipf} not reshaped to (3,)")
        if rest:
            viol(out, "oracle:retention", line, obs, expc, f"shapes differ from the implied ones: {rest}")
            return
    bad = data_preserved(r.dict(), {n: v for n, v in kw.items() if n != "calcinfo_natom"})
    if bad:
        viol(out, "oracle:contents_changed", line, detail=f"{bad} contents changed")
    r2 = AtomicResultProperties(**r.dict())
    if not deep_equal(r.dict(), r2.dict()):
        viol(out, "oracle:revalidate", line, detail="re-validating the dumped properties changes them")


def check_T(ctx, out, spec, line, model_line):
    from qcelemental.models import OptimizationResult

    n, pol = spec["n"], spec["policy"]
    rng_protocols = [{"stdout": bool(i % 2), "native_files": NFS[i % 3]} for i in range(n)]
    traj = []
    for i in range(n):
        traj.append({"molecule": mol(), "driver": "energy", "model": {"method": "UFF"}, "return_result": float(i), "success": True,
                     "properties": {}, "provenance": {"creator": "qcel"}, "stdout": f"step {i}", "protocols": rng_protocols[i],
                     "native_files": {"input": f"in {i}", "file1": "x"}})
    d = {"initial_molecule": mol(), "final_molecule": mol(), "trajectory": traj, "energies": [float(i) for i in range(n)], "success": True,
         "provenance": {"creator": "qcel"}, "input_specification": {"model": {"method": "UFF"}}, "protocols": {"trajectory": pol}}
    try:
        r = OptimizationResult(**d)
        idx = [int(t.return_result) for t in r.trajectory]
        obs = "ok " + ",".join(map(str, idx))
    except Exception as e:  # noqa
        r, obs = None, canon_err(e)
    out.evaluations += 1
    out.count("op:T")
    out.count("T:outcome:" + " ".join(obs.split()[:2] if obs.startswith("err") else ["ok"]))
    out.nontrivial(line)
    if model_line is not None and canon_model_line(model_line) != obs:
        out.mismatches.append(Finding("mismatch", {"line": line}, observed=obs, expected=model_line, detail="implementation vs Lean model"))
    if pol == "all":
        want = list(range(n))
    elif pol == "none" or n == 0:
        want = []
    elif pol == "final":
        want = [n - 1]
    else:
        want = [0] if n == 1 else [0, n - 1]
    expc = "ok " + ",".join(map(str, want))
    if obs.startswith("err"):
        if obs == "err IndexError" and n == 0 and pol in ("final", "initial_and_final"):
            viol(out, KIND_TRAJ_EMPTY, line, obs, expc, "an empty trajectory under final / initial_and_final raises IndexError")
        else:
            viol(out, "oracle:error_class" if obs.split()[1] != "Validation" else "oracle:spurious_rejection", line, obs, expc)
        return
    if obs != expc:
        if pol == "initial_and_final" and n == 1 and obs == "ok 0,0":
            viol(out, KIND_TRAJ_SINGLE, line, obs, expc, "the single step of a one-step trajectory is retained twice")
        else:
            viol(out, "oracle:trajectory_selects", line, obs, expc, "the retained steps are not the selected part of the trajectory")
            return
    # retained steps unchanged (each equals the step validated on its own)
    from qcelemental.models import AtomicResult

    for t in r.trajectory:
        alone = AtomicResult(**traj[int(t.return_result)])
        if not deep_equal(t.dict(), alone.dict()):
            viol(out, "oracle:contents_changed", line, detail=f"retained step {int(t.return_result)} differs from the step validated alone")
    r2 = OptimizationResult(**r.dict())
    if not deep_equal(r.dict(), r2.dict()):
        viol(out, "oracle:revalidate", line, detail="re-validating the dumped optimisation result changes it: " + str(first_diff(r.dict(), r2.dict())))
    # every step is a result object in its own right: a step whose arrays do not fit is refused wherever it stands and whatever the
    # policy would have kept ("reshapes every array it is given ... or rejects it if the size does not fit")
    import copy as _copy

    for pos in range(n):
        for what in ("return_result", "gradient"):
            bad = _copy.deepcopy(d)
            step = bad["trajectory"][pos]
            if what == "return_result":
                step["driver"] = "gradient"
                step["return_result"] = [0.1 * k for k in range(7)]  # 7 numbers cannot be (-1, 3)
            else:
                step["properties"] = {"calcinfo_natom": 2, "return_gradient": [0.1 * k for k in range(5)]}  # 5 numbers cannot be (2, 3)
            try:
                OptimizationResult(**bad)
                viol(out, "oracle:accepts_misfit", line, f"accepted with a misfitting {what} in step {pos} of {n}", "rejection",
                     f"trajectory policy {pol}: a step whose {what} does not fit was accepted")
            except Exception as e:  # noqa
                if canon_err(e).split()[1] != "Validation":
                    viol(out, "oracle:error_class", line, canon_err(e), "ValidationError", f"misfitting {what} in step {pos}: not a ValidationError")
            out.evaluations += 1


def check_E(ctx, out, spec, line, model_line):
    """AE / PE: correspondence on shapes AND element digests; oracle: retained arrays hold the supplied elements, and
    validating the dumped object again reproduces the same line (elements included)"""
    from qcelemental.models import AtomicResult, AtomicResultProperties

    op = spec["op"]
    kw_wfn = kw_rr = None
    if op == "AE":
        kwargs = build_AE(spec)
        kw_props, kw_wfn, kw_rr = kwargs["properties"], kwargs.get("wavefunction"), kwargs["return_result"]
    else:
        kw_props = build_props_E(spec["props"], spec["lay"])
    try:
        if op == "AE":
            r = AtomicResult(**kwargs)
            obs = canon_AE(r)
        else:
            r = AtomicResultProperties(**kw_props)
            obs = "ok " + canon_props_E(r)
    except Exception as e:  # noqa
        r, obs = None, canon_err(e)
    out.evaluations += 1
    out.count("op:" + op)
    out.count(op + ":outcome:" + " ".join(obs.split()[:2] if obs.startswith("err") else ["ok"]))
    for ly in spec["lay"].values():
        out.count("E:layout:" + ly)
    if model_line is not None and canon_model_line(model_line) != obs:
        out.mismatches.append(Finding("mismatch", {"line": line}, observed=obs, expected=model_line, detail="implementation vs Lean element model"))
    if op == "AE" and not in_quantifier_A(spec):
        out.count("AE:outside_quantifier(correspondence only)")
        return
    if spec["lay"]:
        out.nontrivial(line)
    out.sample({"input": line, "impl": obs, "model": model_line}, limit=9)
    # the caller's own arrays are left as they were (shape and elements), whether the construction succeeded or not
    touched = []
    for sect, d, items in (("properties", kw_props, spec["props"]["arr"]),
                           ("wavefunction", kw_wfn or {}, (spec.get("wfn") or {}).get("arr", []) if op == "AE" else []),
                           ("", {"return_result": kw_rr}, [("return_result", spec["rr"])] if op == "AE" and not isinstance(spec.get("rr"), str) else [])):
        for n, sh in items:
            v = d.get(n)
            if isinstance(v, np.ndarray) and (list(v.shape) != list(sh) or not np.array_equal(np.ascontiguousarray(v).ravel(), content(n, prod(sh)))):
                touched.append((sect + "." + n).lstrip("."))
    if touched:
        viol(out, KIND_CALLER_MODIFIED, line, f"{touched} changed in place", "inputs untouched",
             "validation modified the array object the caller passed in (shape or elements)", fields=touched)
    if r is None and obs.startswith("err Validation "):
        # "reshapes every array it is given ... or rejects it if the size does not fit": a rejection must be explained by an array
        # whose SIZE does not fit, whatever factorisation or memory layout it was supplied in
        natom = spec["props"]["natom"]
        fitting = []
        for loc in obs[len("err Validation "):].split(","):
            name = loc[len("properties."):] if loc.startswith("properties.") else (loc if op == "PE" else None)
            sh = dict(spec["props"]["arr"]).get(name) if name else None
            if sh is not None:
                imp = prop_implied(name, natom)
                if imp != "need-natom" and (imp is None or prod(imp) == prod(sh)):
                    fitting.append(f"{name} supplied as {sh} in layout '{spec['lay'].get('properties.' + name)}' (implied {imp})")
            if loc == "return_result" and op == "AE" and not isinstance(spec.get("rr"), str) and rr_expect(spec["driver"], spec["rr"]) != "reject" \
                    and not hess_inplace_class(spec, obs):
                fitting.append(f"return_result supplied as {spec['rr']} in layout '{spec['lay'].get('return_result')}' for driver {spec['driver']}")
        if fitting:
            viol(out, "oracle:spurious_rejection", line, obs, "accepted and reshaped", "rejected although the size fits: " + "; ".join(fitting))
    if r is None:
        if hess_inplace_class(spec, obs):
            viol(out, KIND_HESS_INPLACE, line, obs, model_line or "accepted, return_result reshaped to (k, k)",
                 f"hessian return_result of shape {spec['rr']} in layout '{spec['lay']['return_result']}': AttributeError escapes instead of a reshape "
                 "(or a ValidationError)", fields=["return_result"])
        elif obs.split()[1] not in ("Validation", "NbfMismatch"):
            viol(out, "oracle:error_class", line, obs, "accepted or ValidationError", "an exception that is not a ValidationError escaped")
        return
    rd = r.dict()
    if op == "AE":
        bad = elements_kept(out, "properties", rd["properties"], PROP_ARRS)
        if r.wavefunction is not None:
            bad += elements_kept(out, "wavefunction", rd["wavefunction"], ARR_KEYS)
        if isinstance(r.return_result, np.ndarray):
            got = np.ascontiguousarray(r.return_result).ravel()
            if spec["rr"] == "f":
                if not np.array_equal(got, np.array([RR_F])):
                    bad.append("return_result")
            elif not np.array_equal(got, content("return_result", got.size)):
                bad.append("return_result")
    else:
        bad = elements_kept(out, "properties", rd, PROP_ARRS)
    if bad:
        viol(out, "oracle:elements_changed", line, obs, "row-major elements as supplied",
             f"{bad}: the retained array does not hold the supplied elements in row-major order (layouts {spec['lay']})")
        return
    out.count(op + ":elements_kept")
    try:
        obs2 = canon_AE(AtomicResult(**rd)) if op == "AE" else "ok " + canon_props_E(AtomicResultProperties(**rd))
    except Exception as e:  # noqa
        obs2 = canon_err(e)
    if strip_placeholders(obs2) != strip_placeholders(obs) if op == "AE" else obs2 != obs:
        viol(out, "oracle:revalidate_elements", line, obs2, obs, "validating the dumped object again changes shapes or elements")


CHECK = {"A": check_A, "B": check_B, "P": check_P, "T": check_T, "AE": check_E, "PE": check_E}


def check_translator(ctx, out):
    """the translator's reading of the text against the live classes the cases below run on"""
    try:
        spec = c20_spec.parse_sources(common.REPO)
        bad = c20_spec.cross_check(spec)
    except Exception as e:  # noqa
        bad = [f"translator failed: {type(e).__name__}: {e}"]
    out.count("translator:cross_check_items", 1)
    for b in bad:
        out.mismatches.append(Finding("translator-vs-live-classes", {"line": None}, observed=b, expected="agreement",
                                      detail="harness/c20_spec.py (ast) and the imported classes (__fields__/__validators__) disagree"))
    out.notes.append(f"translator cross-check against live classes: {'agree' if not bad else bad}")
    # the control-flow translator: the translated text is the text of the imported functions, registered on the fields the models say
    try:
        bad2 = c20_flow.cross_check()
    except Exception as e:  # noqa
        bad2 = [f"flow translator failed: {type(e).__name__}: {e}"]
    out.count("translator:flow_cross_check_items", 1)
    for b in bad2:
        out.mismatches.append(Finding("flow-translator-vs-live-classes", {"line": None}, observed=b, expected="agreement",
                                      detail="harness/c20_flow.py (ast of the file text) and the imported validator functions / their registration disagree"))
    out.notes.append(f"flow translator cross-check against live functions: {'agree' if not bad2 else bad2}")


THREEWAY_OPS = ("A", "AE", "B", "T")  # the lines whose model answer involves a validator translated by c20_flow.py


def split_flow(out, line, ml):
    """THREE-WAY: the driver answers with the hand-written model's line when the source-derived evaluator (validator bodies
    translated from the text of the working tree, run in Lean) gives the same line, else with `FLOWDIFF hand=[..] src=[..]`.
    Returns the hand line (compared with the implementation as before); a difference is a broken tie of its own kind, and the
    source-derived line is compared with the implementation too (recorded in the finding)."""
    if ml is None:
        return None
    if line.split("|", 1)[0] in THREEWAY_OPS:
        out.count("threeway:lines")
    if not ml.startswith("FLOWDIFF "):
        return ml
    body = ml[len("FLOWDIFF hand=["):]
    hand, _, src = body.partition("] src=[")
    src = src[:-1] if src.endswith("]") else src
    out.count("threeway:flowdiff")
    out.mismatches.append(Finding("flow-mismatch", {"line": line}, observed=src, expected=hand,
                                  detail="source-derived validator body (Gen/ProtocolsFlow.lean, evaluated in Lean) vs hand-written Lean model"))
    return hand


def run(ctx: Ctx) -> Outcome:
    out = Outcome()
    check_translator(ctx, out)
    lines = [enc(s) for s in gen_cases(ctx)]
    model = [None] * len(lines)
    if ctx.model_available:
        model = ctx.run_model(DRIVER, lines)
    for line, ml in zip(lines, model):
        spec = dec(line)
        CHECK[spec["op"]](ctx, out, spec, line, split_flow(out, line, ml))
    out.exhaustive = False
    out.notes.append("A-cases cover the full 240-combination product of protocols x restricted x driver; payloads sampled from VERIF_SEED; "
                     "T-cases are exhaustive over 4 policies x 0..6 steps")
    return out


def replay(ctx: Ctx, case) -> Outcome:
    out = Outcome()
    line = case["line"] if isinstance(case, dict) else case
    spec = dec(line)
    ml = ctx.run_model(DRIVER, [line])[0] if ctx.model_available else None
    CHECK[spec["op"]](ctx, out, spec, line, split_flow(out, line, ml))
    return out
