"""C20 — result models: array shapes, basis function count, retention protocols, re-validation.

generator -> implementation (real qcelemental, in-process) -> same lines to the Lean driver -> canonicalise -> diff,
plus an independent oracle that states the property on the implementation's outputs.
Every case is one protocol line; the implementation input is rebuilt from the line (so a replay is exact).
"""
from __future__ import annotations

import itertools
import json
import warnings

import numpy as np

from common import Ctx, Finding, Outcome

PROPERTY = "C20"
LEAN_TARGETS = ["QcelVerif.Props.C20", "QcelVerif.Driver.C20"]
DRIVER = "QcelVerif/Driver/C20.lean"
THEOREMS = [
    ("QcelVerif.Protocols.reshapeExact_ok_iff", "reshape to a full shape is accepted iff the sizes agree, and then yields exactly that shape (size preserved)"),
    ("QcelVerif.Protocols.reshapeRows_ok_iff", "reshape(nbf,-1) accepted iff nbf>0 and nbf | size; result [nbf, size/nbf] has the same size"),
    ("QcelVerif.Protocols.reshapeCols3_ok_iff", "reshape(-1,3) accepted iff 3 | size; result [size/3, 3] has the same size"),
    ("QcelVerif.Protocols.reshapeSquare_ok_iff", "hessian return: accepted iff size is a perfect square k*k, result [k,k]"),
    ("QcelVerif.Protocols.props_shapes", "validated properties: gradients are [nat,3], hessians [3nat,3nat], every dipole [3], quadrupole [3,3]; sizes preserved; nothing added or lost"),
    ("QcelVerif.Protocols.props_accept_iff", "properties accepted iff every supplied array fits (derivatives need calcinfo_natom)"),
    ("QcelVerif.Protocols.rr_ok_iff", "return_result: gradient accepted iff 3 | size -> [size/3,3]; hessian iff perfect square -> [k,k]; energy/properties returned unchanged"),
    ("QcelVerif.Protocols.nfunctions_append", "a fused shell has as many functions as its parts together (spherical 2L+1, cartesian (L+1)(L+2)/2 each)"),
    ("QcelVerif.Protocols.cartesian_count", "(L+1)(L+2)/2 is the number of exponent triples (i,j,k) with i+j+k = L"),
    ("QcelVerif.Protocols.nbf_consistent", "an accepted basis carries nbf = count implied by its shells; a supplied nbf is accepted iff equal; absent is filled in"),
    ("QcelVerif.Protocols.validateBasis_idem", "re-validating an accepted basis returns it unchanged"),
    ("QcelVerif.Protocols.wfn_all_keeps", "protocol all: restricted -> exactly the non-beta entries unchanged; unrestricted -> everything unchanged"),
    ("QcelVerif.Protocols.wfn_keeps_exactly", "subset protocols: kept pointers = selected, supplied, non-beta-if-restricted pointers (values unchanged); kept arrays = exactly their targets (unchanged); basis and restricted kept"),
    ("QcelVerif.Protocols.wfn_none_drops", "protocol none keeps no wavefunction"),
    ("QcelVerif.Protocols.wfn_rejects_iff_dangling", "the protocol filter rejects (validation error at `wavefunction`, never another exception) exactly when a selected pointer names an array that is not (any longer) supplied"),
    ("QcelVerif.Protocols.wfn_idempotent", "applying a wavefunction protocol to its own output returns it unchanged (all five protocols)"),
    ("QcelVerif.Protocols.wfn_shapes", "accepted WavefunctionProperties: AO matrices (h_core, h_effective, density, fock, coulomb, exchange) are [nbf,nbf], scf_orbitals [nbf, size/nbf], eigenvalues/occupations flat; sizes preserved; presence and pointers unchanged; nbf = computed"),
    ("QcelVerif.Protocols.validateWfn_idem", "re-validating accepted WavefunctionProperties changes nothing (shapes, pointers, basis)"),
    ("QcelVerif.Protocols.stdout_keeps", "stdout kept unchanged iff requested; idempotent"),
    ("QcelVerif.Protocols.native_keeps", "native files: all -> unchanged, none -> empty, input -> only 'input' with its supplied content; idempotent"),
    ("QcelVerif.Protocols.trajectory_selects", "trajectory: all -> everything, none -> nothing, final -> the last step (or nothing if empty), initial_and_final -> first and last (a trajectory of <= 2 steps unchanged)"),
    ("QcelVerif.Protocols.trajectory_sublist", "whatever a trajectory policy returns is a sub-list of the trajectory (never raises, never duplicates)"),
    ("QcelVerif.Protocols.trajectory_idempotent", "each trajectory policy applied twice equals applied once"),
    ("QcelVerif.Protocols.atomicResult_revalidate", "an accepted AtomicResult dumped and validated again (same protocols, driver) is accepted and identical — unconditionally"),
]
TRUSTED_BASE = [
    "Lean 4.33 kernel; axioms per theorem audited on every run (subset of propext, Classical.choice, Quot.sound)",
    "hand-written model Model/Protocols.lean of results.py / procedures.py / basis.py validators, tied by differential correspondence on the generated stream (retained key sets, shapes, error class and failing locations)",
    "pydantic v1 semantics (field order, failed fields absent from `values`, ValueError collected / other exceptions escape) and numpy reshape rules are folded into the model as parameters and checked differentially",
    "harness/c20.py generators and the Python oracle",
]
ASSUMPTIONS = [
    "arrays are abstracted to their shapes in the model; element values are checked for preservation by the oracle only",
    "return pointers name wavefunction array fields (any of the 22), calcinfo_natom >= 0, well-formed shells (non-empty angular_momentum/exponents/coefficients), protocols objects themselves valid",
    "array inputs are C-contiguous ndarrays or lists; hessian sizes < 2^52 so that int(size**0.5) is the exact integer square root",
    "localized_fock_* (nmo x nmo) has no shape implied by atom count, basis size or driver: no demand; scf_orbitals/localized_orbitals with nbf = 0: no demand (numpy finds (0,-1) ambiguous)",
    "a native_files entry whose value is None ({'input': None}) is a placeholder, not a retained file",
    "for the energy / properties drivers no shape is implied: return values are a float, a dict or a 1-D array; wavefunctions over an empty basis (nbf = 0) are not generated",
]
RULE = (
    "A-cases: full product of 5 wavefunction protocols x stdout on/off x 3 native policies x restricted/unrestricted x 4 drivers "
    "(240 combinations), each with K random payloads: random subset of the 22 wavefunction arrays (flat / shaped / other-shaped / "
    "wrong size), random subset of the 10 pointers (natural, crossed, other-spin or dangling targets), random basis (spherical/cartesian, "
    "fused and general contractions, nbf right/wrong/absent, occasional unknown centre or bad shell), properties arrays with/without "
    "calcinfo_natom, return_result per driver, stdout and native files supplied or not; B-cases: basis sets alone; P-cases: properties alone; "
    "T-cases: 4 trajectory policies x 0..6 steps (exhaustive). A case is distinct by its line; non-trivial when a filter removes something, "
    "an array needs reshaping, or the outcome is a rejection."
)
LEVEL_TEXT = (
    "proof (about the model) of shape rules, exact-retention characterisations, idempotence of every protocol and of re-validation, "
    "nbf consistency; differential correspondence for the tie to the code (retained key sets, shapes, error class, failing locations)"
)
TECHNIQUE = "Lean 4 proof over abstract payloads (key sets, shapes, pointer targets) + line-protocol differential correspondence + independent oracle"

warnings.simplefilter("ignore")

# ----------------------------------------------------------------------------------------------
# static tables (independent of the Lean model; from the field declarations of results.py)

ARR_BASES = ["h_core", "h_effective", "scf_orbitals", "scf_density", "scf_fock", "scf_eigenvalues", "scf_occupations",
             "scf_coulomb", "scf_exchange", "localized_orbitals", "localized_fock"]
PTR_BASES = ["orbitals", "density", "fock", "eigenvalues", "occupations"]
ARR_KEYS = [b + s for b in ARR_BASES for s in ("_a", "_b")]
PTR_KEYS = [b + s for b in PTR_BASES for s in ("_a", "_b")]
PROP_ARRS = ["return_gradient", "return_hessian", "scf_dipole_moment", "scf_quadrupole_moment", "scf_total_gradient",
             "scf_total_hessian", "mp2_dipole_moment", "ccsd_dipole_moment", "ccsd_prt_pr_dipole_moment",
             "ccsdt_dipole_moment", "ccsdtq_dipole_moment"]
WPS = ["all", "orbitals_and_eigenvalues", "occupations_and_eigenvalues", "return_results", "none"]
NFS = ["all", "input", "none"]
DRIVERS = ["energy", "gradient", "hessian", "properties"]
TPS = ["all", "initial_and_final", "final", "none"]
SELECT = {
    "return_results": set(PTR_KEYS),
    "orbitals_and_eigenvalues": {"orbitals_a", "orbitals_b", "eigenvalues_a", "eigenvalues_b"},
    "occupations_and_eigenvalues": {"occupations_a", "occupations_b", "eigenvalues_a", "eigenvalues_b"},
}
# Fields that once lacked a shape validator (repaired in /repo: 763bf2b, c58ba51). A regression there is reported under
# its own kind (KIND_DIPOLE / KIND_AO); everything else under the general kinds.
UNVALIDATED_DIPOLES = {"ccsdt_dipole_moment", "ccsdtq_dipole_moment"}
UNVALIDATED_AO = {"scf_coulomb_a", "scf_coulomb_b", "scf_exchange_a", "scf_exchange_b"}

KIND_DANGLING = "oracle:dangling_pointer_keyerror"
KIND_TRAJ_EMPTY = "oracle:trajectory_empty_indexerror"
KIND_TRAJ_SINGLE = "oracle:trajectory_single_step_duplicated"
KIND_NATIVE_REVAL = "oracle:revalidate_native_input_placeholder"
KIND_DIPOLE = "oracle:unvalidated_dipole"
KIND_AO = "oracle:unvalidated_ao_matrix"


def prod(shape):
    p = 1
    for d in shape:
        p *= d
    return p


# ----------------------------------------------------------------------------------------------
# line encoding / decoding


def enc_shape(s):
    return "0d" if len(s) == 0 else "x".join(str(d) for d in s)


def dec_shape(t):
    return [] if t == "0d" else [int(d) for d in t.split("x")]


def enc_fields(lst):
    return ",".join(f"{n}:{enc_shape(s)}" for n, s in lst)


def dec_fields(t):
    out = []
    for it in t.split(","):
        if it.strip():
            n, s = it.split(":")
            out.append((n, dec_shape(s)))
    return out


def enc_optnat(v):
    return "N" if v is None else str(v)


def dec_optnat(t):
    return None if t == "N" else int(t)


def enc_basis(b):
    cs = "&".join(
        f"{cid}=" + "+".join(f"{h}/{'.'.join(map(str, am))}/{ne}/{'.'.join(map(str, rows))}" for h, am, ne, rows in shells)
        for cid, shells in b["centers"]
    )
    return f"{enc_optnat(b['nbf'])}^{'.'.join(map(str, b['atom_map']))}^{cs}"


def dec_basis(t):
    n, am, cs = t.split("^")
    centers = []
    for c in cs.split("&"):
        if not c.strip():
            continue
        cid, sh = c.split("=")
        shells = []
        for s in sh.split("+"):
            if not s.strip():
                continue
            h, a, ne, rows = s.split("/")
            shells.append((h, [int(x) for x in a.split(".") if x], int(ne), [int(x) for x in rows.split(".") if x]))
        centers.append((int(cid), shells))
    return {"nbf": dec_optnat(n), "atom_map": [int(x) for x in am.split(".") if x], "centers": centers}


def enc_props(p):
    return f"{enc_optnat(p['natom'])}~{enc_fields(p['arr'])}"


def dec_props(t):
    n, fs = t.split("~")
    return {"natom": dec_optnat(n), "arr": dec_fields(fs)}


def enc_wfn(w):
    if w is None:
        return "N"
    r = "-" if w["restricted"] is None else ("1" if w["restricted"] else "0")
    b = "-" if w["basis"] is None else enc_basis(w["basis"])
    return f"{r}~{b}~{enc_fields(w['arr'])}~" + ",".join(f"{p}>{t}" for p, t in w["ptr"])


def dec_wfn(t):
    if t == "N":
        return None
    r, b, arrs, ptrs = t.split("~")
    return {
        "restricted": None if r == "-" else r == "1",
        "basis": None if b == "-" else dec_basis(b),
        "arr": dec_fields(arrs),
        "ptr": [tuple(x.split(">")) for x in ptrs.split(",") if x.strip()],
    }


def enc_rr(rr):
    return rr if isinstance(rr, str) else enc_shape(rr)


def dec_rr(t):
    return t if t in ("f", "d") else dec_shape(t)


def enc(spec):
    op = spec["op"]
    if op == "A":
        files = "N" if spec["files"] is None else ".".join(map(str, spec["files"]))
        return "|".join(["A", spec["wp"], "1" if spec["so"] else "0", spec["nf"], spec["driver"], enc_props(spec["props"]),
                         enc_wfn(spec["wfn"]), enc_rr(spec["rr"]), "1" if spec["stdout"] else "0", files])
    if op == "W":
        return "W|" + enc_wfn(spec["wfn"])
    if op == "P":
        return "P|" + enc_props(spec["props"])
    if op == "B":
        return "B|" + enc_basis(spec["basis"])
    if op == "T":
        return f"T|{spec['policy']}|{spec['n']}"
    raise ValueError(op)


def dec(line):
    f = line.split("|")
    if f[0] == "A":
        return {"op": "A", "wp": f[1], "so": f[2] == "1", "nf": f[3], "driver": f[4], "props": dec_props(f[5]), "wfn": dec_wfn(f[6]),
                "rr": dec_rr(f[7]), "stdout": f[8] == "1", "files": None if f[9] == "N" else [int(x) for x in f[9].split(".") if x]}
    if f[0] == "W":
        return {"op": "W", "wfn": dec_wfn(f[1])}
    if f[0] == "P":
        return {"op": "P", "props": dec_props(f[1])}
    if f[0] == "B":
        return {"op": "B", "basis": dec_basis(f[1])}
    if f[0] == "T":
        return {"op": "T", "policy": f[1], "n": int(f[2])}
    raise ValueError(line)


# ----------------------------------------------------------------------------------------------
# building implementation inputs from a spec

_MOL = None


def mol():
    global _MOL
    if _MOL is None:
        import qcelemental as qcel

        _MOL = qcel.models.Molecule.from_data("O 0 0 0\nH 0 0 2\nH 0 2 0")
    return _MOL


def arr_data(name, shape):
    """deterministic, distinct contents; 1-D even-sized arrays are passed as Python lists"""
    size = prod(shape)
    off = (sum(ord(c) for c in name) % 97) + 0.25
    a = (np.arange(size, dtype=float) * 0.5 + off).reshape(shape)
    if len(shape) == 1 and size % 2 == 0:
        return a.tolist()
    return a


def file_name(i):
    return "input" if i == 0 else f"file{i}"


def build_basis(b):
    cd = {}
    for cid, shells in b["centers"]:
        cd[f"c{cid}"] = {
            "electron_shells": [
                {
                    "harmonic_type": "spherical" if h == "s" else "cartesian",
                    "angular_momentum": list(am),
                    "exponents": [1.0 + 0.5 * k for k in range(ne)],
                    "coefficients": [[0.1 * (j + 1) + k for k in range(r)] for j, r in enumerate(rows)],
                }
                for h, am, ne, rows in shells
            ]
        }
    d = {"name": "gen", "center_data": cd, "atom_map": [f"c{a}" for a in b["atom_map"]]}
    if b["nbf"] is not None:
        d["nbf"] = b["nbf"]
    return d


def build_wfn(w):
    d = {}
    if w["basis"] is not None:
        d["basis"] = build_basis(w["basis"])
    if w["restricted"] is not None:
        d["restricted"] = w["restricted"]
    for n, s in w["arr"]:
        d[n] = arr_data(n, s)
    for p, t in w["ptr"]:
        d[p] = t
    return d


def build_props(p):
    d = {}
    if p["natom"] is not None:
        d["calcinfo_natom"] = p["natom"]
    for n, s in p["arr"]:
        d[n] = arr_data(n, s)
    return d


def build_rr(rr):
    if rr == "f":
        return 1.5
    if rr == "d":
        return {"some_property": 1.0}
    return arr_data("return_result", rr)


def build_A(spec, wfn_override=None):
    d = {
        "molecule": mol(),
        "driver": spec["driver"],
        "model": {"method": "UFF"},
        "return_result": build_rr(spec["rr"]),
        "success": True,
        "properties": build_props(spec["props"]),
        "provenance": {"creator": "qcel"},
        "protocols": {"wavefunction": spec["wp"], "stdout": spec["so"], "native_files": spec["nf"]},
    }
    if spec["stdout"]:
        d["stdout"] = "I ran."
    if spec["files"] is not None:
        d["native_files"] = {file_name(i): f"content {i}" for i in spec["files"]}
    if spec["wfn"] is not None:
        d["wavefunction"] = build_wfn(spec["wfn"]) if wfn_override is None else wfn_override
    return d


# ----------------------------------------------------------------------------------------------
# canonical form of implementation outcomes (same text as the driver prints)


def canon_err(e):
    import qcelemental as qcel

    try:
        import pydantic.v1 as pv1
    except ImportError:  # pragma: no cover
        import pydantic as pv1
    if isinstance(e, pv1.ValidationError):
        locs = sorted({".".join(str(x) for x in er["loc"]) for er in e.errors()})
        return "err Validation " + ",".join(locs)
    if isinstance(e, qcel.exceptions.ValidationError):
        return "err NbfMismatch"
    if isinstance(e, KeyError):
        return "err KeyError"
    if isinstance(e, IndexError):
        return "err IndexError"
    return "err other:" + type(e).__name__


def canon_model_line(s):
    """sort the locations of a model error line (pydantic's order is not part of the comparison)"""
    if s is not None and s.startswith("err Validation "):
        return "err Validation " + ",".join(sorted(s[len("err Validation "):].split(",")))
    return s


def shape_of(v):
    return list(np.shape(v))


def canon_props(p):
    d = p.dict()
    fs = [(n, shape_of(d[n])) for n in PROP_ARRS if d.get(n) is not None]
    return f"{enc_optnat(d.get('calcinfo_natom'))}~{enc_fields(fs)}"


def canon_wfn(w):
    if w is None:
        return "N"
    d = w.dict()
    r = "-" if d.get("restricted") is None else ("1" if d["restricted"] else "0")
    b = "-" if getattr(w, "basis", None) is None else str(w.basis.nbf)
    arrs = [(n, shape_of(d[n])) for n in ARR_KEYS if d.get(n) is not None]
    ptrs = [(n, d[n]) for n in PTR_KEYS if d.get(n) is not None]
    return f"{r}~{b}~{enc_fields(arrs)}~" + ",".join(f"{p}>{t}" for p, t in ptrs)


def canon_rr(v):
    if isinstance(v, dict):
        return "d"
    if isinstance(v, np.ndarray):
        return enc_shape(list(v.shape))
    return "f"


def file_id(name):
    return 0 if name == "input" else int(name[4:])


def canon_A(r):
    files = ",".join(f"{file_id(k)}:{0 if v is None else 1}" for k, v in r.native_files.items())
    return (f"ok props={canon_props(r.properties)} wfn={canon_wfn(r.wavefunction)} rr={canon_rr(r.return_result)} "
            f"stdout={0 if r.stdout is None else 1} files={files}")


def deep_equal(a, b):
    """structural equality of dumped objects, arrays compared by shape and content"""
    if isinstance(a, dict) and isinstance(b, dict):
        return a.keys() == b.keys() and all(deep_equal(a[k], b[k]) for k in a)
    if isinstance(a, (list, tuple)) and isinstance(b, (list, tuple)):
        return len(a) == len(b) and all(deep_equal(x, y) for x, y in zip(a, b))
    if isinstance(a, np.ndarray) or isinstance(b, np.ndarray):
        if not (isinstance(a, np.ndarray) and isinstance(b, np.ndarray)):
            return False
        return a.shape == b.shape and bool(np.array_equal(a, b))
    return type(a) == type(b) and a == b


def first_diff(a, b, path=""):
    if isinstance(a, dict) and isinstance(b, dict):
        if a.keys() != b.keys():
            return f"{path}: keys {sorted(set(a) ^ set(b))}"
        for k in a:
            d = first_diff(a[k], b[k], f"{path}.{k}")
            if d:
                return d
        return None
    if isinstance(a, (list, tuple)) and isinstance(b, (list, tuple)):
        if len(a) != len(b):
            return f"{path}: length {len(a)} vs {len(b)}"
        for i, (x, y) in enumerate(zip(a, b)):
            d = first_diff(x, y, f"{path}[{i}]")
            if d:
                return d
        return None
    return None if deep_equal(a, b) else f"{path}: {np.shape(a)} {type(a).__name__} vs {np.shape(b)} {type(b).__name__}"


def dump_diff(a, b):
    """paths (depth 2 inside properties / wavefunction, depth 1 elsewhere) on which two dumps differ"""
    out = []
    for k in sorted(set(a) | set(b)):
        x, y = a.get(k, "<absent>"), b.get(k, "<absent>")
        if k in ("properties", "wavefunction") and isinstance(x, dict) and isinstance(y, dict):
            for kk in sorted(set(x) | set(y)):
                if not deep_equal(x.get(kk, "<absent>"), y.get(kk, "<absent>")):
                    out.append(f"{k}.{kk}")
        elif not deep_equal(x, y):
            out.append(k)
    return out


def flat_same(x, y):
    """same contents, only the shape differs (y flat)"""
    return isinstance(x, np.ndarray) and isinstance(y, np.ndarray) and y.ndim == 1 and np.array_equal(x.ravel(), y)


# ----------------------------------------------------------------------------------------------
# the oracle's own reading of the statement


def nfunc(h, am):
    return sum((2 * L + 1) if h == "s" else ((L + 1) * (L + 2)) // 2 for L in am)


def basis_expect(b):
    """('ok', nbf) | ('reject',) according to the statement"""
    ids = {cid for cid, _ in b["centers"]}
    for _cid, shells in b["centers"]:
        if not shells:
            return ("reject",)
        for h, am, ne, rows in shells:
            if any(r != ne for r in rows) or (len(am) > 1 and len(am) != len(rows)):
                return ("reject",)
    if any(a not in ids for a in b["atom_map"]):
        return ("reject",)
    per = {cid: sum(nfunc(h, am) for h, am, _ne, _rows in shells) for cid, shells in b["centers"]}
    nbf = sum(per[a] for a in b["atom_map"])
    if b["nbf"] is not None and b["nbf"] != nbf:
        return ("reject",)
    return ("ok", nbf)


def prop_implied(name, natom):
    """implied shape of a properties array: list | 'need-natom' | None (no demand)"""
    if name.endswith("_gradient"):
        return "need-natom" if natom is None else [natom, 3]
    if name.endswith("_hessian"):
        return "need-natom" if natom is None else [3 * natom, 3 * natom]
    if name.endswith("_dipole_moment"):
        return [3]
    if name.endswith("_quadrupole_moment"):
        return [3, 3]
    return None


def wfn_implied(name, nbf, shape):
    base = name[:-2]
    size = prod(shape)
    if base in ("h_core", "h_effective", "scf_density", "scf_fock", "scf_coulomb", "scf_exchange"):
        return [nbf, nbf]
    if base == "scf_orbitals":
        if nbf == 0:
            return None
        return [nbf, size // nbf] if size % nbf == 0 else "misfit"
    if base in ("scf_eigenvalues", "scf_occupations"):
        return [size]
    return None  # localized_* : no demand (nmo unknown to the model; not an nbf x nbf AO matrix)


def isqrt(n):
    import math

    return math.isqrt(n)


def rr_expect(driver, rr):
    """expected canonical return_result, or 'reject'"""
    if driver in ("energy", "properties"):
        return enc_rr(rr)
    shape = [] if isinstance(rr, str) else rr
    size = prod(shape)
    if driver == "gradient":
        return enc_shape([size // 3, 3]) if size % 3 == 0 else "reject"
    k = isqrt(size)
    return enc_shape([k, k]) if k * k == size else "reject"


def wfn_expect(spec):
    """What the statement says must be retained.
    returns dict(kept_arr, kept_ptr, dangling, none) — `none` means no wavefunction is kept."""
    w = spec["wfn"]
    if w is None or spec["wp"] == "none":
        return {"none": True}
    arrs = dict(w["arr"])
    ptrs = dict(w["ptr"])
    if w["restricted"]:
        arrs = {k: v for k, v in arrs.items() if not k.endswith("_b")}
        ptrs = {k: v for k, v in ptrs.items() if not k.endswith("_b")}
    if spec["wp"] == "all":
        kp = ptrs
        ka = arrs
    else:
        kp = {k: v for k, v in ptrs.items() if k in SELECT[spec["wp"]]}
        ka = {t: arrs[t] for t in kp.values() if t in arrs}
    dangling = sorted(p for p, t in kp.items() if t not in arrs)
    return {"none": False, "kept_arr": ka, "kept_ptr": kp, "dangling": dangling}


def in_quantifier_A(spec):
    w = spec["wfn"]
    if w is not None and (w["restricted"] is None or w["basis"] is None):
        return False
    return True


def expect_A(spec):
    """Independent expectation for an A-case. Returns dict with
    verdict 'accept'|'reject', misfits (list of field names that do not fit), canon (expected canonical line if accept)."""
    misfits = []
    # properties
    p = spec["props"]
    pshapes = []
    for n, s in p["arr"]:
        imp = prop_implied(n, p["natom"])
        if imp == "need-natom":
            misfits.append("properties." + n)
        elif imp is not None and prod(imp) != prod(s):
            misfits.append("properties." + n)
        else:
            pshapes.append((n, imp if imp is not None else s))
    pshapes.sort(key=lambda x: PROP_ARRS.index(x[0]))
    # return_result
    rr = rr_expect(spec["driver"], spec["rr"])
    if rr == "reject":
        misfits.append("return_result")
    # wavefunction
    we = wfn_expect(spec)
    wcanon = "N"
    if not we["none"]:
        w = spec["wfn"]
        be = basis_expect(w["basis"]) if w["basis"] is not None else ("reject",)
        if be[0] == "reject":
            misfits.append("wavefunction.basis")
            nbf = None
        else:
            nbf = be[1]
        for pk in we["dangling"]:
            misfits.append("wavefunction." + pk)
        ashapes = []
        for n, s in we["kept_arr"].items():
            imp = wfn_implied(n, nbf, s) if nbf is not None else None
            if imp == "misfit" or (isinstance(imp, list) and prod(imp) != prod(s)):
                misfits.append("wavefunction." + n)
            else:
                ashapes.append((n, imp if isinstance(imp, list) else s))
        ashapes.sort(key=lambda x: ARR_KEYS.index(x[0]))
        kptr = sorted(we["kept_ptr"].items(), key=lambda x: PTR_KEYS.index(x[0]))
        wcanon = f"{'1' if w['restricted'] else '0'}~{nbf}~{enc_fields(ashapes)}~" + ",".join(f"{a}>{b}" for a, b in kptr)
    # stdout / native files
    so = 1 if (spec["stdout"] and spec["so"]) else 0
    files = []
    if spec["files"] is not None:
        if spec["nf"] == "all":
            files = list(spec["files"])
        elif spec["nf"] == "input":
            files = [i for i in spec["files"] if i == 0]
    canon = f"ok props={enc_optnat(p['natom'])}~{enc_fields(pshapes)} wfn={wcanon} rr={rr} stdout={so} files=" + ",".join(f"{i}:1" for i in files)
    return {"verdict": "reject" if misfits else "accept", "misfits": misfits, "canon": canon, "wfn": we}


def strip_placeholders(canon):
    """drop `id:0` (None-valued) native file entries: placeholders are not retained files"""
    head, _, files = canon.rpartition(" files=")
    keep = [x for x in files.split(",") if x and not x.endswith(":0")]
    return head + " files=" + ",".join(keep)


def canon_items(canon):
    """split an `ok …` canonical line into comparable items {name: value}"""
    items = {}
    for part in canon.split()[1:]:
        k, _, v = part.partition("=")
        if k == "props":
            nat, _, fs = v.partition("~")
            items["properties.calcinfo_natom"] = nat
            for n, sh in dec_fields(fs):
                items["properties." + n] = enc_shape(sh)
        elif k == "wfn" and v != "N":
            r, nbf, arrs, ptrs = v.split("~")
            items["wavefunction.restricted"] = r
            items["wavefunction.basis.nbf"] = nbf
            for n, sh in dec_fields(arrs):
                items["wavefunction." + n] = enc_shape(sh)
            for x in ptrs.split(","):
                if x:
                    pn, _, t = x.partition(">")
                    items["wavefunction." + pn] = t
        else:
            items[k] = v
    return items


def canon_diff(obs, exp):
    """names of the items on which two `ok …` canonical lines differ"""
    a, b = canon_items(obs), canon_items(exp)
    return sorted(k for k in set(a) | set(b) if a.get(k) != b.get(k))


# ----------------------------------------------------------------------------------------------
# generators


def flavour(rng, target, bad):
    """a supplied shape for an array whose implied shape is `target`"""
    size = prod(target)
    if bad:
        c = rng.random()
        if c < 0.4:
            return [size + 1]
        if c < 0.6 and size >= 2:
            return [size - 1]
        if c < 0.8 and len(target) >= 1:
            t = list(target)
            i = rng.randrange(len(t))
            t[i] += 1
            if prod(t) != size:
                return t
            return [size + 2]
        return [size + 3]
    c = rng.random()
    if c < 0.4:
        return [size]
    if c < 0.75:
        return list(target)
    if c < 0.9:
        return [size, 1]
    return [1, size]


def gen_shell(rng, bad=False):
    h = rng.choice("sc")
    if rng.random() < 0.3:
        am = rng.choice([[0, 1], [0, 1], [0, 1, 2], [1, 2]])
        ne = rng.randint(1, 3)
        rows = [ne] * len(am)
        if bad:
            if rng.random() < 0.5:
                rows = rows + [ne]
            else:
                rows[rng.randrange(len(rows))] = ne + 1
    else:
        am = [rng.choice([0, 0, 0, 1, 1, 2, 2, 3, 4])]
        ne = rng.randint(1, 3)
        rows = [ne] * rng.randint(1, 3)
        if bad:
            rows[rng.randrange(len(rows))] = ne + 1
    return (h, am, ne, rows)


def gen_basis(rng, mode=None):
    """mode: None (random), 'ok'"""
    nc = rng.randint(1, 3)
    badshell = mode != "ok" and rng.random() < 0.05
    centers = []
    for cid in range(nc):
        shells = [gen_shell(rng) for _ in range(rng.choice([1, 1, 2, 3]))]
        centers.append((cid, shells))
    if badshell:
        cid = rng.randrange(nc)
        k = rng.randrange(len(centers[cid][1]))
        centers[cid][1][k] = gen_shell(rng, bad=True)
    natoms = rng.choice([0, 1, 1, 2, 2, 3, 4]) if mode != "ok" else rng.randint(1, 3)
    am = [rng.randrange(nc) for _ in range(natoms)]
    if mode != "ok" and rng.random() < 0.05:
        am.append(nc + 1)
    b = {"nbf": None, "atom_map": am, "centers": centers}
    be = basis_expect(b)
    true_nbf = be[1] if be[0] == "ok" else rng.randint(1, 9)
    c = rng.random()
    if c < 0.4:
        b["nbf"] = None
    elif c < 0.85 or mode == "ok":
        b["nbf"] = true_nbf
    else:
        b["nbf"] = max(0, true_nbf + rng.choice([-1, 1, 2, -2, 7]))
        if b["nbf"] == true_nbf:
            b["nbf"] = true_nbf + 1
    return b


def gen_wfn(rng, restricted, clean):
    basis = gen_basis(rng, "ok" if clean or rng.random() < 0.8 else None)
    if not basis["atom_map"]:  # wavefunctions over an empty basis (nbf = 0) are not generated
        basis["atom_map"] = [basis["centers"][0][0]]
        basis["nbf"] = None
    be = basis_expect(basis)
    nbf = be[1] if be[0] == "ok" else rng.randint(1, 6)
    nmo = rng.randint(0, 3) if rng.random() < 0.3 else max(1, nbf - rng.randint(0, 1))
    pa = rng.choice([0.15, 0.35, 0.7])
    arrs = []
    for k in ARR_KEYS:
        if rng.random() >= pa:
            continue
        base = k[:-2]
        bad = (not clean) and rng.random() < 0.12
        if base in ("h_core", "h_effective", "scf_density", "scf_fock", "scf_coulomb", "scf_exchange"):
            s = flavour(rng, [nbf, nbf], bad)
        elif base in ("scf_orbitals", "localized_orbitals"):
            s = flavour(rng, [nbf, nmo], bad)
        elif base == "localized_fock":
            s = flavour(rng, [nmo, nmo], bad)
        else:
            s = flavour(rng, [nmo], False)
        arrs.append((k, s))
    have = [k for k, _ in arrs]
    pp = rng.choice([0.2, 0.5, 0.9])
    ptrs = []
    for p in PTR_KEYS:
        if rng.random() >= pp:
            continue
        natural = "scf_" + p
        c = rng.random()
        if natural in have and c < 0.7:
            t = natural
        elif have and c < 0.85:
            t = rng.choice(have)  # crossed / other spin
        elif (not clean) and c < 0.93:
            t = rng.choice(ARR_KEYS)  # possibly dangling
        elif natural in have:
            t = natural
        else:
            continue
        ptrs.append((p, t))
    w = {"restricted": restricted, "basis": basis, "arr": arrs, "ptr": ptrs}
    if not clean and rng.random() < 0.01:
        w["basis"] = None
    if not clean and rng.random() < 0.01:
        w["restricted"] = None
    return w


def gen_props(rng, clean):
    natom = rng.choice([None, 0, 1, 2, 3, 3, 4])
    pa = rng.choice([0.1, 0.3, 0.6])
    arrs = []
    for n in PROP_ARRS:
        if rng.random() >= pa:
            continue
        if (n.endswith("_gradient") or n.endswith("_hessian")) and natom is None and (clean or rng.random() < 0.7):
            continue
        nat = natom if natom is not None else 2
        imp = prop_implied(n, nat)
        bad = (not clean) and rng.random() < 0.12
        s = flavour(rng, imp, bad)
        arrs.append((n, s))
    return {"natom": natom, "arr": arrs}


def gen_rr(rng, driver, clean):
    if driver == "energy":
        return "f" if rng.random() < 0.8 else [rng.randint(2, 4)]  # no shape implied: 1-D only
    if driver == "properties":
        return "d" if rng.random() < 0.8 else "f"
    bad = (not clean) and rng.random() < 0.15
    k = rng.randint(0, 4)
    if driver == "gradient":
        s = flavour(rng, [k, 3], bad)
        if not bad and rng.random() < 0.15:
            s = [3, k]
        return s
    if not clean and rng.random() < 0.05:
        return "f"
    return flavour(rng, [3 * k, 3 * k] if rng.random() < 0.7 else [k + 1, k + 1], bad)


def gen_A(rng, wp, so, nf, restricted, driver):
    clean = rng.random() < 0.55
    spec = {"op": "A", "wp": wp, "so": so, "nf": nf, "driver": driver}
    spec["props"] = gen_props(rng, clean)
    spec["wfn"] = None if rng.random() < 0.08 else gen_wfn(rng, restricted, clean)
    spec["rr"] = gen_rr(rng, driver, clean)
    spec["stdout"] = rng.random() < 0.8
    c = rng.random()
    if c < 0.25:
        spec["files"] = None
    else:
        spec["files"] = [i for i in (0, 1, 2) if rng.random() < 0.5]
        rng.shuffle(spec["files"])
    return spec


def gen_cases(ctx: Ctx):
    rng = ctx.rng
    K = ctx.scale(30, 300)
    for wp, so, nf, restricted, driver in itertools.product(WPS, (True, False), NFS, (True, False), DRIVERS):
        for _ in range(K):
            yield gen_A(rng, wp, so, nf, restricted, driver)
    for _ in range(ctx.scale(2000, 20000)):
        yield {"op": "B", "basis": gen_basis(rng)}
    for _ in range(ctx.scale(1500, 15000)):
        yield {"op": "P", "props": gen_props(rng, rng.random() < 0.4)}
    for pol in TPS:
        for n in range(0, 7):
            yield {"op": "T", "policy": pol, "n": n}


# ----------------------------------------------------------------------------------------------
# per-op checks


def viol(out, kind, line, observed=None, expected=None, detail=""):
    out.violations.append(Finding(kind, {"line": line}, observed=observed, expected=expected, detail=detail))


def data_preserved(obj_dict, supplied):
    """every retained array has the supplied contents (row-major order)"""
    for n, v in supplied.items():
        if obj_dict.get(n) is not None:
            if not np.array_equal(np.asarray(obj_dict[n], dtype=float).ravel(), np.asarray(v, dtype=float).ravel()):
                return n
    return None


def check_A(ctx, out, spec, line, model_line):
    from qcelemental.models import AtomicResult
    from qcelemental.models.results import WavefunctionProperties

    kwargs = build_A(spec)
    try:
        r = AtomicResult(**kwargs)
        obs = canon_A(r)
    except Exception as e:  # noqa
        r = None
        obs = canon_err(e)
    out.evaluations += 1
    out.count("op:A")
    out.count("A:outcome:" + " ".join(obs.split()[:2] if obs.startswith("err") else ["ok"]))
    out.count("A:wp:" + spec["wp"])
    # ---- correspondence
    if model_line is not None and canon_model_line(model_line) != obs:
        out.mismatches.append(Finding("mismatch", {"line": line}, observed=obs, expected=model_line, detail="implementation vs Lean model"))
    if not in_quantifier_A(spec):
        out.count("A:outside_quantifier(correspondence only)")
        return
    exp = expect_A(spec)
    we = exp["wfn"]
    nontrivial = obs.startswith("err") or (spec["wfn"] is not None and (spec["wp"] != "all" or spec["wfn"]["restricted"])) or not spec["so"] or spec["nf"] != "all"
    if nontrivial:
        out.nontrivial(line)
    out.sample({"input": line, "impl": obs, "model": model_line})
    # ---- oracle: verdict and error class
    if obs.startswith("err"):
        cls = obs.split()[1]
        if cls not in ("Validation", "NbfMismatch"):
            if cls == "KeyError" and not we["none"] and we["dangling"] and spec["wp"] in SELECT:
                viol(out, KIND_DANGLING, line, obs, "err Validation (pydantic ValidationError)",
                     f"pointer(s) {we['dangling']} name arrays that are not supplied (after the restricted filter); KeyError escapes instead of a ValidationError")
            else:
                viol(out, "oracle:error_class", line, obs, "accepted or ValidationError", "an exception that is not a ValidationError escaped")
            return
        if exp["verdict"] == "accept":
            viol(out, "oracle:spurious_rejection", line, obs, exp["canon"], "every supplied array fits, pointers resolve, basis consistent — but construction was rejected")
        else:
            out.count("A:rejected_as_expected")
        return
    # accepted
    if exp["verdict"] == "reject":
        m = set(exp["misfits"])
        dip = {x for x in m if x.startswith("properties.") and x.split(".")[1] in UNVALIDATED_DIPOLES}
        ao = {x for x in m if x.startswith("wavefunction.") and x.split(".")[1] in UNVALIDATED_AO}
        rest = m - dip - ao
        if rest:
            viol(out, "oracle:accepts_misfit", line, obs, "rejection", f"accepted although {sorted(rest)} do(es) not fit")
        if dip:
            viol(out, KIND_DIPOLE, line, obs, "rejection", f"{sorted(dip)} wrongly sized but accepted (no validator registered)")
        if ao:
            viol(out, KIND_AO, line, obs, "rejection", f"{sorted(ao)} wrongly sized but accepted (no validator registered)")
        return
    # accepted and expected to be accepted: exact retention and shapes
    obs_cmp = strip_placeholders(obs)
    if obs_cmp != exp["canon"]:
        diff = canon_diff(obs_cmp, exp["canon"])
        dipf = [x for x in diff if x.startswith("properties.") and x.split(".")[1] in UNVALIDATED_DIPOLES]
        aof = [x for x in diff if x.startswith("wavefunction.") and x.split(".")[1] in UNVALIDATED_AO]
        rest = [x for x in diff if x not in dipf and x not in aof]
        if dipf:
            viol(out, KIND_DIPOLE, line, obs, exp["canon"], f"{dipf} not reshaped to (3,)")
        if aof:
            viol(out, KIND_AO, line, obs, exp["canon"], f"{aof} not reshaped to (nbf, nbf)")
        if rest:
            viol(out, "oracle:retention", line, obs, exp["canon"], f"retained keys / shapes differ from what the protocols and shape rules prescribe: {rest}")
            return
    out.count("A:accepted_as_expected")
    # contents unchanged
    rd = r.dict()
    bad = data_preserved(rd["properties"], {n: v for n, v in kwargs["properties"].items() if n != "calcinfo_natom"})
    if bad:
        viol(out, "oracle:contents_changed", line, detail=f"properties.{bad} contents changed")
    if r.wavefunction is not None:
        wd = rd["wavefunction"]
        bad = data_preserved(wd, {n: v for n, v in kwargs["wavefunction"].items() if n in ARR_KEYS})
        if bad:
            viol(out, "oracle:contents_changed", line, detail=f"wavefunction.{bad} contents changed")
    if isinstance(r.return_result, np.ndarray):
        if not np.array_equal(r.return_result.ravel(), np.asarray(kwargs["return_result"], dtype=float).ravel()):
            viol(out, "oracle:contents_changed", line, detail="return_result contents changed")
    elif r.return_result != kwargs["return_result"]:
        viol(out, "oracle:contents_changed", line, detail="return_result changed")
    if r.stdout is not None and r.stdout != kwargs.get("stdout"):
        viol(out, "oracle:contents_changed", line, detail="stdout changed")
    for k, v in r.native_files.items():
        if v is not None and v != kwargs.get("native_files", {}).get(k):
            viol(out, "oracle:contents_changed", line, detail=f"native file {k} changed")
    # ---- re-validation of the dumped object (dict route and JSON route)
    for route in ("dict", "json"):
        try:
            r2 = AtomicResult(**rd) if route == "dict" else AtomicResult.parse_raw(r.json())
            obs2 = canon_A(r2)
            d2 = r2.dict()
        except Exception as e:  # noqa
            viol(out, "oracle:revalidate", line, canon_err(e), obs, f"re-validating the dumped object ({route} route) fails")
            continue
        out.count("A:revalidated:" + route)
        changed = dump_diff(rd, d2)
        if not changed:
            continue
        rest = []
        dipf, aof = [], []
        for c in changed:
            sect, _, name = c.partition(".")
            if c == "native_files" and spec["nf"] == "input" and spec["files"] is None and rd["native_files"] == {} and d2["native_files"] == {"input": None}:
                viol(out, KIND_NATIVE_REVAL, line, "native_files {} -> {'input': None}", "unchanged", f"re-validation ({route} route) adds a None placeholder")
            elif route == "json" and sect == "properties" and name in UNVALIDATED_DIPOLES and flat_same(rd[sect][name], d2[sect].get(name)):
                dipf.append(c)
            elif route == "json" and sect == "wavefunction" and name in UNVALIDATED_AO and flat_same(rd[sect][name], d2[sect].get(name)):
                aof.append(c)
            elif route == "json" and sect == "wavefunction" and name.startswith("localized_") and flat_same(rd[sect][name], d2[sect].get(name)):
                out.count("A:json_flattens_localized(no demand)")
            else:
                rest.append(c)
        if dipf:
            viol(out, KIND_DIPOLE, line, f"after JSON round trip {dipf} come back flat", "unchanged", "unvalidated array is not reshaped when its stored (flat) form is validated again")
        if aof:
            viol(out, KIND_AO, line, f"after JSON round trip {aof} come back flat", "unchanged", "unvalidated array is not reshaped when its stored (flat) form is validated again")
        if rest:
            viol(out, "oracle:revalidate", line, obs2, obs, f"re-validating the dumped object ({route} route) changes {rest}")
    # ---- object route: a WavefunctionProperties instance instead of a dict gives the same result
    if spec["wfn"] is not None:
        try:
            wobj = WavefunctionProperties(**build_wfn(spec["wfn"]))
        except Exception:  # noqa
            wobj = None
        if wobj is not None:
            out.count("A:object_route")
            try:
                r3 = AtomicResult(**build_A(spec, wfn_override=wobj))
                obs3 = canon_A(r3)
                same3 = deep_equal(rd, r3.dict())
            except Exception as e:  # noqa
                obs3, same3 = canon_err(e), False
            if not same3:
                viol(out, "oracle:object_route", line, obs3, obs, "passing a WavefunctionProperties object instead of a dict gives a different result")


def check_B(ctx, out, spec, line, model_line):
    from qcelemental.models import BasisSet

    b = spec["basis"]
    try:
        r = BasisSet(**build_basis(b))
        obs = f"ok {r.nbf}"
    except Exception as e:  # noqa
        r, obs = None, canon_err(e)
    out.evaluations += 1
    out.count("op:B")
    out.count("B:outcome:" + " ".join(obs.split()[:2] if obs.startswith("err") else ["ok"]))
    if model_line is not None and canon_model_line(model_line) != obs:
        out.mismatches.append(Finding("mismatch", {"line": line}, observed=obs, expected=model_line, detail="implementation vs Lean model"))
    exp = basis_expect(b)
    if b["nbf"] is not None or exp[0] == "reject" or any(len(am) > 1 for _c, sh in b["centers"] for _h, am, _n, _r in sh):
        out.nontrivial(line)
    if obs.startswith("err"):
        if obs.split()[1] not in ("Validation", "NbfMismatch"):
            viol(out, "oracle:error_class", line, obs, "accepted or ValidationError")
        elif exp[0] == "ok":
            viol(out, "oracle:nbf", line, obs, f"ok {exp[1]}", "a consistent basis set was rejected")
        return
    if exp[0] == "reject":
        viol(out, "oracle:nbf", line, obs, "rejection", "inconsistent basis set (nbf / centres / contraction lengths) accepted")
        return
    if r.nbf != exp[1]:
        viol(out, "oracle:nbf", line, obs, f"ok {exp[1]}", "nbf differs from the count implied by the shells")
    # per-shell counts
    for (cid, shells) in b["centers"]:
        for k, (h, am, _ne, _rows) in enumerate(shells):
            got = r.center_data[f"c{cid}"].electron_shells[k].nfunctions()
            if got != nfunc(h, am):
                viol(out, "oracle:nfunctions", line, got, nfunc(h, am), f"shell c{cid}[{k}] {h} {am}")
    r2 = BasisSet(**r.dict())
    if not deep_equal(r.dict(), r2.dict()):
        viol(out, "oracle:revalidate", line, detail="re-validating the dumped basis set changes it")


def check_P(ctx, out, spec, line, model_line):
    from qcelemental.models import AtomicResultProperties

    p = spec["props"]
    kw = build_props(p)
    try:
        r = AtomicResultProperties(**kw)
        obs = "ok " + canon_props(r)
    except Exception as e:  # noqa
        r, obs = None, canon_err(e)
    out.evaluations += 1
    out.count("op:P")
    out.count("P:outcome:" + " ".join(obs.split()[:2] if obs.startswith("err") else ["ok"]))
    if model_line is not None and canon_model_line(model_line) != obs:
        out.mismatches.append(Finding("mismatch", {"line": line}, observed=obs, expected=model_line, detail="implementation vs Lean model"))
    if p["arr"]:
        out.nontrivial(line)
    misfit, shapes = [], []
    for n, s in p["arr"]:
        imp = prop_implied(n, p["natom"])
        if imp == "need-natom" or (imp is not None and prod(imp) != prod(s)):
            misfit.append(n)
        else:
            shapes.append((n, imp if imp is not None else s))
    expc = f"ok {enc_optnat(p['natom'])}~{enc_fields(shapes)}"
    if obs.startswith("err"):
        if obs.split()[1] != "Validation":
            viol(out, "oracle:error_class", line, obs, "accepted or ValidationError")
        elif not misfit:
            viol(out, "oracle:spurious_rejection", line, obs, expc, "all arrays fit but construction was rejected")
        return
    if misfit:
        dip = [n for n in misfit if n in UNVALIDATED_DIPOLES]
        rest = [n for n in misfit if n not in UNVALIDATED_DIPOLES]
        if rest:
            viol(out, "oracle:accepts_misfit", line, obs, "rejection", f"accepted although {rest} do(es) not fit")
        if dip:
            viol(out, KIND_DIPOLE, line, obs, "rejection", f"{dip} wrongly sized but accepted (no validator registered)")
        return
    if obs != expc:
        diff = canon_diff("ok props=" + obs[3:], "ok props=" + expc[3:])
        dipf = [x for x in diff if x.split(".")[1] in UNVALIDATED_DIPOLES]
        rest = [x for x in diff if x not in dipf]
        if dipf:
            viol(out, KIND_DIPOLE, line, obs, expc, f"{dipf} not reshaped to (3,)")
        if rest:
            viol(out, "oracle:retention", line, obs, expc, f"shapes differ from the implied ones: {rest}")
            return
    bad = data_preserved(r.dict(), {n: v for n, v in kw.items() if n != "calcinfo_natom"})
    if bad:
        viol(out, "oracle:contents_changed", line, detail=f"{bad} contents changed")
    r2 = AtomicResultProperties(**r.dict())
    if not deep_equal(r.dict(), r2.dict()):
        viol(out, "oracle:revalidate", line, detail="re-validating the dumped properties changes them")


def check_T(ctx, out, spec, line, model_line):
    from qcelemental.models import OptimizationResult

    n, pol = spec["n"], spec["policy"]
    rng_protocols = [{"stdout": bool(i % 2), "native_files": NFS[i % 3]} for i in range(n)]
    traj = []
    for i in range(n):
        traj.append({"molecule": mol(), "driver": "energy", "model": {"method": "UFF"}, "return_result": float(i), "success": True,
                     "properties": {}, "provenance": {"creator": "qcel"}, "stdout": f"step {i}", "protocols": rng_protocols[i],
                     "native_files": {"input": f"in {i}", "file1": "x"}})
    d = {"initial_molecule": mol(), "final_molecule": mol(), "trajectory": traj, "energies": [float(i) for i in range(n)], "success": True,
         "provenance": {"creator": "qcel"}, "input_specification": {"model": {"method": "UFF"}}, "protocols": {"trajectory": pol}}
    try:
        r = OptimizationResult(**d)
        idx = [int(t.return_result) for t in r.trajectory]
        obs = "ok " + ",".join(map(str, idx))
    except Exception as e:  # noqa
        r, obs = None, canon_err(e)
    out.evaluations += 1
    out.count("op:T")
    out.count("T:outcome:" + " ".join(obs.split()[:2] if obs.startswith("err") else ["ok"]))
    out.nontrivial(line)
    if model_line is not None and canon_model_line(model_line) != obs:
        out.mismatches.append(Finding("mismatch", {"line": line}, observed=obs, expected=model_line, detail="implementation vs Lean model"))
    if pol == "all":
        want = list(range(n))
    elif pol == "none" or n == 0:
        want = []
    elif pol == "final":
        want = [n - 1]
    else:
        want = [0] if n == 1 else [0, n - 1]
    expc = "ok " + ",".join(map(str, want))
    if obs.startswith("err"):
        if obs == "err IndexError" and n == 0 and pol in ("final", "initial_and_final"):
            viol(out, KIND_TRAJ_EMPTY, line, obs, expc, "an empty trajectory under final / initial_and_final raises IndexError")
        else:
            viol(out, "oracle:error_class" if obs.split()[1] != "Validation" else "oracle:spurious_rejection", line, obs, expc)
        return
    if obs != expc:
        if pol == "initial_and_final" and n == 1 and obs == "ok 0,0":
            viol(out, KIND_TRAJ_SINGLE, line, obs, expc, "the single step of a one-step trajectory is retained twice")
        else:
            viol(out, "oracle:trajectory_selects", line, obs, expc, "the retained steps are not the selected part of the trajectory")
            return
    # retained steps unchanged (each equals the step validated on its own)
    from qcelemental.models import AtomicResult

    for t in r.trajectory:
        alone = AtomicResult(**traj[int(t.return_result)])
        if not deep_equal(t.dict(), alone.dict()):
            viol(out, "oracle:contents_changed", line, detail=f"retained step {int(t.return_result)} differs from the step validated alone")
    r2 = OptimizationResult(**r.dict())
    if not deep_equal(r.dict(), r2.dict()):
        viol(out, "oracle:revalidate", line, detail="re-validating the dumped optimisation result changes it: " + str(first_diff(r.dict(), r2.dict())))


CHECK = {"A": check_A, "B": check_B, "P": check_P, "T": check_T}


def run(ctx: Ctx) -> Outcome:
    out = Outcome()
    lines = [enc(s) for s in gen_cases(ctx)]
    model = [None] * len(lines)
    if ctx.model_available:
        model = ctx.run_model(DRIVER, lines)
    for line, ml in zip(lines, model):
        spec = dec(line)
        CHECK[spec["op"]](ctx, out, spec, line, ml)
    out.exhaustive = False
    out.notes.append("A-cases cover the full 240-combination product of protocols x restricted x driver; payloads sampled from VERIF_SEED; "
                     "T-cases are exhaustive over 4 policies x 0..6 steps")
    return out


def replay(ctx: Ctx, case) -> Outcome:
    out = Outcome()
    line = case["line"] if isinstance(case, dict) else case
    spec = dec(line)
    ml = ctx.run_model(DRIVER, [line])[0] if ctx.model_available else None
    CHECK[spec["op"]](ctx, out, spec, line, ml)
    return out
