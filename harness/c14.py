"""C14 — assignment solver (qcelemental/util/scipy_hungarian.py): step-trace correspondence with the Lean
Munkres model, the proved certificate checker run on the implementation's answers, and an independent
Python oracle (brute force <= 8x8, dual bound beyond); integer matrices of large magnitude are also run through the model IN THE WORK
DTYPE (float64 rounding / int64 / uint64 wrap-around: Props/C14Exact.lean proves it equals the exact model inside B(M,n,m) = 8*max|entry|,
the driver reports the bound per case). Besides single matrices (random, exhaustive small, long-run
structured tables) the solver is driven through call sequences mixing index-only and return_cost=True calls."""
from __future__ import annotations

import itertools
import signal
from fractions import Fraction

import numpy as np

from common import Ctx, Finding, Outcome
from c14_src import gen_munkres_src

PROPERTY = "C14"
LEAN_TARGETS = ["QcelVerif.Props.C14", "QcelVerif.Props.C14Inv", "QcelVerif.Props.C14Term", "QcelVerif.Props.C14Exact", "QcelVerif.Lemmas.AssignCert",
                "QcelVerif.Lemmas.MunkresInv", "QcelVerif.Lemmas.MunkresInv2", "QcelVerif.Lemmas.MunkresTerm", "QcelVerif.Lemmas.MunkresExact",
                "QcelVerif.Lemmas.MunkresExactRun", "QcelVerif.Lemmas.MunkresRound", "QcelVerif.Model.MunkresFloat", "QcelVerif.Model.MunkresAst",
                "QcelVerif.Gen.MunkresSrc", "QcelVerif.Lemmas.MunkresSrc.Step136", "QcelVerif.Lemmas.MunkresSrc.Step4", "QcelVerif.Lemmas.MunkresSrc.Step5",
                "QcelVerif.Props.C14Src", "QcelVerif.Driver.C14"]
TRANSLATORS = [gen_munkres_src]  # lean/QcelVerif/Gen/MunkresSrc.lean <- qcelemental/util/scipy_hungarian.py (ast), on every run
DRIVER = "QcelVerif/Driver/C14.lean"
THEOREMS = [
    ("QcelVerif.Assign.cert_optimal",
     "certOK cost (pairs, reduced) -> total(pairs) <= total(tau) for EVERY complete assignment tau; any n x m (weak duality, rectangular included)"),
    ("QcelVerif.Assign.optimal_on_zeros",
     "certOK -> every complete assignment of the same (minimum) cost has reduced = 0 on all its pairs"),
    ("QcelVerif.Assign.certOK_shape",
     "certOK -> min(n,m) in-range pairs, no row/column repeated, rows strictly increasing, reduced >= 0, zero on pairs, reduced = cost - u_i - v_j"),
    ("QcelVerif.Assign.certGap_sound",
     "certGap = some g -> total(pairs) <= total(tau) + g for every complete assignment tau (measured-slack version used for float runs)"),
    ("QcelVerif.Munkres.solve_refuses_bad",
     "ndim != 2, non-numeric dtype, or any inf/nan entry -> solve returns the corresponding error, never an answer"),
    ("QcelVerif.Munkres.solve_reduced_rowcol",
     "for EVERY well-shaped input the Munkres model answers, reduced = cost - u_i - v_j for some u, v (steps 1/6 shift whole rows/columns, steps 3-5 never touch C, transposition undone); proved directly on the model, any size, any fuel"),
    ("QcelVerif.Munkres.solveChecked_optimal_partial",
     "PARTIAL (kept; superseded by solve_optimal): if the Munkres model's answer passes certOK (solveChecked = ok) it is a minimum over all complete assignments and all optima lie on its zeros"),
    ("QcelVerif.Munkres.step1_establishes",
     "step 1 (row minima, greedy starring) from the fresh state establishes Inv at step 3: C >= 0, C = cost - u - v (v = 0 = V), stars independent and on zeros, no primes, nothing covered"),
    ("QcelVerif.Munkres.step3_preserves",
     "Inv at step 3 -> step 3 hands the step-4 loop invariant on (a star's column covered iff its row is not; covered column has a star; no primes yet) or reports done with a star in every row"),
    ("QcelVerif.Munkres.step4_preserves",
     "Inv at step 4 + the while loop finishes -> Inv at step 6, or Inv at step 5 (Z0 a primed zero in a star-free row; star-in-column/prime-in-row links strictly decrease the priming order); primes are uncovered zeros, rows are covered only with star+prime, never-starred columns stay uncovered"),
    ("QcelVerif.Munkres.step5_preserves",
     "Inv at step 5 + the path loop finishes -> the alternating path has no repeated cell, flipping it and erasing primes gives Inv at step 3: stars again independent zeros, every column that had a star keeps one"),
    ("QcelVerif.Munkres.step6_preserves",
     "Inv at step 6 -> Inv at step 4: minval >= 0, C stays >= 0, stars and primes stay zeros, C = cost - u' - v' with never-starred (hence uncovered) columns at the maximal column potential"),
    ("QcelVerif.Munkres.runSteps_preserves",
     "any number of steps, any fuel: a run of the state machine that finishes from a state satisfying Inv ends with C >= 0, C = cost - u - v, independent stars on zeros, one per row, unstarred columns at maximal potential"),
    ("QcelVerif.Munkres.step3_done_cert",
     "Inv at step 3 and step 3 reports done -> the read-out (np.nonzero(marked == 1), C) passes certOK (0 < n <= m)"),
    ("QcelVerif.Munkres.solve_certified",
     "for EVERY well-shaped input the Munkres model answers (any shape; tall through the transpose; empty axes) the answer passes certOK - no certificate hypothesis"),
    ("QcelVerif.Munkres.solve_optimal",
     "solve inp = ok ans, well-shaped -> ans.pairs is a complete assignment with rows strictly increasing, of minimum total cost over ALL complete assignments, every optimum lies on the zeros of ans.red, ans.red >= 0, = 0 on the pairs, = cost - u_i - v_j; termination (= ok) is the only hypothesis"),
    ("QcelVerif.Munkres.solveChecked_eq_solve",
     "on well-shaped inputs solveChecked answers exactly when solve does, with the same answer (notCertified is unreachable)"),
    ("QcelVerif.Munkres.solve_total_partial",
     "PARTIAL (kept; superseded by solve_total): a valid input (2-d, numeric, finite) is answered or the model reports fuel/index exhaustion - no other error"),
    ("QcelVerif.Munkres.step_terminates",
     "every single step terminates under its invariant: the while of step 4 covers a new row at every pass (n+1 fuel suffices), the alternating path of step 5 visits each row at most once (<= 2n-1 <= n+m-1 path entries, n+m+1 fuel suffices, path never overrun)"),
    ("QcelVerif.Munkres.step_decreases",
     "every step strictly decreases the measure mu = (n - #starred rows)(2n+5) + position in the cycle 3->4->(6->4)*->5 + 2(n - #covered rows): step 5 stars one more row, step 6 always creates an uncovered zero, step 4 entered with an uncovered zero covers a new row or goes to step 5"),
    ("QcelVerif.Munkres.solve_total",
     "every valid (2-d, numeric, finite) well-shaped input of any shape is answered: the model never runs out of its fuel 4(n+m)^3+16 and never overruns path (mu(initial) = (n+1)(2n+5) < fuel)"),
    ("QcelVerif.Munkres.solve_correct",
     "TOTAL CORRECTNESS of the solver model: for every valid well-shaped cost matrix solve returns an answer, and it is a complete assignment with rows strictly increasing, of minimum total cost over ALL complete assignments, every optimum lies on the zeros of the reduced matrix, reduced >= 0, = 0 on the pairs, = cost - u_i - v_j"),
    ("QcelVerif.Munkres.visited_values_box",
     "cost entries on a grid g*Z inside [lo,hi], K=hi-lo: at EVERY state the run of solve visits (any shape, tall via the transpose) every working-matrix entry is on the grid and in [0,2K] (= the cost before step 1), every subtracted row minimum is a cost entry, step 6's minval is on the grid in [0,2K], potentials u,v with C = cost-u-v exist on the grid with u in [lo-2K,hi], v in [lo-2K-hi,hi-lo+2K], and every result of an arithmetic operation of _step1/_step6 (x-rowmin, x+minval, (..)-minval) is on the grid and in [0,4K]"),
    ("QcelVerif.Munkres.entries_integral",
     "integer cost entries -> at every visited state every working-matrix entry, every subtracted minimum (row minima, minval), potentials u,v and every arithmetic result is an integer"),
    ("QcelVerif.Munkres.entries_bounded",
     "integer entries with |entry| <= M -> at every visited state everything lies within B(M,n,m) = 8M (independent of n,m): working matrix in [0,4M] ([-M,M] before step 1), row minima in [-M,M], minval in [0,4M], potentials |u|,|v| <= 6M, arithmetic results in [0,8M]"),
    ("QcelVerif.Munkres.solveFloat_eq_solve_box",
     "solveFloat rnd inp = solve inp (same trace, pairs, reduced matrix, same error if any; any shape, any fuel) for EVERY rounding function rnd that is the identity on the grid values in [0,4(hi-lo)], where solveFloat applies rnd to the result of each +/- the implementation performs on the work matrix"),
    ("QcelVerif.Munkres.float_exact_on_small_integers",
     "integer entries, |entry| <= M, 8M <= 2^53 -> the entries, every entry of every visited working matrix and every arithmetic result are Exact53 (integer, |x| <= 2^53), and solveFloat rnd inp = solve inp for every rnd with rnd x = x on Exact53 values"),
    ("QcelVerif.Munkres.float64_exact_run",
     "the same with the CONCRETE IEEE round-to-nearest-even to 53 bits (Hash.rndDouble, proved to be the identity on Exact53): the float64 run equals the exact-rational run"),
    ("QcelVerif.Munkres.no_overflow_int64",
     "integer entries with 8*max|entry| < 2^63 -> every arithmetic result is an integer in [0,2^63) and the run with two's-complement int64 wrap-around at every operation equals the exact run"),
    ("QcelVerif.Munkres.no_overflow_uint64",
     "integer entries with 8*max|entry| < 2^64 -> the run with uint64 wrap-around equals the exact run (every arithmetic result is non-negative)"),
    ("QcelVerif.Munkres.no_overflow_int64_spread",
     "integer entries of ANY magnitude in [lo,hi] with 4(hi-lo) < 2^63 -> the int64 run equals the exact run (only differences of entries are ever formed)"),
    ("QcelVerif.Munkres.trace_states_visited",
     "every _Hungary state recorded in the trace of an answer of solve is a visited state (so the clauses above hold of every state the harness compares)"),
    ("QcelVerif.Munkres.intBoxB_sound",
     "the executable check the driver uses to report 'inside the theorem' (all entries integers in [lo,hi]) implies the hypothesis of the exactness theorems"),
    ("QcelVerif.MunkresAst.step1_src",
     "for ALL states and every rounding function: _step1 as regenerated from the source (row-minima subtraction with axis read from the source, the np.nonzero(C == 0) loop in row-major order, the three masked assignments, _clear_covers, return _step3) = step1F of Model/MunkresFloat.lean (= step1 of Model/Munkres.lean at rnd = id)"),
    ("QcelVerif.MunkresAst.step3_src",
     "for ALL states: the source-derived _step3 (cover columns with a star, compare the star count with C.shape[0], return _step4 or None) = the model's step3"),
    ("QcelVerif.MunkresAst.step4_src",
     "for ALL states: the source-derived _step4 (C/covered_C masks, the while True with argmax/unravel_index, priming, the Z0 stores, the row/column re-covering, return _step5/_step6) run on the model's fuel n+1 = the model's step4 (same state, next step, or fuel error)"),
    ("QcelVerif.MunkresAst.step5_src",
     "for ALL states: the source-derived _step5 (path bookkeeping incl. the two-component path writes, col = -1 with numpy index wrap-around, the flip loop over range(count+1), _clear_covers, prime erasure, return _step3) run on the model's fuel n+m+1 = the model's step5 (same state or same fuel/index error)"),
    ("QcelVerif.MunkresAst.step6_src",
     "for ALL states and every rounding function: the source-derived _step6 (guard, minval over uncovered x uncovered, += on the ~row_uncovered rows THEN -= on the col_uncovered columns, in source order, each result rounded) = step6F of Model/MunkresFloat.lean (the operation order that file had read off by hand)"),
    ("QcelVerif.MunkresAst.doStep_src_float",
     "every step label: the source-derived step function = doStepF rnd of the work-dtype model, for all states and rounding functions"),
    ("QcelVerif.MunkresAst.doStep_src",
     "every step label: the source-derived step function at rnd = id = doStep of the exact model, for all states"),
    ("QcelVerif.MunkresAst.runSteps_src_float",
     "the source-derived `while step is not None: step = step(state)` = runStepsF rnd for EVERY fuel, start label, state and trace prefix"),
    ("QcelVerif.MunkresAst.runSteps_src",
     "the same at rnd = id against runSteps of the exact model, every fuel"),
    ("QcelVerif.MunkresAst.solve_src_float",
     "the source-derived linear_sum_assignment (refusals in source order, the transposition test with the comparison read from the source, _Hungary's constants, first step None on a 0-length axis, the loop, un-transposition, np.nonzero(marked == 1) read-out) = solveFloat rnd for EVERY input and rounding function"),
    ("QcelVerif.MunkresAst.solve_src",
     "the source-derived solver at rnd = id = solve of Model/Munkres.lean for EVERY input (same refusal, or same trace, pairs and reduced matrix)"),
    ("QcelVerif.MunkresAst.solveCapped_ok",
     "what the driver executes for the three-way comparison (the source-derived solver on the smaller fuel min((n+1)(2n+5)+1, 4(n+m)^3+16)) : whenever it answers, the source-derived solver on the model's fuel returns the same answer (more fuel never changes an answer, runSteps_mono)"),
    ("QcelVerif.MunkresAst.solve_src_correct",
     "TOTAL CORRECTNESS restated over the source-derived solver: every valid well-shaped cost matrix is answered with a complete assignment, rows increasing, of minimum total cost over ALL complete assignments; every optimum lies on the zeros of the reduced matrix, which is >= 0, = 0 on the pairs and = cost - u_i - v_j (permutation, optimality and termination in one statement)"),
    ("QcelVerif.MunkresAst.solve_src_refuses_bad",
     "ndim != 2, non-numeric dtype or an inf/nan entry -> the source-derived solver returns the corresponding error for every rounding function"),
    ("QcelVerif.MunkresAst.solve_src_float64_exact",
     "integer entries with 8*max|entry| <= 2^53: the source-derived solver with IEEE round-to-nearest-even at every +/- the SOURCE performs on state.C = its exact run"),
    ("QcelVerif.MunkresAst.solve_src_int64_exact",
     "integer entries with 8*max|entry| < 2^63: the source-derived solver with int64 wrap-around at every source operation = its exact run"),
    ("QcelVerif.MunkresAst.solve_src_uint64_exact",
     "integer entries with 8*max|entry| < 2^64: the same for uint64 wrap-around"),
    ("QcelVerif.MunkresAst.solve_src_box_exact",
     "entries on a grid inside [lo,hi] and rnd the identity on grid values in [0,4(hi-lo)]: the source-derived rounded run = its exact run"),
]
TRUSTED_BASE = [
    "Lean 4.33 kernel; axioms per theorem audited on every run (subset of propext, Classical.choice, Quot.sound)",
    "hand-written model Model/Munkres.lean of scipy_hungarian.py: NO LONGER tied by traces only - the step functions _step1.._step6, _Hungary.__init__/_clear_covers and linear_sum_assignment are REGENERATED FROM THE SOURCE on every run (harness/c14_src.py, Python ast -> Gen/MunkresSrc.lean, terms of the array-statement AST of Model/MunkresAst.lean) and the evaluated terms are PROVED equal to the hand model for all states, all fuel, all inputs (Props/C14Src.lean: step*_src, runSteps_src, solve_src). What remains trusted on this link: (i) the translator harness/c14_src.py (strict: every statement/expression form is matched explicitly, anything else raises and the check reports a broken obligation), (ii) the numpy meaning the evaluator Model/MunkresAst.lean gives each statement form (np.nonzero row-major on the matrix as it is when the loop starts, np.argmax = first maximum, negative column index = wrap-around, boolean-mask += / -=, `while True` on the model's fuel, scalar locals other than _step5's `col` are naturals), (iii) state.C.shape[1] is read as len(col_uncovered) (equal under the proved Shape invariant); all three are exercised by the three-way trace diff (implementation / hand model / source-derived run, every step state); the driver runs the source-derived solver on the smaller fuel capFuel = min((n+1)(2n+5)+1, 4(n+m)^3+16) so that a program regenerated from a mutated, non-terminating source gives up quickly - solveCapped_ok proves an answer on that fuel is the answer on the model's fuel",
    "Model/MunkresFloat.lean: WHICH operations the work dtype performs and IN WHICH ORDER (x - rowmin in _step1; x + minval on covered rows, then (..) - minval on uncovered columns in _step6) is no longer read off by hand: the source-derived steps carry a rounding parameter at every += / -= on state.C that the SOURCE contains, in source order, and are proved equal to step1F / step6F (step1_src, step6_src, solve_src_float); that min/==/argmax never round is part of the evaluator's numpy semantics. WHICH dtype state.C has (float16/32/64 -> float64, bool/int8..64/uint8..32 -> int64, uint64 -> uint64) is still read off the source by hand (the translator only checks that the astype chain has the expected text and treats it as value-preserving); tied by the bit-for-bit trace diff of the inexact:* stream (incl. int64 entries beyond 2^53 and float32/float16/int32/uint32 inputs) and, beyond the bound, by the above:* stream against solveFloat rndDouble",
    "float64 +/- is correctly rounded (IEEE 754 round-to-nearest-even): modelled by Hash.rndDouble (no overflow/subnormals - irrelevant for integers up to 2^57), assumed of numpy/the hardware",
    "Model/AssignCert.lean certificate checker is proved sound (Props/C14.lean); its *use* on float outputs relies on Fraction(float) being exact",
    "numpy elementwise IEEE arithmetic, np.argmax = first maximum, np.nonzero row-major (folded into the model, checked by the trace diff)",
    "harness/c14.py generators, the monkey-patched step tracer, and the Python oracle",
]
ASSUMPTIONS = [
    "real/integer/boolean dtypes; complex, unsigned-overflow and object-numeric matrices are outside the quantifier and not generated (uint32/uint64 matrices are generated only where no unsigned wrap-around can occur: 8*max|entry| < 2^64, no_overflow_uint64, or a spread of a few units in the extreme:* block)",
    "float runs are held to optimality within 1e-9*max(1,max|cost|)*max(n,m) (float Munkres is only eps-optimal); integer and small-dyadic runs exactly",
    "dtype paths covered by the exactness theorems (Props/C14Exact.lean): work dtype float64 (inputs float16/32/64) for integer-valued entries with 8*max|entry| <= 2^53 [float_exact_on_small_integers, float64_exact_run], and more generally for entries on a grid g*Z with rnd the identity on grid values in [0,4*(max-min)] [solveFloat_eq_solve_box: e.g. the multiples of 1/8 below 2^30 of the dyadic streams - for those the identity of IEEE rounding on the grid is the hypothesis, proved concretely only for g = 1]; work dtype int64 (inputs bool, int8..int64, uint8..uint32; integer input is NOT converted to float) for 8*max|entry| < 2^63 or 4*(max-min) < 2^63 [no_overflow_int64, no_overflow_int64_spread]; work dtype uint64 (input uint64) for 8*max|entry| < 2^64 [no_overflow_uint64]. NOT covered: non-integer (non-grid) floats, integer-valued floats with 8*max|entry| > 2^53, integers beyond those bounds (wrap-around possible), the conversion of the caller's array to the work dtype (np.asarray/astype: differential only)",
    "the theorems are about the exact-rational model: partial and total correctness of Munkres (step invariants, termination within 4(n+m)^3+16 steps, n+1 passes of the step-4 loop, n+m+1 links of the step-5 path) are proved for all sizes over Rat; for float inputs whose arithmetic is not exact the implementation may deviate from the model (eps-optimality, and in principle non-termination) - that part is covered by the executed certificate with measured slack and the hang budget",
    "a mutation that changes the step sequence but still yields certified optimal answers is reported as a broken correspondence (VIOLATION ... no-failing-input-found), not as a property failure",
    "source-derived solver: the translator covers exactly the constructs the current scipy_hungarian.py uses (it fails loudly on anything else, e.g. a rewritten loop or a new helper: the check then reports a broken obligation rather than a verdict); the refusal messages are mapped to error kinds by their text prefix; np.asarray and the astype chain are modelled as the identity on values; return_cost=False is the same read-out without the matrix (the translator checks both returns give the same index arrays)",
    "call sequences keep at most the 8 preceding calls of one process as history; dependence on older calls or on another process/thread is not explored; whether the caller's matrix is left unmodified is counted (seq:input_modified) but not demanded",
]
RULE = (
    "a case is one cost matrix (shape, dtype, entries). Exhaustive: every n x m matrix with 0<=n,m<=3 over {0,1,2} and every 4x4 0/1 matrix "
    "(plus 2x4/4x2 over {0,1,2}, 3x4/4x3 over {0,1}; thorough adds 3x5/5x3 over {0,1}, 2x5/5x2 over {0,1,2}), "
    "each with a full step-trace diff against the Lean model. Sampled from VERIF_SEED: integer/negative/boolean/dyadic-float/duplicated-row/"
    "duplicated-column/rectangular matrices up to 8x8 (trace diff + brute force), exact integer up to 40x40 (result diff + dual bound), real-valued up to "
    "40x40 (proved certificate checker in exact rationals + dual bound, brute force <= 8x8), and a refusal stream (inf/nan/str/object/1-d/3-d). "
    "Long runs (block:longrun:*): structured 2..40 x 2..40 tables r_i + c_j +- w_i*p_j with monotone w, p (multiplicative/rank-one, Monge, squared "
    "distances of two sorted value lists, (i+j+1)^2), also row/column-permuted, negated, sparsely perturbed, rectangular, as int64, /8 and "
    "inexact float64 — the inputs on which Munkres needs ~n*m/(n+m) step calls per row+column (a 40x40 one ~1700 calls; counted under steps/(n+m):*), "
    "with trace / result diff against the model or the proved certificate checker. Call sequences (seq:*): 2..6 consecutive calls on the live "
    "module on matrices of one shape (or its transpose, sometimes another), dtype class and value range changing between calls (int64/int32/bool/"
    "exact and inexact float64/a refused non-finite one), each call index-only (return_cost=False) or with return_cost=True; every answer is judged "
    "by the property on its own (index-only answers: matching clauses and minimum total, brute force <= 8x8, beyond that against a dual-certified "
    "total of the same matrix) and, on exactly representable matrices, compared with the stateless model; a failing call is recorded with the calls "
    "that preceded it (shortened to the shortest tail that reproduces it in a fresh process) and replayed as that sequence. "
    "Work-dtype streams (block:inexact:*, block:above:*): integer matrices 1..12 x 1..12 of large magnitude (uniform/signed/offset+small/duplicated/powers of two/scaled "
    "Monge and squared-distance tables) as float64 up to 2^40, int64 up to 2^40 and up to 2^59 (beyond float64's 2^53), float32 up to 2^24, float16 up to 2^11, "
    "int32, uint32, uint64 up to 2^60; the driver runs the model IN THE WORK DTYPE (solveFloat with IEEE rounding / int64 / uint64 wrap-around) and reports "
    "M = max|entry|, B(M,n,m) = 8M and whether the hypotheses of the exactness theorems hold; inside them the implementation's full step trace, pairs and reduced "
    "matrix must equal the model's bit for bit and the property is held exactly (Fractions oracle, return_cost and index-only call); block:above:f64 = integer-valued "
    "float64 with 2^53 < 8*max|entry| <= 2^56, 2..8 x 2..8: judged by the property with the float tolerance and compared with the float64 model only (agreement with the exact model is counted, not demanded). "
    "Three-way: every full-trace line (op T: exhaustive, rnd8, longrun...; op F: the work-dtype streams) is evaluated by the driver twice - by the hand model and by the "
    "source-derived solver (ops TS / FS: Gen/MunkresSrc.lean regenerated from the source on this run, evaluated by Model/MunkresAst.lean, in exact arithmetic or in the work dtype) - "
    "and the implementation's state after every step is compared with both (kinds mismatch:source-derived, mismatch:source-vs-model). "
    "Distinct = distinct (shape,dtype,entries); non-trivial = the run leaves step 3 at least once (needs priming/augmenting/adjusting) or is refused."
)
LEVEL_TEXT = (
    "proof: proved for all sizes — the optimality certificate (a certified answer is a true minimum over all complete "
    "assignments and all optima lie on its zeros, rectangular included), the Munkres step invariants through steps 1,3,4,5,6 and any number of steps, "
    "termination of every step and of the state machine within the model's fuel, hence TOTAL correctness of the exact-arithmetic solver model "
    "(every valid well-shaped input is answered, and the answer is a complete assignment of minimum cost with a non-negative reduced matrix "
    "= cost - u - v vanishing on the pairs; tall inputs via the transpose), and refusal of bad input; and the WORK DTYPE is inside the proved part where it is exact: the model with a rounding function at every +/- of "
    "the work matrix (solveFloat) provably equals the exact model - whole trace and reduced matrix - for integer entries with 8*max|entry| <= 2^53 in float64 "
    "(concrete IEEE round-to-nearest-even), < 2^63 in int64, < 2^64 in uint64 (every intermediate value is proved to be an integer inside B(M,n,m) = 8M, working matrix "
    "within 4M, for every shape), and for any grid/rounding pair that is exact on [0, 4*spread]; the hand-written model is now tied to the code by PROOF: the step functions, "
    "the state machine loop and the pre/post-processing are regenerated from scipy_hungarian.py by a translator on every run and proved equal to the model for all states/inputs "
    "(including which operations round, and in which order), so total correctness, refusal and the exact-dtype theorems are restated over the source-derived solver (solve_src_correct ...); "
    "partial in that the translator and the numpy semantics of the ~40 statement/expression forms of the array-statement AST are trusted (and exercised by the three-way "
    "exhaustive small-scope + sampled full step traces), and which dtype the work array has is still read off by hand; float rounding is outside the "
    "proved part only for non-integer (non-grid) or huge inputs - there the float64 model is differential only and optimality is held within the stated tolerance"
)
TECHNIQUE = "Lean 4 proof of weak duality for rectangular assignment (certificate checker) + Lean 4 invariant and termination proof (total correctness) of the Munkres model + Lean 4 proof that the run in the work dtype (float64 / int64 / uint64) equals the exact run inside an explicit magnitude bound + step-trace correspondence (exact model and work-dtype model) + brute-force oracle"

STEP_CAP = 20000
HANG_BUDGET = 4  # after this many non-terminating calls the stream is cut short (each costs a time-out)


# --------------------------------------------------------------------------------------
# instrumentation of the real module: wrap the module-level step functions so that the real
# `linear_sum_assignment` loop (validation, transposition, read-out included) logs every step.


class _Tr:
    steps: list = []
    states: list = []
    full = False


class StepCap(Exception):
    pass


class Timeout(Exception):
    pass


_H = None


def hungarian():
    global _H
    if _H is not None:
        return _H
    import qcelemental.util.scipy_hungarian as H

    def wrap(name):
        f = getattr(H, name)

        def w(state):
            if len(_Tr.steps) >= STEP_CAP:
                raise StepCap()
            nxt = f(state)
            _Tr.steps.append(name[-1])
            if _Tr.full:
                _Tr.states.append(snapshot(state))
            return nxt

        w.__name__ = name
        return w

    for nm in ("_step1", "_step3", "_step4", "_step5", "_step6"):
        setattr(H, nm, wrap(nm))
    _H = H
    return H


def rat(x) -> str:
    if isinstance(x, (int, np.integer, bool, np.bool_)):
        return str(int(x))
    f = Fraction(float(x))
    return str(f.numerator) if f.denominator == 1 else f"{f.numerator}/{f.denominator}"


def snapshot(state) -> str:
    try:
        return _snapshot(state)
    except Exception as e:  # never let the tracer's own failure look like the implementation's  # noqa
        return "unprintable-state:" + type(e).__name__


def _snapshot(state) -> str:
    return ";".join(
        [
            " ".join(ent(x) for x in state.C.ravel().tolist()),
            "".join(str(int(x)) for x in state.marked.ravel().tolist()),
            "".join("1" if b else "0" for b in state.row_uncovered.tolist()),
            "".join("1" if b else "0" for b in state.col_uncovered.tolist()),
            f"{int(state.Z0_r)},{int(state.Z0_c)}",
            " ".join(f"{int(r)}.{int(c)}" for r, c in state.path.tolist()),
        ]
    )


def _alarm(signum, frame):
    raise Timeout()


def call_impl(arr, full=False, limit=20.0, return_cost=True):
    """-> ('ok', steps, rows, cols, reduced, states) | ('err', kind, msg) | ('hang', why)
    return_cost=False is the plain index-only call `linear_sum_assignment(cost)`; reduced is then None"""
    H = hungarian()
    _Tr.steps, _Tr.states, _Tr.full = [], [], full
    old = signal.signal(signal.SIGALRM, _alarm)
    signal.setitimer(signal.ITIMER_REAL, limit)
    try:
        if return_cost:
            (rows, cols), red = H.linear_sum_assignment(arr, return_cost=True)
            red = np.asarray(red)
        else:
            (rows, cols), red = H.linear_sum_assignment(arr), None
        return ("ok", "".join(_Tr.steps), np.asarray(rows), np.asarray(cols), red, list(_Tr.states))
    except StepCap:
        return ("hang", f"more than {STEP_CAP} steps")
    except Timeout:
        return ("hang", f"no answer within {limit}s")
    except ValueError as e:
        msg = str(e)
        if msg.startswith("expected a matrix (2-d array)"):
            k = "ndim"
        elif msg.startswith("expected a matrix containing numerical"):
            k = "dtype"
        elif msg.startswith("matrix contains invalid numeric"):
            k = "nonfinite"
        else:
            k = "ValueError:other"
        return ("err", k, msg)
    except Exception as e:  # noqa
        return ("err", "other:" + type(e).__name__, str(e))
    finally:
        signal.setitimer(signal.ITIMER_REAL, 0)
        signal.signal(signal.SIGALRM, old)


# --------------------------------------------------------------------------------------
# encoding


def dt_code(arr) -> str:
    if arr.dtype == np.dtype(bool):
        return "b"
    if np.issubdtype(arr.dtype, np.integer):
        return "i"
    if np.issubdtype(arr.dtype, np.floating):
        return "f"
    return "o"


def ent(x) -> str:
    if isinstance(x, float):
        if x != x:
            return "nan"
        if x == float("inf"):
            return "inf"
        if x == float("-inf"):
            return "-inf"
    return rat(x)


def enc_solve(op, arr) -> str:
    dt = dt_code(arr)
    if arr.ndim != 2:
        return f"{op}|{arr.ndim}|0|0|{dt}|"
    n, m = arr.shape
    body = "" if dt == "o" else " ".join(ent(x) for x in arr.ravel().tolist())
    return f"{op}|2|{n}|{m}|{dt}|{body}"


def enc_cert(arr, rows, cols, red) -> str:
    n, m = arr.shape
    return "K|{}|{}|{}|{}|{}".format(
        n,
        m,
        " ".join(rat(x) for x in arr.ravel().tolist()),
        " ".join(f"{int(r)},{int(c)}" for r, c in zip(rows.tolist(), cols.tolist())),
        " ".join(rat(x) for x in red.ravel().tolist()),
    )


def canon_impl(res, full) -> str:
    if res[0] == "err":
        return "err|" + res[1]
    if res[0] == "hang":
        return "hang|" + res[1]
    _, steps, rows, cols, red, states = res
    if red is None:  # index-only call: nothing but the pairs comes back
        return "|".join(["ok", steps, " ".join(f"{int(r)},{int(c)}" for r, c in zip(rows.tolist(), cols.tolist()))])
    head = "|".join(
        [
            "ok",
            steps,
            " ".join(f"{int(r)},{int(c)}" for r, c in zip(rows.tolist(), cols.tolist())),
            " ".join(ent(x) for x in red.ravel().tolist()),
            "1",
        ]
    )
    return head + ("|" + "#".join(states) if full else "")


def case_json(arr):
    if arr.dtype == object or arr.dtype.kind in "US":
        return {"dtype": str(arr.dtype), "shape": list(arr.shape), "repr": [repr(x) for x in arr.ravel().tolist()]}
    return {"dtype": str(arr.dtype), "shape": list(arr.shape), "entries": [ent(x) for x in arr.ravel().tolist()]}


def case_array(case):
    shape = tuple(case["shape"])
    dt = case["dtype"]
    if "repr" in case:
        import ast

        vals = [ast.literal_eval(x) for x in case["repr"]]
        a = np.empty(len(vals), dtype=object)
        a[:] = vals
        return a.reshape(shape).astype(dt) if dt != "object" else a.reshape(shape)
    vals = []
    for s in case["entries"]:
        if s in ("nan", "inf", "-inf"):
            vals.append(float(s))
        elif "/" in s:
            vals.append(float(Fraction(s)))
        else:
            vals.append(int(s))
    if dt == "bool":
        return np.array([bool(v) for v in vals], dtype=bool).reshape(shape)
    return np.array(vals, dtype=dt).reshape(shape)


# --------------------------------------------------------------------------------------
# the independent oracle

_PERMS = {}


def perms(n, m):
    """all injections of n rows into m columns (n <= m), as an index array (P, n)"""
    key = (n, m)
    if key not in _PERMS:
        _PERMS[key] = np.array(list(itertools.permutations(range(m), n)), dtype=np.intp).reshape(-1, n)
    return _PERMS[key]


def is_exact(arr) -> bool:
    """float arithmetic of Munkres is exact on this matrix (integers / multiples of 1/8 of moderate size)"""
    if arr.dtype == np.dtype(bool) or np.issubdtype(arr.dtype, np.integer):
        return bool(arr.size == 0 or np.abs(arr.astype(np.int64)).max() < 2**40)
    if not np.issubdtype(arr.dtype, np.floating) or not np.all(np.isfinite(arr)):
        return False
    s = arr * 8.0
    return bool(np.all(s == np.rint(s)) and (arr.size == 0 or np.abs(arr).max() < 2**30))


def valid_input(arr) -> bool:
    return arr.ndim == 2 and dt_code(arr) != "o" and bool(np.all(np.isfinite(arr)))


def oracle(arr, res, ref_total=None):
    """The property, stated directly on the implementation's answer. Returns [(kind, message)].
    An index-only answer (return_cost=False: res[4] is None) is held to the matching clauses only: min(n,m) pairs,
    nothing repeated, rows increasing, total = minimum (brute force <= 8x8; beyond that against `ref_total`, the
    total of an answer to the same matrix that passed this oracle's dual-bound certificate, when one is given)."""
    bad = []
    if not valid_input(arr):
        # refusal clause
        if res[0] == "ok":
            bad.append(("oracle:refuse", "non-finite / non-numeric / non-2-d input was answered instead of refused"))
        elif res[0] == "hang":
            bad.append(("oracle:terminates", res[1]))
        elif not (res[1] in ("ndim", "dtype", "nonfinite", "ValueError:other")):
            bad.append(("oracle:refuse", f"refused with {res[1]} instead of ValueError"))
        return bad
    if res[0] == "hang":
        return [("oracle:terminates", res[1])]
    if res[0] == "err":
        return [("oracle:accepts", f"finite numeric matrix refused: {res[1]}: {res[2]}")]
    _, steps, rows, cols, red, _ = res
    index_only = red is None
    n, m = arr.shape
    k = min(n, m)
    exact = is_exact(arr)
    cost = arr.astype(np.int64) if arr.dtype == np.dtype(bool) else arr
    scale = float(np.abs(cost).max()) if cost.size else 0.0
    tol = 0.0 if exact else 1e-9 * max(1.0, scale) * max(n, m, 1)
    # --- shape of the matching
    if rows.ndim != 1 or cols.ndim != 1:
        return [("oracle:matching", f"row/column indices have shapes {rows.shape}/{cols.shape}")]
    if len(rows) != k or len(cols) != k:
        return [("oracle:matching", f"{len(rows)} pairs returned, expected min(n,m)={k}")]
    if k and (rows.min() < 0 or rows.max() >= n or cols.min() < 0 or cols.max() >= m):
        return [("oracle:matching", "index out of range")]
    if len(set(cols.tolist())) != k or len(set(rows.tolist())) != k:
        bad.append(("oracle:matching", "a row or column is repeated"))
    if any(b <= a for a, b in zip(rows.tolist(), rows.tolist()[1:])):
        bad.append(("oracle:rows_sorted", "row indices are not increasing"))
    if bad:
        return bad
    # --- reduced matrix
    if not index_only:
        if red.shape != arr.shape:
            return [("oracle:reduced_shape", f"reduced has shape {red.shape}")]
        if red.size and not np.all(np.isfinite(red)):
            return [("oracle:reduced_nonneg", "reduced matrix has non-finite entries")]
        if red.size and red.min() < 0:
            bad.append(("oracle:reduced_nonneg", f"reduced matrix has a negative entry {red.min()!r}"))
        if k and np.any(red[rows, cols] != 0):
            bad.append(("oracle:reduced_zero_on_pairs", "reduced matrix is not zero on a chosen pair"))
        if k:
            D = cost - red
            dev = D - D[:, :1] - D[:1, :] + D[0, 0]
            if np.abs(dev).max() > tol:
                bad.append(("oracle:reduced_rowcol", f"cost - reduced is not u_i + v_j (max deviation {np.abs(dev).max()!r})"))
    # --- optimality
    tot = cost[rows, cols].sum() if k else 0
    if k and n <= 8 and m <= 8:
        wide = cost if n <= m else cost.T
        P = perms(k, max(n, m))
        sums = wide[np.arange(k)[None, :], P].sum(axis=1)
        best = sums.min()
        if tot > best + tol or tot < best - tol:
            bad.append(("oracle:optimal", f"total {tot!r} but brute-force minimum {best!r}" + (" (index-only call)" if index_only else "")))
        elif not index_only:
            # every optimal assignment lies on the zeros of the reduced matrix
            wred = red if n <= m else red.T
            opt = P[sums <= best + (0 if exact else tol * 1e-3)]
            on = wred[np.arange(k)[None, :], opt]
            if np.abs(on).max() > 4 * tol:
                bad.append(("oracle:optima_on_zeros", f"an optimal assignment crosses a reduced entry {np.abs(on).max()!r}"))
    elif k and index_only and ref_total is not None:
        if tot > ref_total + tol or tot < ref_total - tol:
            bad.append(("oracle:optimal", f"total {tot!r} of the index-only call but the certified minimum is {ref_total!r}"))
    if k and not bad and not index_only:
        # dual bound (valid for any u, v): every complete assignment costs at least
        #   sum of the smaller side's potentials + the k smallest potentials of the larger side + k*min(residual,0)
        wide = cost if n <= m else cost.T
        wred = red if n <= m else red.T
        D = wide - wred
        u = D[:, 0]
        v = D[0, :] - D[0, 0]
        resid = wide - u[:, None] - v[None, :]
        lb = u.sum() + np.sort(v)[:k].sum() + k * min(0, resid.min())
        if tot > lb + (tol if not exact else 0):
            bad.append(("oracle:optimal_dual", f"total {tot!r} exceeds the dual lower bound {lb!r} read off the reduced matrix"))
    return bad


# --------------------------------------------------------------------------------------
# generators


def gen_exhaustive(ctx):
    for n in range(0, 4):
        for m in range(0, 4):
            if n == 0 or m == 0:
                yield "ex3", "T", np.zeros((n, m), dtype=np.int64)
                yield "ex3", "T", np.zeros((n, m), dtype=np.float64)
                continue
            for e in itertools.product((0, 1, 2), repeat=n * m):
                yield "ex3", "T", np.array(e, dtype=np.int64).reshape(n, m)
    for e in itertools.product((0, 1), repeat=16):
        yield "ex4", "T", np.array(e, dtype=np.int64).reshape(4, 4)
    # beyond the property's named scopes: tie-heavy rectangular shapes (unmatched columns / transposed runs)
    extra = [((2, 4), (0, 1, 2)), ((4, 2), (0, 1, 2)), ((3, 4), (0, 1)), ((4, 3), (0, 1))]
    if ctx.thorough:
        extra += [((3, 5), (0, 1)), ((5, 3), (0, 1)), ((2, 5), (0, 1, 2)), ((5, 2), (0, 1, 2))]
    for (n, m), vals in extra:
        for e in itertools.product(vals, repeat=n * m):
            yield "exrect", "T", np.array(e, dtype=np.int64).reshape(n, m)


def _dup(rng, a):
    a = a.copy()
    n, m = a.shape
    if n >= 2 and rng.random() < 0.7:
        i, j = rng.sample(range(n), 2)
        a[j] = a[i]
    if m >= 2 and rng.random() < 0.5:
        i, j = rng.sample(range(m), 2)
        a[:, j] = a[:, i]
    return a


def gen_small_random(ctx):
    """<= 8x8, exactly representable: full trace diff + brute force"""
    rng = ctx.rng
    for _ in range(ctx.scale(3000, 60000)):
        n, m = rng.randint(1, 8), rng.randint(1, 8)
        if rng.random() < 0.35:
            m = n
        kind = rng.choice(["int_small", "int_small", "int_wide", "neg", "bool", "dyadic", "dup", "float_bool", "colconst"])
        if kind == "int_small":
            hi = rng.choice([1, 2, 3, 5])
            a = np.array([[rng.randint(0, hi) for _ in range(m)] for _ in range(n)], dtype=np.int64)
        elif kind == "int_wide":
            a = np.array([[rng.randint(0, 1000) for _ in range(m)] for _ in range(n)], dtype=np.int64)
        elif kind == "neg":
            hi = rng.choice([2, 4, 50])
            a = np.array([[rng.randint(-hi, hi) for _ in range(m)] for _ in range(n)], dtype=rng.choice([np.int64, np.int32, np.float64]))
        elif kind == "bool":
            p = rng.choice([0.3, 0.5, 0.8])
            a = np.array([[rng.random() < p for _ in range(m)] for _ in range(n)], dtype=bool)
        elif kind == "float_bool":
            p = rng.choice([0.3, 0.6])
            a = np.array([[float(rng.random() < p) for _ in range(m)] for _ in range(n)], dtype=np.float64)
        elif kind == "dyadic":
            hi = rng.choice([8, 24, 400])
            a = np.array([[rng.randint(-hi, hi) / 8.0 for _ in range(m)] for _ in range(n)], dtype=np.float64)
        elif kind == "colconst":
            # rank-one-plus-sparse: many ties after the row reduction
            r = [rng.randint(0, 6) for _ in range(n)]
            c = [rng.randint(0, 6) for _ in range(m)]
            a = np.array([[r[i] + c[j] + (rng.randint(1, 3) if rng.random() < 0.3 else 0) for j in range(m)] for i in range(n)], dtype=np.int64)
        else:
            hi = rng.choice([2, 9])
            a = _dup(rng, np.array([[rng.randint(0, hi) for _ in range(m)] for _ in range(n)], dtype=np.int64))
        yield "rnd8:" + kind, "T", a


def gen_large_exact(ctx):
    """9..40, integers: result diff (steps, pairs, reduced) + dual bound"""
    rng = ctx.rng
    for _ in range(ctx.scale(40, 800)):
        n, m = rng.randint(9, 40), rng.randint(9, 40)
        if rng.random() < 0.4:
            m = n
        if not ctx.thorough and n * m > 700:
            n, m = min(n, 24), min(m, 24)
        hi = rng.choice([1, 3, 10, 1000])
        a = np.array([[rng.randint(-hi if rng.random() < 0.3 else 0, hi) for _ in range(m)] for _ in range(n)], dtype=np.int64)
        if rng.random() < 0.25:
            a = _dup(rng, a)
        yield "int40", "R", a


def gen_real(ctx):
    """real-valued: certificate in exact rationals (Lean) + brute force <= 8x8 + dual bound"""
    rng = ctx.rng
    for _ in range(ctx.scale(1500, 30000)):
        n, m = rng.randint(1, 8), rng.randint(1, 8)
        if rng.random() < 0.35:
            m = n
        kind = rng.choice(["unif", "gauss", "dup", "sq", "tiny", "nearties", "nearties"])
        if kind == "unif":
            a = np.array([[rng.uniform(0, 100) for _ in range(m)] for _ in range(n)])
        elif kind == "gauss":
            a = np.array([[rng.gauss(0, 3) for _ in range(m)] for _ in range(n)])
        elif kind == "tiny":
            a = np.array([[rng.uniform(-1e-3, 1e-3) for _ in range(m)] for _ in range(n)])
        elif kind == "nearties":
            # integer ties broken by float noise far below any sensible cutoff (what align.py's cost matrices look like)
            hi = rng.choice([1, 2, 5])
            eps = rng.choice([1e-13, 1e-11, 1e-10])
            a = np.array([[rng.randint(0, hi) + rng.uniform(-eps, eps) for _ in range(m)] for _ in range(n)])
        elif kind == "sq":
            # the consumer's cost (align.py:364-367): squared differences of two value lists with repeats
            x = [rng.choice([1.0, 2.5, rng.uniform(0, 5)]) for _ in range(n)]
            y = [rng.choice([1.0, 2.5, rng.uniform(0, 5)]) for _ in range(m)]
            a = np.array([[(100.0 * x[i] - 100.0 * y[j]) ** 2 for j in range(m)] for i in range(n)])
        else:
            a = _dup(rng, np.array([[rng.uniform(-10, 10) for _ in range(m)] for _ in range(n)]))
        yield "real8:" + kind, "K", a
    for _ in range(ctx.scale(60, 1000)):
        n, m = rng.randint(9, 40), rng.randint(9, 40)
        if rng.random() < 0.4:
            m = n
        if not ctx.thorough and n * m > 900:
            n, m = min(n, 30), min(m, 30)
        if rng.random() < 0.5:
            a = np.array([[rng.uniform(0, 100) for _ in range(m)] for _ in range(n)])
        else:
            a = np.array([[rng.gauss(0, 1) for _ in range(m)] for _ in range(n)])
        if rng.random() < 0.2:
            a = _dup(rng, a)
        yield "real40", "K", a


def gen_refusals(ctx):
    rng = ctx.rng
    for _ in range(ctx.scale(300, 2000)):
        n, m = rng.randint(1, 6), rng.randint(1, 6)
        a = np.array([[float(rng.randint(0, 5)) for _ in range(m)] for _ in range(n)])
        for _k in range(rng.choice([1, 1, 2, 3])):
            a[rng.randrange(n), rng.randrange(m)] = rng.choice([float("inf"), float("-inf"), float("nan")])
        yield "refuse:nonfinite", "T", a
    for _ in range(ctx.scale(60, 300)):
        n, m = rng.randint(1, 4), rng.randint(1, 4)
        which = rng.choice(["str", "obj", "mixed", "1d", "3d", "0d", "strnum"])
        if which == "str":
            a = np.array([[rng.choice(["a", "b", "x1"]) for _ in range(m)] for _ in range(n)])
        elif which == "strnum":
            a = np.array([[str(rng.randint(0, 9)) for _ in range(m)] for _ in range(n)])
        elif which == "obj":
            a = np.empty((n, m), dtype=object)
            for i in range(n):
                for j in range(m):
                    a[i, j] = rng.choice([None, 1, 2.5])
            a[rng.randrange(n), rng.randrange(m)] = None
        elif which == "mixed":
            a = np.array([[rng.choice([1, "a"]) for _ in range(m)] for _ in range(n)] + [["z"] * m])
        elif which == "1d":
            a = np.array([float(rng.randint(0, 5)) for _ in range(m)])
        elif which == "0d":
            a = np.array(float(rng.randint(0, 5)))
        else:
            a = np.zeros((n, m, 2))
        yield "refuse:" + which, "T", a


def _sorted_distinct(rng, n, hi):
    """n strictly increasing positive integers"""
    return sorted(rng.sample(range(1, max(hi, n + 1) + 1), n))


def gen_longrun(ctx):
    """Long runs: Monge-type / multiplicative tables  cost[i,j] = r_i + c_j +- w_i*p_j  (w, p monotone), the squared-distance
    costs of the consumer (align.py) between two long value lists, and row/column-permuted, noisy, negated, rectangular and
    non-integer variants. Random matrices need ~1 state transition per row+column; these need ~n*m/(n+m) times as many
    (a 40x40 table about 1700 step calls, 21 per row+column), so anything that depends on the *number* of step-4/5/6 rounds
    (a bounded loop, a path/work buffer sized from the shape, accumulated round-off) only shows here."""
    rng = ctx.rng
    total = ctx.scale(300, 1500)
    for t in range(total):
        # a third small (full trace + brute force), a third medium, a third large
        lo, hi = ((2, 8), (9, 22), (23, 40))[t % 3]
        n = rng.randint(lo, hi)
        m = n
        if rng.random() < 0.4:
            m = rng.randint(max(2, n - 6), min(40, n + 6))
        kind = rng.choice(["outer", "outer", "outer_rnd", "monge", "monge", "sqdist", "sumsq"])
        if kind == "outer":
            a0, b0 = rng.choice([0, 1, 1, 1, 3]), rng.choice([0, 1, 1, 1, 3])
            s1, s2 = rng.choice([1, 1, 2]), rng.choice([1, 1, 3])
            w = [a0 + s1 * i for i in range(n)]
            p = [b0 + s2 * j for j in range(m)]
            a = np.outer(w, p)
        elif kind == "outer_rnd":
            top = rng.choice([n + m, 60, 200])
            a = np.outer(_sorted_distinct(rng, n, top), _sorted_distinct(rng, m, top))
        elif kind == "monge":
            top = rng.choice([n + m, 50])
            w, p = _sorted_distinct(rng, n, top), _sorted_distinct(rng, m, top)
            r = [rng.randint(0, 30) for _ in range(n)]
            c = [rng.randint(0, 30) for _ in range(m)]
            sgn = rng.choice([1, -1])
            a = np.array([[r[i] + c[j] + sgn * w[i] * p[j] for j in range(m)] for i in range(n)], dtype=np.int64)
        elif kind == "sqdist":
            # (x_i - y_j)^2 = x_i^2 + y_j^2 - 2 x_i y_j: what align.py builds from two sorted lists of distinct values
            x = _sorted_distinct(rng, n, rng.choice([2 * (n + m), 100]))
            y = _sorted_distinct(rng, m, rng.choice([2 * (n + m), 100]))
            off = rng.choice([0, 0, max(x) + 1])
            a = np.array([[(x[i] - (y[j] + off)) ** 2 for j in range(m)] for i in range(n)], dtype=np.int64)
        else:
            a = np.array([[(i + j + 1) ** 2 for j in range(m)] for i in range(n)], dtype=np.int64)
        a = np.asarray(a, dtype=np.int64)
        if rng.random() < 0.25:
            a = -a
        if rng.random() < 0.3:
            a = a[rng.sample(range(n), n)][:, rng.sample(range(m), m)]
        if rng.random() < 0.2:
            # sparse noise: breaks some of the structure's ties, keeps the long run
            a = a + np.array([[rng.randint(1, 2) if rng.random() < 0.1 else 0 for _ in range(m)] for _ in range(n)], dtype=np.int64)
        a = np.ascontiguousarray(a)
        form = rng.choice(["int", "int", "int", "dyadic", "real", "real"])
        if form == "dyadic":
            a = a / 8.0
        elif form == "real":
            a = a * rng.choice([0.1, 1.0 / 3.0, 0.37, 1e-3])
        if form == "real":
            op = "K"  # float run: proved certificate checker on the answer, in exact rationals
        elif max(n, m) <= 8:
            op = "T"  # full step trace against the model
        elif n * m <= (900 if ctx.thorough else 1024):
            op = "R"  # steps, pairs, reduced against the model
        else:
            op = "K"
        yield f"longrun:{kind}:{form}", op, a


SEQ_HISTORY = 8  # calls of history kept with every call of a sequence (what a replay re-issues first)


def _seq_matrix(rng, n, m, kind):
    if kind == "int":
        hi = rng.choice([1, 3, 9, 1000])
        return np.array([[rng.randint(0, hi) for _ in range(m)] for _ in range(n)], dtype=np.int64)
    if kind == "int32neg":
        hi = rng.choice([2, 50])
        return np.array([[rng.randint(-hi, hi) for _ in range(m)] for _ in range(n)], dtype=np.int32)
    if kind == "bool":
        return np.array([[rng.random() < 0.5 for _ in range(m)] for _ in range(n)], dtype=bool)
    if kind == "dyadic":
        return np.array([[rng.randint(-24, 24) / 8.0 for _ in range(m)] for _ in range(n)], dtype=np.float64)
    if kind == "unit":
        return np.array([[rng.random() for _ in range(m)] for _ in range(n)], dtype=np.float64)
    if kind == "real":
        s = rng.choice([1.0, 3.0, 100.0])
        return np.array([[rng.uniform(-s, s) for _ in range(m)] for _ in range(n)], dtype=np.float64)
    if kind == "nonfinite":
        a = np.array([[float(rng.randint(0, 5)) for _ in range(m)] for _ in range(n)], dtype=np.float64)
        a[rng.randrange(n), rng.randrange(m)] = rng.choice([float("inf"), float("nan")])
        return a
    raise ValueError(kind)


def gen_sequences(ctx):
    """Call sequences in one process. A sequence is 2..6 consecutive calls on matrices of one shape (sometimes the transposed
    shape, occasionally another one), the dtype / value range changing from call to call (int64, int32, bool, exact and inexact
    float64, now and then a refused non-finite matrix), each call either index-only `linear_sum_assignment(cost)` or with
    return_cost=True. Every answer is judged on its own by the property; anything a call inherits from an earlier one
    (recycled work arrays, cached shapes/dtypes, results) can only show in such a stream."""
    rng = ctx.rng
    kinds = ["int", "int", "int32neg", "bool", "dyadic", "unit", "unit", "real", "real"]
    for _ in range(ctx.scale(700, 7000)):
        if rng.random() < 0.12:
            n, m = rng.randint(9, 20), rng.randint(9, 20)
        else:
            n, m = rng.randint(1, 8), rng.randint(1, 8)
        if rng.random() < 0.4:
            m = n
        p_index_only = rng.choice([1.0, 0.7, 0.7, 0.3])
        calls = []
        for _c in range(rng.randint(2, 6)):
            r = rng.random()
            sh = (n, m) if r < 0.72 else (m, n) if r < 0.92 else (rng.randint(1, 8), rng.randint(1, 8))
            kind = "nonfinite" if rng.random() < 0.03 else rng.choice(kinds)
            calls.append((kind, _seq_matrix(rng, sh[0], sh[1], kind), rng.random() >= p_index_only))
        yield calls


# --------------------------------------------------------------------------------------


def key_of(arr) -> str:
    return f"{arr.shape}{arr.dtype}{arr.tobytes().hex() if arr.dtype != object else repr(arr.tolist())}"


def _run_driver(ctx, lines, tag):
    """ctx.run_model with its own input file, so that several driver processes can run side by side"""
    import subprocess
    from pathlib import Path

    import common

    if not lines:
        return []
    # three-way: every trace line (T, F) is also evaluated by the SOURCE-DERIVED solver (Gen/MunkresSrc.lean, ops TS / FS)
    own = list(lines)
    src_of = [k for k, l in enumerate(own) if l.startswith(("T|", "F|"))]
    lines = own + [("TS" if own[k][0] == "T" else "FS") + own[k][1:] for k in src_of]
    inp = ctx.work / f"c14_{tag}.in"
    inp.write_text("\n".join(lines) + "\n")
    exe = common.LEAN / ".lake" / "build" / "bin" / ("drv_" + Path(DRIVER).stem.lower())
    cmd = [str(exe)] if exe.exists() else ["lake", "env", "lean", "--run", DRIVER]
    with open(inp) as fh:
        p = subprocess.run(cmd, cwd=common.LEAN, stdin=fh, capture_output=True, text=True, timeout=3000)
    if p.returncode != 0:
        raise common.ModelCrash(f"driver {DRIVER} exited {p.returncode}: {p.stderr[-2000:]}")
    res = p.stdout.split("\n")
    if res and res[-1] == "":
        res.pop()
    if len(res) != len(lines):
        raise common.ModelCrash(f"driver {DRIVER}: {len(lines)} lines in, {len(res)} lines out; stderr={p.stderr[-1000:]}")
    for k, src_line in zip(src_of, res[len(own):]):
        hand = res[k] if own[k][0] == "T" else res[k].rpartition("@")[0]
        _SRC[own[k]] = src_line
        _SRC_STATS["lines"] += 1
        _SRC_STATS["states"] += src_line.count("#") + 1 if src_line.startswith("ok|") and src_line.count("|") >= 5 and src_line.split("|")[1] else 0
        if src_line != hand:
            _SRC_DIFF.append((own[k], hand, src_line))
    return res[:len(own)]


# source-derived lines of the three-way comparison: input line -> output of the TS / FS op; disagreements hand model / source-derived
_SRC: dict = {}
_SRC_DIFF: list = []
_SRC_STATS = {"lines": 0, "states": 0, "impl_compared": 0}


def _first_state_diff(x, y):
    a, b = x.split("|"), y.split("|")
    if len(a) != len(b) or a[0] != "ok" or len(a) < 6:
        return "error/ok"
    names = ["status", "step sequence", "pairs", "reduced", "certOK", "state trace"]
    where = ",".join(names[i] for i in range(6) if a[i] != b[i])
    for i, (u_, v_) in enumerate(zip(a[5].split("#"), b[5].split("#"))):
        if u_ != v_:
            where += f" (first at step #{i + 1} = _step{(b[1] + '?')[min(i, len(b[1]))]}: {u_[:160]} / {v_[:160]})"
            break
    return where


def src_three_way(out: Outcome, line, arr, ci, hang=False, drop_cert=False):
    """implementation vs the SOURCE-DERIVED run (the third leg; hand model vs source-derived is compared in _run_driver)"""
    src = _SRC.get(line)
    if src is None or hang:
        return
    _SRC_STATS["impl_compared"] += 1
    x, y = src, ci
    if drop_cert:
        dc = lambda l: "|".join(t for i, t in enumerate(l.split("|")) if i != 4)  # noqa: E731
        x, y = dc(x), dc(y)
    if x != y:
        out.mismatches.append(Finding("mismatch:source-derived", {"matrix": case_json(arr), "op": line.split("|")[0]}, observed=ci[:3000], expected=src[:3000],
                                      detail="implementation vs the solver REGENERATED FROM THE SOURCE (Gen/MunkresSrc.lean evaluated by Model/MunkresAst.lean) differ in: "
                                      + _first_state_diff(src, ci)))


def src_flush(out: Outcome):
    for line, hand, src in _SRC_DIFF[:20]:
        out.mismatches.append(Finding("mismatch:source-vs-model", {"line": line[:2000]}, observed=src[:3000], expected=hand[:3000],
                                      detail="source-derived run (TS/FS) differs from the hand model (T/F) - contradicts Props/C14Src.lean solve_src / solve_src_float: "
                                      + _first_state_diff(hand, src)))
    out.count("threeway:lines", _SRC_STATS["lines"])
    out.count("threeway:states", _SRC_STATS["states"])
    out.count("threeway:impl_vs_source_derived", _SRC_STATS["impl_compared"])
    out.count("threeway:source_vs_model_disagreements", len(_SRC_DIFF))
    out.notes.append("three-way: {} trace lines ({} step states) evaluated by the hand model AND by the source-derived solver; {} implementation traces compared with both; {} hand/source disagreements".format(
        _SRC_STATS["lines"], _SRC_STATS["states"], _SRC_STATS["impl_compared"], len(_SRC_DIFF)))
    _SRC.clear()
    _SRC_DIFF.clear()
    for k_ in _SRC_STATS:
        _SRC_STATS[k_] = 0


def impl_phase(ctx, out: Outcome, tag, op, arr, res=None):
    """run the implementation on one case, evaluate the oracle, record the distribution; returns (res, canonical line)"""
    if res is None:
        res = call_impl(arr, full=(op == "T"), limit=3.0 if arr.size <= 16 else 10.0 if arr.size <= 100 else 120.0)
    out.evaluations += 1
    out.count("block:" + tag)
    if arr.ndim == 2:
        n, m = arr.shape
        out.count("shape:" + ("0-dim" if 0 in arr.shape else "square" if n == m else "wide" if n < m else "tall"))
        out.count("size:" + ("<=4" if max(n, m) <= 4 else "<=8" if max(n, m) <= 8 else "<=40"))
    ci = canon_impl(res, full=(op == "T"))
    if res[0] == "hang":
        out.count("hangs")
    if res[0] == "ok":
        steps = res[1]
        out.count("path:" + ("trivial" if set(steps) <= set("13") else "augment-only" if "6" not in steps else "adjust+augment"))
        out.count("steps:" + ("0" if not steps else "<=4" if len(steps) <= 4 else "<=12" if len(steps) <= 12 else "<=50" if len(steps) <= 50 else ">50"))
        if "4" in steps:
            out.nontrivial(key_of(arr))
        if arr.ndim == 2 and arr.size:
            q = len(steps) / float(sum(arr.shape))
            out.count("steps/(n+m):" + ("<=2" if q <= 2 else "<=5" if q <= 5 else "<=10" if q <= 10 else "<=15" if q <= 15 else ">15"))
    else:
        out.count("outcome:" + ci.split("#")[0][:40])
        out.nontrivial(key_of(arr))
    for kind, msg in oracle(arr, res):
        out.violations.append(Finding(kind, {"matrix": case_json(arr), "op": op}, observed=ci[:2000], detail=msg))
    return res, ci


def _dt_class(arr):
    return {"b": "int", "i": "int", "f": "float"}.get(dt_code(arr), "other") if valid_input(arr) else "refused"


def _seq_case(hist, arr, rc):
    return {"op": "S", "matrix": case_json(arr), "return_cost": bool(rc),
            "history": [{"matrix": case_json(a), "return_cost": bool(r)} for a, r in hist]}


def _seq_limit(arr):
    return 3.0 if arr.size <= 16 else 10.0 if arr.size <= 100 else 120.0


def _seq_judge(arr, keep, rc, res):
    """the property on one call of a sequence -> (verdicts, extra single-matrix findings of the reference call)"""
    ref_total, extra = None, []
    if res[0] == "ok" and not rc and valid_input(keep) and max(keep.shape) > 8 and min(keep.shape) > 0:
        # beyond brute force: the minimum is taken from an answer to the same matrix that carries a tight dual certificate
        ref = call_impl(keep.copy(), limit=_seq_limit(keep), return_cost=True)
        extra = oracle(keep, ref)
        if ref[0] == "ok" and not extra:
            cost = keep.astype(np.int64) if keep.dtype == np.dtype(bool) else keep
            ref_total = cost[ref[2], ref[3]].sum()
    return oracle(keep, res, ref_total=ref_total), extra


def seq_phase(ctx, out: Outcome, seqs, hung):
    """the call sequences: every call is issued on the live module in order and judged by the property on its own.
    Returns [(hist, keep, rc, res, ci)] for the model diff."""
    from collections import deque

    recent = deque(maxlen=SEQ_HISTORY)
    log = []
    prev = None
    for calls in seqs:
        out.count("seq:sequences")
        for kind, arr, rc in calls:
            if hung():
                return log
            keep = arr.copy()
            hist = tuple(recent)
            res = call_impl(arr, full=False, limit=_seq_limit(arr), return_cost=rc)
            ci = canon_impl(res, full=False)
            out.evaluations += 1
            out.count("block:seq:" + kind)
            out.count("seq:call:" + ("return_cost" if rc else "index-only"))
            cur = (_dt_class(keep), keep.shape, rc)
            if prev is not None:
                rel = "same-shape" if prev[1] == cur[1] else "transposed-shape" if prev[1] == cur[1][::-1] else "other-shape"
                out.count("seq:after:other-shape" if rel == "other-shape" else f"seq:after:{prev[0]}->{cur[0]}:{rel}")
                if not prev[2] and not rc and rel != "other-shape" and prev[0] != cur[0]:
                    out.nontrivial("seq" + key_of(keep) + key_of(recent[-1][0]))
            prev = cur
            if res[0] == "hang":
                out.count("hangs")
            if not (arr.shape == keep.shape and arr.dtype == keep.dtype and arr.tobytes() == keep.tobytes()):
                out.count("seq:input_modified")  # not part of the property; the answer is judged against the matrix as given
            verdicts, extra = _seq_judge(arr, keep, rc, res)
            for k_, msg in verdicts:
                out.violations.append(Finding(k_, _seq_case(hist, keep, rc), observed=ci[:2000],
                                              detail=msg + f" [call #{len(hist) + 1} of a stream; return_cost={rc}]"))
            for k_, msg in extra:
                out.violations.append(Finding(k_, {"matrix": case_json(keep), "op": "K"}, detail=msg))
            log.append((hist, keep, rc, (res[0],), ci))
            recent.append((keep, rc))
    return log


def seq_diff(out: Outcome, log, lines):
    """model (stateless) vs the implementation's answer inside a sequence: status, step sequence, pairs (+ reduced)"""
    for (hist, keep, rc, res, ci), ml in zip(log, lines):
        if len(hist) >= 2 and not rc and keep.size >= 4 and hist[-1][0].shape == keep.shape and hist[-1][0].dtype != keep.dtype:
            out.sample({"block": "seq", "preceding_calls": [{"shape": list(a.shape), "dtype": str(a.dtype), "return_cost": r} for a, r in hist[-2:]],
                        "input": case_json(keep) if keep.size <= 16 else {"shape": list(keep.shape), "dtype": str(keep.dtype)}, "return_cost": rc,
                        "impl": ci[:120], "model": (ml or "(inexact floats: judged by the oracle only)")[:120]}, limit=12)
        if ml is None or res[0] == "hang":
            continue
        a, b = ml.split("|"), ci.split("|")
        if a[0] == "ok" and b[0] == "ok":
            same = a[:len(b)] == b
        else:
            same = a[:2] == b[:2]
        if not same:
            out.mismatches.append(Finding("mismatch", _seq_case(hist, keep, rc), observed=ci[:3000], expected=ml[:3000],
                                          detail="a call inside a sequence answers differently from the (stateless) Lean Munkres model"))


def _fresh_kinds(case):
    """violation kinds of one sequence case in a fresh interpreter (same QCEL_REPO); None if that could not be run"""
    import json
    import os
    import subprocess
    import sys

    try:
        p = subprocess.run([sys.executable, os.path.abspath(__file__)], input=json.dumps(case), capture_output=True, text=True, timeout=900)
        return set(json.loads(p.stdout.strip().splitlines()[-1]))
    except Exception:  # noqa
        return None


def _shorten_history(f: Finding):
    """keep the shortest tail of the history with which the failure shows in a fresh process"""
    hist = f.case.get("history", [])
    for ln in sorted({0, 1, 2, 3, len(hist)}):
        if ln > len(hist):
            continue
        trial = dict(f.case, history=hist[len(hist) - ln:])
        kinds = _fresh_kinds(trial)
        if kinds is None:
            return
        if f.kind in kinds:
            f.case = trial
            f.detail += f" [shows in a fresh process after the {ln} preceding call(s) kept in the case]"
            return
    f.detail += f" [did NOT show in a fresh process with the {len(hist)} preceding calls kept: depends on earlier calls of this run]"


def _seq_replay_verdicts(case):
    """re-issue the history, then the call; -> (res, ci, verdicts of the last call)"""
    for h in case.get("history", []):
        a = case_array(h["matrix"])
        call_impl(a, full=False, limit=_seq_limit(a), return_cost=bool(h["return_cost"]))
    arr = case_array(case["matrix"])
    keep = arr.copy()
    rc = bool(case["return_cost"])
    res = call_impl(arr, full=False, limit=_seq_limit(arr), return_cost=rc)
    verdicts, _ = _seq_judge(arr, keep, rc, res)
    return keep, rc, res, canon_impl(res, full=False), verdicts


def cert_phase(out: Outcome, op, arr, res, ci, cert_line):
    """the proved checker's verdict on the implementation's answer (float runs)"""
    if cert_line is None or res[0] != "ok":
        return
    f = cert_line.split("|")
    n, m = arr.shape
    scale = float(np.abs(arr).max()) if arr.size else 0.0
    tol = 1e-9 * max(1.0, scale) * max(n, m, 1)
    okc = len(f) == 5 and f[0] == "cert" and f[1] == "1" and f[2] == "1" and f[4] != "-"
    if okc:
        gap = float(Fraction(f[4]))
        out.count("cert:exact" if f[3] == "1" else "cert:gap<=1e-12*scale" if gap <= 1e-12 * max(1.0, scale) else "cert:gap<=tol" if gap <= tol else "cert:gap>tol")
        okc = gap <= tol
    if not okc:
        out.violations.append(Finding("oracle:certificate", {"matrix": case_json(arr), "op": op}, observed=cert_line[:300],
                                      expected=f"cert|1|1|_|gap<={tol!r}",
                                      detail="the implementation's (pairs, reduced) fails the Lean-proved certificate checker in exact arithmetic"))


def diff_phase(out: Outcome, tag, op, arr, res, ci, model_line):
    """model vs implementation"""
    if tag.startswith(("rnd8", "int40", "refuse", "replay")) or (tag.startswith("real") and arr.size <= 4):
        out.sample({"block": tag, "input": case_json(arr) if arr.size <= 16 else {"shape": list(arr.shape), "dtype": str(arr.dtype)},
                    "impl": ci[:160], "model": (model_line or "")[:160]}, limit=8)
    if tag.startswith("longrun") and arr.size > 64:
        out.sample({"block": tag, "input": {"shape": list(arr.shape), "dtype": str(arr.dtype), "first_row": [ent(x) for x in arr[0].tolist()][:6]},
                    "impl": ci[:80], "step_calls": len(ci.split("|")[1]) if ci.startswith("ok|") else None, "model": (model_line or "")[:80]}, limit=10)
    if op == "T" and model_line is not None:
        src_three_way(out, enc_solve("T", arr), arr, ci, hang=(res[0] == "hang"))
    if model_line is None or op not in ("T", "R") or res[0] == "hang" or model_line == ci:
        return
    a, b = model_line.split("|"), ci.split("|")
    where = "error/ok"
    if len(a) == len(b) and a[0] == "ok":
        names = ["status", "step sequence", "pairs", "reduced", "model certOK", "state trace"]
        d = [names[i] for i in range(len(a)) if a[i] != b[i]]
        where = ",".join(d)
        if "state trace" in d:
            sa, sb = a[5].split("#"), b[5].split("#")
            for i, (x, y) in enumerate(zip(sa, sb)):
                if x != y:
                    where += f" (first at step #{i + 1} = _step{(b[1] + '?')[min(i, len(b[1]))]}: impl {y[:200]} / model {x[:200]})"
                    break
    out.mismatches.append(Finding("mismatch", {"matrix": case_json(arr), "op": op}, observed=ci[:3000], expected=model_line[:3000],
                                  detail="implementation vs Lean Munkres model differ in: " + where))


# --------------------------------------------------------------------------------------
# extreme magnitudes for the dtype (exact oracle in Python integers / Fractions; no model line: the values are outside
# the Lean driver's comfortable range only in size, but the point of this block is the implementation's INPUT PREAMBLE:
# dtype promotion, the finiteness test and the work dtype, which must not lose or refuse finite values)


def gen_extreme(ctx):
    """Finite matrices whose values are extreme for their dtype while every Munkres difference stays exactly representable:
    entries = base + scale*k with small integer k.  Classes: float16 / float32 / float64 whose SUM overflows the dtype although
    every entry is finite; uint64 and int64 offsets far beyond 2**53 (distinguishable only in integer arithmetic)."""
    rng = ctx.rng
    for _ in range(ctx.scale(160, 2000)):
        cls = rng.choice(["f16sum", "f32sum", "f64sum", "u64big", "i64big", "i64neg", "f16big"])
        n, m = rng.randint(2, 6), rng.randint(2, 6)
        if rng.random() < 0.4:
            m = n
        if cls == "f16sum":
            n = m = rng.randint(30, 40) if rng.random() < 0.3 else rng.randint(5, 7)
            a = np.array([[float(rng.randint(1000, 2040) if n <= 7 else rng.randint(60, 200)) for _ in range(m)] for _ in range(n)], dtype=np.float16)
        elif cls == "f16big":
            a = np.array([[float(rng.choice([20000, 30000, 24000, 28000, 32000])) for _ in range(m)] for _ in range(n)], dtype=np.float16)
        elif cls == "f32sum":
            a = np.array([[float(rng.randint(1, 200)) * 2.0**120 for _ in range(m)] for _ in range(n)], dtype=np.float32)
        elif cls == "f64sum":
            n, m = max(n, 4), max(m, 4)
            a = np.array([[float(rng.randint(1, 5)) * 2.0**1020 for _ in range(m)] for _ in range(n)], dtype=np.float64)
        elif cls == "u64big":
            base = rng.choice([2**60, 2**62, 2**63, 2**64 - 64, 2**53 + 1])
            a = np.array([[base + rng.randint(0, 9) for _ in range(m)] for _ in range(n)], dtype=np.uint64)
        elif cls == "i64big":
            base = rng.choice([2**60, 2**62, 2**63 - 64, 2**53 + 1])
            a = np.array([[base + rng.randint(0, 9) for _ in range(m)] for _ in range(n)], dtype=np.int64)
        else:
            base = -rng.choice([2**60, 2**62, 2**63 - 64, 2**53 + 1])
            a = np.array([[base + rng.randint(0, 9) for _ in range(m)] for _ in range(n)], dtype=np.int64)
        yield "extreme:" + cls, a


def gen_forms(ctx):
    """The same cost matrices handed over in the other array-like forms callers use: nested lists / tuples, np.matrix,
    numpy masked arrays without a mask, Fortran-ordered and strided views, read-only arrays; and a few LARGE matrices
    (130..180 rows or columns: index bookkeeping beyond one byte) of small integers with many ties."""
    rng = ctx.rng
    for _ in range(ctx.scale(120, 1200)):
        n, m = rng.randint(1, 6), rng.randint(1, 6)
        if rng.random() < 0.4:
            m = n
        a = np.array([[rng.randint(0, 9) for _ in range(m)] for _ in range(n)], dtype=rng.choice([np.int64, np.float64]))
        form = rng.choice(["list", "tuple", "matrix", "masked-nomask", "fortran", "strided", "readonly", "memoryview", "array-protocol"])
        yield "form:" + form, a, form
    # non-native byte order (data read with np.frombuffer / np.fromfile / memmap): the narrow types with values that need the
    # promotion to 64 bits (integer spread beyond the type's range; float32 values differing beyond its mantissa after reduction)
    for _ in range(ctx.scale(60, 600)):
        n, m = rng.randint(2, 5), rng.randint(2, 5)
        dt = rng.choice([">i2", ">u2", ">i4", ">u4", ">f4", ">f2", ">i8", ">f8"])
        if dt in (">i2",):
            vals = [[rng.choice([-30000, 30000, -32000, 32000]) + rng.randint(-9, 9) for _ in range(m)] for _ in range(n)]
        elif dt == ">u2":
            vals = [[rng.choice([0, 65000, 33000]) + rng.randint(0, 9) for _ in range(m)] for _ in range(n)]
        elif dt == ">i4":
            vals = [[rng.choice([-2**31 + 10, 2**31 - 20, 0]) + rng.randint(0, 9) for _ in range(m)] for _ in range(n)]
        elif dt == ">u4":
            vals = [[rng.choice([0, 2**32 - 20, 2**31]) + rng.randint(0, 9) for _ in range(m)] for _ in range(n)]
        elif dt == ">f4":
            vals = [[float(rng.choice([0, 2**20, -(2**20)]) + rng.randint(0, 9)) for _ in range(m)] for _ in range(n)]
        elif dt == ">f2":
            vals = [[float(rng.choice([0, 1024, -1024]) + rng.randint(0, 9)) for _ in range(m)] for _ in range(n)]
        else:
            vals = [[rng.randint(-9, 9) for _ in range(m)] for _ in range(n)]
        yield "form:byteswapped:" + dt, np.array(vals, dtype=dt), "plain"
    for _ in range(ctx.scale(3, 12)):
        n, m = rng.randint(130, 180), rng.randint(130, 180)
        if rng.random() < 0.5:
            m = n
        hi = rng.choice([3, 5, 9])
        yield "form:large", np.array([[rng.randint(0, hi) for _ in range(m)] for _ in range(n)], dtype=np.int64), "plain"


def in_form(a, form):
    if form == "list":
        return a.tolist()
    if form == "tuple":
        return tuple(tuple(r) for r in a.tolist())
    if form == "matrix":
        import warnings

        with warnings.catch_warnings():
            warnings.simplefilter("ignore")
            return np.matrix(a)
    if form == "masked-nomask":
        return np.ma.masked_array(a)
    if form == "fortran":
        return np.asfortranarray(a)
    if form == "strided":
        big = np.repeat(np.repeat(a, 2, axis=0), 2, axis=1)
        return big[::2, ::2]
    if form == "readonly":
        b = a.copy()
        b.setflags(write=False)
        return b
    if form == "memoryview":
        return memoryview(a.copy())
    if form == "array-protocol":
        class _Wrap:  # an array-like that hands out ITS OWN storage (DataFrame-like wrappers do)
            def __init__(self, x):
                self.x = x

            def __array__(self, dtype=None, copy=None):
                return self.x if dtype is None else self.x.astype(dtype, copy=False)

        return _Wrap(a.copy())
    return a


def forms_phase(ctx, out: Outcome):
    for tag, arr, form in gen_forms(ctx):
        arg = in_form(arr, form)
        res = call_impl(arg, full=False, limit=120.0)
        # the caller's matrix is the caller's: still the same values after the call, and a second call on the very same object
        # gives the same answer
        after = np.asarray(arg.x if form == "array-protocol" else arg)
        if after.shape == arr.shape and not np.array_equal(after, arr):
            out.violations.append(Finding("oracle:input_modified", {"matrix": case_json(arr), "op": "X", "form": form}, observed=case_json(np.asarray(after))["entries"][:12],
                                          detail=f"[cost matrix passed as {form}] the caller's matrix was overwritten by linear_sum_assignment"))
            continue
        res_idx = call_impl(arg if form in ("memoryview", "array-protocol", "readonly", "fortran", "strided") else in_form(arr, form), full=False, limit=120.0, return_cost=False)
        out.evaluations += 2
        out.count("block:" + tag)
        out.nontrivial(key_of(arr) + form)
        for kind, msg in oracle_exact(arr, res, res_idx):
            out.violations.append(Finding(kind, {"matrix": case_json(arr), "op": "X", "form": form}, observed=canon_impl(res, full=False)[:2000],
                                          detail=f"[cost matrix passed as {form}] " + msg))


def _exact(x):
    from fractions import Fraction

    if isinstance(x, (bool, np.bool_)):
        return Fraction(int(x))
    if isinstance(x, (int, np.integer)):
        return Fraction(int(x))
    return Fraction(float(x))


def oracle_exact(arr, res, res_idx):
    """The property on one finite numeric matrix, in exact arithmetic (no numpy reductions in the input's dtype)."""
    from fractions import Fraction

    bad = []
    n, m = arr.shape
    k = min(n, m)
    C = [[_exact(arr[i, j]) for j in range(m)] for i in range(n)]
    for label, r in (("return_cost", res), ("index-only", res_idx)):
        if r[0] == "hang":
            bad.append(("oracle:terminates", f"{label}: {r[1]}"))
        elif r[0] == "err":
            bad.append(("oracle:accepts", f"{label}: finite numeric matrix refused: {r[1]}: {r[2]}"))
    if bad:
        return bad
    best = None
    if k <= 6 and max(n, m) <= 7:
        if n <= m:
            best = min(sum(C[i][p[i]] for i in range(k)) for p in itertools.permutations(range(m), k))
        else:
            best = min(sum(C[p[j]][j] for j in range(k)) for p in itertools.permutations(range(n), k))
    for label, r in (("return_cost", res), ("index-only", res_idx)):
        rows, cols, red = r[2], r[3], r[4]
        if rows.ndim != 1 or len(rows) != k or len(cols) != k or len(set(rows.tolist())) != k or len(set(cols.tolist())) != k:
            bad.append(("oracle:matching", f"{label}: not min(n,m) distinct row/column pairs"))
            continue
        if any(b <= a for a, b in zip(rows.tolist(), rows.tolist()[1:])):
            bad.append(("oracle:rows_sorted", f"{label}: row indices are not increasing"))
        tot = sum(C[int(i)][int(j)] for i, j in zip(rows.tolist(), cols.tolist()))
        if best is not None and tot != best:
            bad.append(("oracle:optimal", f"{label}: total {tot} but the exact brute-force minimum is {best} (excess {tot - best})"))
        if red is not None:
            if red.shape != arr.shape or not np.all(np.isfinite(np.asarray(red, dtype=float))):
                bad.append(("oracle:reduced_shape", f"{label}: reduced matrix has shape {red.shape} or non-finite entries"))
                continue
            R = [[_exact(red[i, j]) for j in range(m)] for i in range(n)]
            if min(min(row) for row in R) < 0:
                bad.append(("oracle:reduced_nonneg", f"{label}: reduced matrix has a negative entry"))
            if any(R[int(i)][int(j)] != 0 for i, j in zip(rows.tolist(), cols.tolist())):
                bad.append(("oracle:reduced_zero_on_pairs", f"{label}: reduced matrix is not zero on a chosen pair"))
            D = [[C[i][j] - R[i][j] for j in range(m)] for i in range(n)]
            if any(D[i][j] - D[i][0] - D[0][j] + D[0][0] != 0 for i in range(n) for j in range(m)):
                bad.append(("oracle:reduced_rowcol", f"{label}: cost - reduced is not u_i + v_j exactly"))
            elif best is None and n == m and not bad:
                # square: sum(u) + sum(v) bounds every assignment from below when reduced >= 0; equality on the returned one
                lb = sum(D[i][0] for i in range(n)) + sum(D[0][j] - D[0][0] for j in range(m))
                if tot != lb:
                    bad.append(("oracle:optimal_dual", f"{label}: total {tot} differs from the dual bound {lb}"))
    return bad


def extreme_phase(ctx, out: Outcome):
    for tag, arr in gen_extreme(ctx):
        res = call_impl(arr, full=False, limit=30.0)
        res_idx = call_impl(arr, full=False, limit=30.0, return_cost=False)
        out.evaluations += 2
        out.count("block:" + tag)
        out.nontrivial(key_of(arr))
        for kind, msg in oracle_exact(arr, res, res_idx):
            out.violations.append(Finding(kind, {"matrix": case_json(arr), "op": "X"}, observed=canon_impl(res, full=False)[:2000], detail=msg))



# --------------------------------------------------------------------------------------
# the work dtype inside the proved part (Props/C14Exact.lean): integer matrices of large magnitude on which, by
# float_exact_on_small_integers / no_overflow_int64 / no_overflow_uint64, the implementation's run in float64 / int64 /
# uint64 must coincide with the exact model bit for bit (every _Hungary state, the pairs, the reduced matrix); and a
# stream just above the bound, where it need not (reported, not judged against the exact model).


def work_dtype(arr) -> str:
    """dtype of state.C for this input (scipy_hungarian.py:103-110): bool/int8..int64/uint8..uint32 -> int64, uint64 stays,
    float16/32/64 -> float64"""
    if arr.dtype == np.dtype(bool) or (arr.dtype.kind in "iu" and arr.dtype.itemsize < 8) or arr.dtype == np.dtype(np.int64):
        return "i64"
    if arr.dtype == np.dtype(np.uint64):
        return "u64"
    return "f64"


def _int_table(rng, n, m, top):
    """n x m Python integers of magnitude <= top: uniform, offset + small (ties), duplicated rows/columns, scaled Monge tables
    (many step-6 rounds)"""
    kind = rng.choice(["unif", "unif", "signed", "offset", "offset", "dup", "monge", "sqdist", "pow2"])
    if kind == "unif":
        a = [[rng.randint(0, top) for _ in range(m)] for _ in range(n)]
    elif kind == "signed":
        a = [[rng.randint(-top, top) for _ in range(m)] for _ in range(n)]
    elif kind == "offset":
        base = rng.choice([1, -1]) * rng.randint(top // 2, top - 16) if top > 64 else 0
        hi = rng.choice([1, 2, 9])
        a = [[base + rng.randint(0, hi) for _ in range(m)] for _ in range(n)]
    elif kind == "dup":
        a = _dup(rng, np.array([[rng.randint(0, 9) for _ in range(m)] for _ in range(n)], dtype=object)).tolist()
        sc = max(1, top // 16)
        a = [[x * sc for x in row] for row in a]
    elif kind == "pow2":
        a = [[rng.choice([1, -1]) * (1 << rng.randint(0, max(1, top.bit_length() - 1))) for _ in range(m)] for _ in range(n)]
    else:
        w, p_ = _sorted_distinct(rng, n, n + m), _sorted_distinct(rng, m, n + m)
        if kind == "monge":
            raw = [[w[i] * p_[j] for j in range(m)] for i in range(n)]
        else:
            raw = [[(w[i] - p_[j]) ** 2 for j in range(m)] for i in range(n)]
        mx = max(max(abs(x) for x in row) for row in raw) or 1
        sc = max(1, top // mx)
        sg = rng.choice([1, 1, -1])
        a = [[sg * x * sc for x in row] for row in raw]
    return a


def gen_exact_large(ctx):
    """(tag, arr): 'inexact:*' = inside the exactness theorems, 'above:*' = float64 just above the bound"""
    rng = ctx.rng
    for _ in range(ctx.scale(420, 5000)):
        n, m = rng.randint(1, 12), rng.randint(1, 12)
        if rng.random() < 0.4:
            m = n
        cls = rng.choice(["f64", "f64", "f64", "i64", "i64", "i64big", "f32", "f16", "i32", "u64", "u32"])
        if cls == "f64":
            a = np.array(_int_table(rng, n, m, 2 ** rng.choice([20, 33, 40, 40])), dtype=np.float64)
        elif cls == "i64":
            a = np.array(_int_table(rng, n, m, 2 ** rng.choice([20, 40, 40])), dtype=np.int64)
        elif cls == "i64big":
            # beyond 2**53 (a float64 work array would round these), 8*max|entry| still < 2**63
            a = np.array(_int_table(rng, n, m, 2 ** rng.choice([54, 58, 59])), dtype=np.int64)
        elif cls == "f32":
            a = np.array(_int_table(rng, n, m, 2 ** 24), dtype=np.float32)
        elif cls == "f16":
            a = np.array(_int_table(rng, n, m, 2 ** 11), dtype=np.float16)
        elif cls == "i32":
            a = np.array(_int_table(rng, n, m, 2 ** 31 - 1), dtype=np.int32)
        elif cls == "u64":
            a = np.array([[abs(x) for x in row] for row in _int_table(rng, n, m, 2 ** rng.choice([20, 40, 60]))], dtype=np.uint64)
        else:
            a = np.array([[abs(x) for x in row] for row in _int_table(rng, n, m, 2 ** 32 - 1)], dtype=np.uint32)
        yield "inexact:" + cls, a
    for _ in range(ctx.scale(120, 1500)):
        n, m = rng.randint(2, 8), rng.randint(2, 8)
        if rng.random() < 0.4:
            m = n
        # entries are doubles (|x| <= 2**53) but 8*max|x| > 2**53: sums / differences of the run may round
        a = np.array(_int_table(rng, n, m, 2 ** rng.choice([51, 52, 53])), dtype=np.float64)
        yield "above:f64", a


def enc_float(arr) -> str:
    return enc_solve("F", arr) + "|" + work_dtype(arr)


def exact_judge(out: Outcome, tag, arr, ci, res, res_idx, line):
    """one case of the work-dtype streams against the driver's F line `<run in the work dtype>@M|B|inside|spread|same`"""
    case = {"matrix": case_json(arr), "op": "F"}
    if res_idx is not None:
        for kind, msg in oracle_exact(arr, res, res_idx):
            out.violations.append(Finding(kind, case, observed=ci[:2000], detail=msg + " [integer matrix inside the exactness theorem: held exactly]"))
    else:
        for kind, msg in oracle(arr, res):
            out.violations.append(Finding(kind, case, observed=ci[:2000], detail=msg))
    if line is None or res[0] == "hang":
        return
    head, _, meta = line.rpartition("@")
    f = meta.split("|")
    if len(f) != 5 or not head:
        out.mismatches.append(Finding("mismatch", case, observed=ci[:500], expected=line[:500], detail="driver F line malformed"))
        return
    M, B, inside, spread, same = f
    within = inside == "1" or spread == "1"
    out.count(f"exact:{work_dtype(arr)}:" + ("inside-theorem" if within else "outside-theorem"))
    out.sample({"block": tag, "shape": list(arr.shape), "dtype": str(arr.dtype), "work_dtype": work_dtype(arr), "max_abs_entry": M,
                "B(M,n,m)=8M": B, "inside_theorem": within, "model_float_run==model_exact_run": same == "1",
                "impl==model_float_run": ci == head}, limit=6 if tag.startswith("inexact") else 4)
    if tag.startswith("inexact") and not within:
        out.mismatches.append(Finding("mismatch", case, observed=meta, detail="generator produced a matrix outside the exactness theorem in the inside stream (harness bug)"))
        return
    src_three_way(out, enc_float(arr), arr, ci, drop_cert=not within)
    if within:
        if same != "1":
            out.mismatches.append(Finding("mismatch", case, observed=line[:3000], detail="the model's run in the work dtype differs from its exact run although the theorem's hypotheses hold (contradicts solveFloat_eq_solve_box)"))
        if ci != head:
            a, b = head.split("|"), ci.split("|")
            names = ["status", "step sequence", "pairs", "reduced", "model certOK", "state trace"]
            where = ",".join(names[i] for i in range(min(len(a), len(b), 6)) if a[i] != b[i]) or "error/ok"
            out.mismatches.append(Finding("mismatch", case, observed=ci[:3000], expected=head[:3000],
                                          detail=f"inside the exactness theorem (B={B}, work dtype {work_dtype(arr)}) the implementation must equal the exact model bit for bit; differs in: " + where))
    else:
        # above the bound: nothing is demanded beyond the property itself (oracle above); agreement is only reported
        drop_cert = lambda l: [x for i, x in enumerate(l.split("|")) if i != 4]  # noqa: E731  (the model's certOK flag of a rounded answer)
        out.count("above:impl==model_float_run:" + ("yes" if drop_cert(ci) == drop_cert(head) else "no"))
        if drop_cert(ci) != drop_cert(head):
            # not demanded against the EXACT model; but the float64 model (solveFloat rndDouble: IEEE rounding at each +/- of the
            # work matrix) is a model of the code too, and integer-valued doubles up to 2**53 are inside what it models
            out.mismatches.append(Finding("mismatch", case, observed=ci[:3000], expected=head[:3000],
                                          detail="above the exactness bound: the implementation's float64 run differs from the float64 model (solveFloat rndDouble)"))
        out.count("above:impl==model_exact_run:" + ("yes" if same == "1" and drop_cert(ci) == drop_cert(head) else "no"))
        out.count("above:model_float_run==model_exact_run:" + ("yes" if same == "1" else "no"))


def exact_phase(ctx, out: Outcome):
    cases = list(gen_exact_large(ctx))
    done = []
    for tag, arr in cases:
        if out.distribution.get("hangs", 0) >= HANG_BUDGET:
            break
        keep = arr.copy()
        res = call_impl(arr, full=True, limit=30.0)
        res_idx = call_impl(keep.copy(), full=False, limit=30.0, return_cost=False) if tag.startswith("inexact") else None
        out.evaluations += 1 + (res_idx is not None)
        out.count("block:" + tag)
        if res[0] == "hang":
            out.count("hangs")
        if res[0] == "ok" and "4" in res[1]:
            out.nontrivial(key_of(keep))
        if res[0] == "ok" and "6" in res[1]:
            out.count("exact:runs_with_step6")
        done.append((tag, keep, canon_impl(res, full=True), (res[0],) + tuple(res[1:5]) + ((),) if res[0] == "ok" else res, res_idx))
    lines = _run_driver(ctx, [enc_float(a) for _, a, _, _, _ in done], "f") if ctx.model_available else [None] * len(done)
    for (tag, arr, ci, res, res_idx), line in zip(done, lines):
        exact_judge(out, tag, arr, ci, res, res_idx, line)


def cert_ready(arr, res):
    return res[0] == "ok" and len(res[2]) == len(res[3]) and res[4].shape == arr.shape and bool(np.all(np.isfinite(res[4])))


NPROC = 3


def run(ctx: Ctx) -> Outcome:
    from concurrent.futures import ThreadPoolExecutor

    out = Outcome()
    cases = []
    for g in (gen_real, gen_exhaustive, gen_small_random, gen_large_exact, gen_refusals, gen_longrun):
        cases.extend(g(ctx))
    seqs = list(gen_sequences(ctx))
    pool = ThreadPoolExecutor(2 * NPROC + 2)
    # the Lean model runs (in NPROC driver processes) while the implementation is evaluated in this thread
    tidx = [i for i, (tag, op, arr) in enumerate(cases) if op in ("T", "R") and not tag.startswith("longrun")]
    lidx = [i for i, (tag, op, arr) in enumerate(cases) if op in ("T", "R") and tag.startswith("longrun")]
    tfut = []
    sfut = None
    if ctx.model_available:
        per = (len(tidx) + NPROC - 1) // NPROC
        for k in range(NPROC):
            part = tidx[k * per:(k + 1) * per]
            tfut.append((part, pool.submit(_run_driver, ctx, [enc_solve(cases[i][1], cases[i][2]) for i in part], f"t{k}")))
        for k in range(NPROC):  # the long runs are the model's most expensive lines: dealt round-robin to their own processes
            part = lidx[k::NPROC]
            tfut.append((part, pool.submit(_run_driver, ctx, [enc_solve(cases[i][1], cases[i][2]) for i in part], f"l{k}")))
        # sequence calls on matrices the model follows exactly (or refuses)
        smask = [(not valid_input(a)) or is_exact(a) for calls in seqs for _, a, _ in calls]
        sfut = pool.submit(_run_driver, ctx, [enc_solve("R", a) for calls in seqs for _, a, _ in calls if (not valid_input(a)) or is_exact(a)], "s")
    done = {}
    # K cases first: their answers go to the certificate checker in one batch
    kidx, klines = [], []
    def hung():
        return out.distribution.get("hangs", 0) >= HANG_BUDGET

    for i, (tag, op, arr) in enumerate(cases):
        if op == "K" and not hung():
            done[i] = impl_phase(ctx, out, tag, op, arr)
            if cert_ready(arr, done[i][0]):
                kidx.append(i)
                klines.append(enc_cert(arr, done[i][0][2], done[i][0][3], done[i][0][4]))
    kfut = pool.submit(_run_driver, ctx, klines, "k") if ctx.model_available else None
    for i, (tag, op, arr) in enumerate(cases):
        if op != "K" and not hung():
            res, ci = impl_phase(ctx, out, tag, op, arr)
            done[i] = (res if op != "T" else (res[0],), ci)  # traces are kept only in canonical form
    extreme_phase(ctx, out)
    forms_phase(ctx, out)
    exact_phase(ctx, out)
    seqlog = seq_phase(ctx, out, seqs, hung)
    model = {}
    for part, f in tfut:
        for i, l in zip(part, f.result()):
            model[i] = l
    cert = dict(zip(kidx, kfut.result())) if kfut is not None else {}
    if sfut is not None:
        it = iter(sfut.result())
        seq_diff(out, seqlog, [next(it) if ex else None for ex in smask][:len(seqlog)])
    pool.shutdown()
    if hung():
        out.notes.append(f"stream cut short after {HANG_BUDGET} non-terminating calls: {len(done)} of {len(cases)} cases evaluated")
    for i, (tag, op, arr) in enumerate(cases):
        if i not in done:
            continue
        res, ci = done[i]
        cert_phase(out, op, arr, res, ci, cert.get(i))
        diff_phase(out, tag, op, arr, res, ci, model.get(i))
    src_flush(out)
    # the model must certify its own answers (so that solveChecked = solve on everything explored)
    nocert = [i for i, l in model.items() if l.startswith("ok|") and l.split("|")[4] != "1"]
    out.count("model_answers_not_certified", len(nocert))
    if nocert:
        i = nocert[0]
        out.notes.append(f"{len(nocert)} model answers failed certOK (solveChecked would return notCertified)")
        out.mismatches.append(Finding("model-not-certified", {"matrix": case_json(cases[i][2]), "op": cases[i][1]}, observed=model[i][:500],
                                      detail="the Lean Munkres model's own answer fails the proved certificate"))
    # report the smallest failing input first
    def _sz(f):
        sh = f.case.get("matrix", {}).get("shape", []) if isinstance(f.case, dict) else []
        return int(np.prod(sh)) if sh else 0

    out.violations.sort(key=_sz)
    out.mismatches.sort(key=_sz)
    if out.violations and isinstance(out.violations[0].case, dict) and out.violations[0].case.get("op") == "S":
        _shorten_history(out.violations[0])
    out.exhaustive = False
    out.notes.append("exhaustive: all n x m (0<=n,m<=3) over {0,1,2} and all 65536 4x4 0/1 matrices with full step traces; the rest sampled from VERIF_SEED")
    d = out.distribution
    out.notes.append("long runs (block:longrun:*): {} structured matrices up to 40x40; over all blocks {} answers took more than 10 step calls per row+column, {} more than 15 "
                     "(random matrices need about 1-2)".format(sum(v for k_, v in d.items() if k_.startswith("block:longrun")),
                                                             d.get("steps/(n+m):<=15", 0) + d.get("steps/(n+m):>15", 0), d.get("steps/(n+m):>15", 0)))
    out.notes.append("call sequences (seq:*): {} sequences, {} index-only and {} return_cost calls issued in order on the live module, each answer judged on its own; "
                     "{} index-only calls directly followed an index-only call of the same or transposed shape with another dtype class".format(
                         d.get("seq:sequences", 0), d.get("seq:call:index-only", 0), d.get("seq:call:return_cost", 0),
                         sum(1 for k_ in out.distinct if isinstance(k_, str) and k_.startswith("seq"))))
    return out


def replay(ctx: Ctx, case) -> Outcome:
    out = Outcome()
    if case.get("op") == "S":
        keep, rc, res, ci, verdicts = _seq_replay_verdicts(case)
        out.evaluations += 1 + len(case.get("history", []))
        hist = tuple((case_array(h["matrix"]), bool(h["return_cost"])) for h in case.get("history", []))
        for k_, msg in verdicts:
            out.violations.append(Finding(k_, _seq_case(hist, keep, rc), observed=ci[:2000], detail=msg))
        if ctx.model_available and ((not valid_input(keep)) or is_exact(keep)):
            seq_diff(out, [(hist, keep, rc, (res[0],), ci)], _run_driver(ctx, [enc_solve("R", keep)], "r"))
        return out
    arr = case_array(case["matrix"])
    op = case.get("op", "T")
    if op == "X":
        res = call_impl(in_form(arr, case.get("form", "plain")), full=False, limit=120.0)
        res_idx = call_impl(in_form(arr, case.get("form", "plain")), full=False, limit=120.0, return_cost=False)
        out.evaluations += 2
        for kind, msg in oracle_exact(arr, res, res_idx):
            out.violations.append(Finding(kind, {"matrix": case_json(arr), "op": "X"}, observed=canon_impl(res, full=False)[:2000], detail=msg))
        return out
    if op == "F":
        keep = arr.copy()
        res = call_impl(arr, full=True, limit=30.0)
        out.evaluations += 1
        w = work_dtype(keep)
        line = _run_driver(ctx, [enc_float(keep)], "r")[0] if ctx.model_available else None
        f = line.rpartition("@")[2].split("|") if line is not None else []
        inside = (len(f) == 5 and "1" in f[2:4]) or (line is None and is_exact(keep))
        tag = ("inexact:" if inside else "above:") + w
        res_idx = call_impl(keep.copy(), full=False, limit=30.0, return_cost=False) if inside else None
        exact_judge(out, tag, keep, canon_impl(res, full=True), res, res_idx, line)
        src_flush(out)
        return out
    res, ci = impl_phase(ctx, out, "replay", op, arr)
    model_line = cert_line = None
    if ctx.model_available:
        if op in ("T", "R"):
            model_line = _run_driver(ctx, [enc_solve(op, arr)], "r")[0]
        elif cert_ready(arr, res):
            cert_line = _run_driver(ctx, [enc_cert(arr, res[2], res[3], res[4])], "r")[0]
    cert_phase(out, op, arr, res, ci, cert_line)
    diff_phase(out, "replay", op, arr, res, ci, model_line)
    src_flush(out)
    return out


if __name__ == "__main__":
    # fresh-process evaluation of one sequence case (used to shorten the recorded history): case JSON on stdin -> kinds on stdout
    import json
    import sys

    print(json.dumps(sorted({k_ for k_, _ in _seq_replay_verdicts(json.loads(sys.stdin.read()))[4]})))
