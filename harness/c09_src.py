"""C09 — source translator for the key routing of the two schema translators the hand model Model/MolSchema.lean follows.

Reads by python `ast` (never by importing):
  qcelemental/molparse/to_schema.py     to_schema: the geometry copy, the unit chain, `nat`, `name`, the `dtype in [...]` branch
                                        (every `molecule[...] = ...` statement and guard, the dtype 1 / 2 layouts), the final
                                        `else: raise`, `if not np_out: ... unnp(...)`
  qcelemental/molparse/from_schema.py   from_schema: the schema_name / schema_version chain, the fragment pattern, every keyword of
                                        the contiguize_from_fragment_pattern and from_arrays calls, the provenance stamp
  qcelemental/models/molecule.py        _filter_defaults: every statement (pops, guards, what each guard compares)
and emits them as terms of the small syntax of lean/QcelVerif/Model/MolSchemaAst.lean (evaluators there and in Model/MolDictAst.lean) into
lean/QcelVerif/Gen/MolSchemaSrc.lean.  Props/C09Src.lean and Props/C09SrcFilter.lean prove that the generic evaluators at these terms equal the hand models
for ALL records / dictionaries.

Only the syntax tree is read.  STATEMENT ORDER, BRANCH ORDER and every key string of the regions ARE translated; a shape outside
the small syntax raises MolSchemaSrcError (reported by run.py as a broken obligation) and leaves an inert Gen/MolSchemaSrc.lean with
`translationOk := false`, which also breaks Props/C09Src.lean.  NOT translated: the `dtype == "psi4"` branch of to_schema (outside
C09), the body of contiguize_from_fragment_pattern (stays the hand model), messages of the exceptions.
"""
from __future__ import annotations

import ast as A
import json


class MolSchemaSrcError(ValueError):
    pass


def _fail(where, node=None, why=""):
    src = ""
    if node is not None:
        try:
            src = A.unparse(node)
        except Exception:  # noqa
            src = A.dump(node)
        src = f" at line {getattr(node, 'lineno', '?')}: `{src[:160]}`"
    raise MolSchemaSrcError(f"{where}: shape outside the translated syntax{src}" + (f" ({why})" if why else ""))


def q(s: str) -> str:
    if not isinstance(s, str) or not s.isascii() or not s.isprintable():
        raise MolSchemaSrcError(f"string literal outside printable ASCII: {s!r}")
    return json.dumps(s)


def _lean_int(v: int) -> str:
    return str(v) if v >= 0 else f"({v})"


def _body(fn):
    b = list(fn.body)
    if b and isinstance(b[0], A.Expr) and isinstance(b[0].value, A.Constant) and isinstance(b[0].value.value, str):
        b = b[1:]
    return b


def _is_name(n, name=None):
    return isinstance(n, A.Name) and (name is None or n.id == name)


def _str(n):
    return n.value if isinstance(n, A.Constant) and type(n.value) is str else None


def _int(n):
    return n.value if isinstance(n, A.Constant) and type(n.value) is int else None


def _sub(n, var):
    """var["k"] -> k"""
    if isinstance(n, A.Subscript) and _is_name(n.value, var) and _str(n.slice) is not None:
        return _str(n.slice)
    return None


def _func(tree, name):
    fs = [n for n in tree.body if isinstance(n, A.FunctionDef) and n.name == name]
    if len(fs) != 1:
        _fail(name, why="module-level def not found exactly once")
    return fs[0]


def _is_raise(st, exc="ValidationError"):
    if not (isinstance(st, A.Raise) and st.exc is not None):
        return False
    e = st.exc.func if isinstance(st.exc, A.Call) else st.exc
    return _is_name(e, exc)


def _empty_dict_init(st, var):
    tgt = st.target if isinstance(st, A.AnnAssign) else (st.targets[0] if isinstance(st, A.Assign) and len(st.targets) == 1 else None)
    return tgt is not None and _is_name(tgt, var) and isinstance(st.value, A.Dict) and not st.value.keys


def _np_call(n, attr):
    return isinstance(n, A.Call) and isinstance(n.func, A.Attribute) and n.func.attr == attr and _is_name(n.func.value) and n.func.value.id in ("np", "numpy")


# ---------------------------------------------------------------------------------------------- to_schema

W = "to_schema"


def _copy_arg(call):
    """keywords of np.array(x, copy=...) -> CopyArg term"""
    if len(call.args) != 1:
        _fail(W, call, "np.array takes one positional argument here")
    kws = {k.arg: k.value for k in call.keywords}
    if set(kws) - {"copy"}:
        _fail(W, call, "np.array keyword other than copy")
    if "copy" not in kws:
        return "(.lit true)"
    c = kws["copy"]
    if _is_name(c, "copy"):
        return ".param"
    if isinstance(c, A.Constant) and type(c.value) is bool:
        return f"(.lit {'true' if c.value else 'false'})"
    _fail(W, call, "copy= is neither the parameter `copy` nor a bool literal")


def _unit_atom(t):
    if isinstance(t, A.Compare) and len(t.ops) == 1:
        l, r = t.left, t.comparators[0]
        if isinstance(t.ops[0], A.Eq) and _str(r) is not None:
            if _sub(l, "molrec") is not None:
                return f".recKeyEq {q(_sub(l, 'molrec'))} {q(_str(r))}"
            if _is_name(l, "units"):
                return f".outUnits {q(_str(r))}"
        if isinstance(t.ops[0], A.In) and _str(l) is not None and _is_name(r, "molrec"):
            return f".hasKey {q(_str(l))}"
    _fail(W, t, 'unit test atom outside molrec[k] == "s" / units == "s" / "k" in molrec')


def _factor(e):
    k = _sub(e, "molrec")
    if k is not None:
        return f"(.recKey {q(k)})"
    if (isinstance(e, A.Call) and isinstance(e.func, A.Attribute) and e.func.attr == "conversion_factor" and _is_name(e.func.value, "constants")
            and len(e.args) == 2 and not e.keywords and _sub(e.args[0], "molrec") is not None and _is_name(e.args[1], "units")):
        return f"(.convFactor {q(_sub(e.args[0], 'molrec'))})"
    _fail(W, e, "factor outside molrec[k] / constants.conversion_factor(molrec[k], units)")


def _unit_act(body):
    if len(body) != 1:
        _fail(W, body[0] if body else None, "one statement per unit branch expected")
    st = body[0]
    if isinstance(st, A.Pass):
        return ".pass"
    if isinstance(st, A.Assign) and len(st.targets) == 1 and _is_name(st.targets[0], "geom") and isinstance(st.value, A.BinOp) \
            and isinstance(st.value.op, A.Mult) and _is_name(st.value.left, "geom"):
        return f".scale false {_factor(st.value.right)}"
    if isinstance(st, A.AugAssign) and _is_name(st.target, "geom") and isinstance(st.op, A.Mult):
        return f".scale true {_factor(st.value)}"
    _fail(W, st, "unit action outside pass / geom = geom * f / geom *= f")


def _rhs(e):
    if isinstance(e, A.Constant) and type(e.value) is bool:
        return f"(.constBool {'true' if e.value else 'false'})"
    if _is_name(e, "geom"):
        return ".geomVar"
    if _is_name(e, "name"):
        return ".nameVar"
    k = _sub(e, "molrec")
    if k is not None:
        return f"(.raw {q(k)})"
    if _np_call(e, "array") and e.args and _sub(e.args[0], "molrec") is not None:
        return f"(.arr {q(_sub(e.args[0], 'molrec'))} {_copy_arg(e)})"
    if isinstance(e, A.Call) and _is_name(e.func, "deepcopy") and len(e.args) == 1 and not e.keywords and _sub(e.args[0], "molrec") is not None:
        return f"(.deepcopy {q(_sub(e.args[0], 'molrec'))})"
    if (isinstance(e, A.Call) and isinstance(e.func, A.Attribute) and e.func.attr == "tolist" and not e.args and not e.keywords
            and _np_call(e.func.value, "array") and len(e.func.value.args) == 1 and not e.func.value.keywords
            and _sub(e.func.value.args[0], "molrec") is not None):
        return f"(.tolist {q(_sub(e.func.value.args[0], 'molrec'))})"
    _fail(W, e, "right-hand side outside the translated forms")


def _mol_assign(st):
    """molecule["k"] = rhs -> (k, rhs node)"""
    if isinstance(st, A.Assign) and len(st.targets) == 1 and _sub(st.targets[0], "molecule") is not None:
        return _sub(st.targets[0], "molecule"), st.value
    return None


def _entries(d):
    if not isinstance(d, A.Dict):
        _fail(W, d, "dict literal expected")
    out = []
    for k, v in zip(d.keys, d.values):
        if k is None:
            _fail(W, d, "** in dict literal")
        if _str(k) is not None:
            ke = f".lit {q(_str(k))}"
        elif isinstance(k, A.IfExp) and _is_name(k.test, "np_out") and _str(k.body) is not None and _str(k.orelse) is not None:
            ke = f".ifNpOut {q(_str(k.body))} {q(_str(k.orelse))}"
        else:
            _fail(W, k, "dict key outside a string literal / (a if np_out else b)")
        if _str(v) is not None:
            ve = f".str {q(_str(v))}"
        elif _int(v) is not None:
            ve = f".int {_lean_int(_int(v))}"
        elif _is_name(v, "molecule"):
            ve = ".molecule"
        else:
            _fail(W, v, "dict value outside str / int literal / molecule")
        out.append(f"({ke}, {ve})")
    return "[" + ", ".join(out) + "]"


def _dtype_eq(t):
    if isinstance(t, A.Compare) and len(t.ops) == 1 and isinstance(t.ops[0], A.Eq) and _is_name(t.left, "dtype") and _int(t.comparators[0]) is not None:
        return _int(t.comparators[0])
    return None


def tr_to_schema(tree):
    fn = _func(tree, "to_schema")
    a = fn.args
    if [x.arg for x in a.args] != ["molrec", "dtype", "units"] or [x.arg for x in a.kwonlyargs] != ["np_out", "copy"] or a.vararg or a.kwarg:
        _fail(W, why="signature is not (molrec, dtype, units, *, np_out, copy)")
    if len(a.defaults) != 1 or _str(a.defaults[0]) is None:
        _fail(W, why="default of units is not a string literal")
    body = _body(fn)
    if body and _empty_dict_init(body[0], "qcschema"):
        body = body[1:]
    if len(body) != 7:
        _fail(W, fn if not body else body[0], f"expected 7 top-level statements after `qcschema = {{}}`, found {len(body)}")
    s_geom, s_units, s_nat, s_name, s_dtype, s_unnp, s_ret = body
    # geom = np.array(molrec["geom"], copy=copy)
    if not (isinstance(s_geom, A.Assign) and len(s_geom.targets) == 1 and _is_name(s_geom.targets[0], "geom") and _np_call(s_geom.value, "array")
            and s_geom.value.args and _sub(s_geom.value.args[0], "molrec") is not None):
        _fail(W, s_geom, "expected geom = np.array(molrec[k], copy=...)")
    geom_key, geom_copy = _sub(s_geom.value.args[0], "molrec"), _copy_arg(s_geom.value)
    # unit chain
    chain, node = [], s_units
    if not isinstance(node, A.If):
        _fail(W, node, "expected the if/elif/else unit chain")
    while True:
        t = node.test
        atoms = [_unit_atom(x) for x in t.values] if isinstance(t, A.BoolOp) and isinstance(t.op, A.And) else [_unit_atom(t)]
        chain.append(f"{{ test := [{', '.join(atoms)}], act := {_unit_act(node.body)} }}")
        if len(node.orelse) == 1 and isinstance(node.orelse[0], A.If):
            node = node.orelse[0]
            continue
        if not node.orelse:
            _fail(W, node, "unit chain without else")
        unit_else = _unit_act(node.orelse)
        break
    # nat = geom.shape[0] // 3
    v = s_nat.value if isinstance(s_nat, A.Assign) and len(s_nat.targets) == 1 and _is_name(s_nat.targets[0], "nat") else None
    if not (isinstance(v, A.BinOp) and isinstance(v.op, A.FloorDiv) and _int(v.right) is not None and _int(v.right) > 0 and isinstance(v.left, A.Subscript)
            and _int(v.left.slice) == 0 and isinstance(v.left.value, A.Attribute) and v.left.value.attr == "shape" and _is_name(v.left.value.value, "geom")):
        _fail(W, s_nat, "expected nat = geom.shape[0] // <int>")
    nat_div = _int(v.right)
    # name = molrec.get("name", formula_generator(molrec["elem"]))
    v = s_name.value if isinstance(s_name, A.Assign) and len(s_name.targets) == 1 and _is_name(s_name.targets[0], "name") else None
    if not (isinstance(v, A.Call) and isinstance(v.func, A.Attribute) and v.func.attr == "get" and _is_name(v.func.value, "molrec") and len(v.args) == 2
            and not v.keywords and _str(v.args[0]) is not None and isinstance(v.args[1], A.Call) and _is_name(v.args[1].func, "formula_generator")
            and len(v.args[1].args) == 1 and not v.args[1].keywords and _sub(v.args[1].args[0], "molrec") is not None):
        _fail(W, s_name, "expected name = molrec.get(k, formula_generator(molrec[k2]))")
    name_key, fg_key = _str(v.args[0]), _sub(v.args[1].args[0], "molrec")
    # dtype chain: if dtype == "psi4": ... elif dtype in [..]: ... else: raise
    if not (isinstance(s_dtype, A.If) and isinstance(s_dtype.test, A.Compare) and _is_name(s_dtype.test.left, "dtype") and len(s_dtype.test.ops) == 1
            and isinstance(s_dtype.test.ops[0], A.Eq) and _str(s_dtype.test.comparators[0]) is not None
            and len(s_dtype.orelse) == 1 and isinstance(s_dtype.orelse[0], A.If)):
        _fail(W, s_dtype, 'expected if dtype == "<str>": ... elif dtype in [...]: ... else: ...')
    br = s_dtype.orelse[0]
    t = br.test
    if not (isinstance(t, A.Compare) and _is_name(t.left, "dtype") and len(t.ops) == 1 and isinstance(t.ops[0], A.In) and isinstance(t.comparators[0], (A.List, A.Tuple))
            and all(_int(e) is not None for e in t.comparators[0].elts)):
        _fail(W, t, "expected dtype in [<int>, ...]")
    dtypes = [_int(e) for e in t.comparators[0].elts]
    else_raises = len(br.orelse) == 1 and _is_raise(br.orelse[0])
    if br.orelse and not else_raises:
        _fail(W, br.orelse[0], "expected else: raise ValidationError(...)")
    stmts = list(br.body)
    # if units != "Bohr": raise
    g = stmts[0] if stmts else None
    if not (isinstance(g, A.If) and not g.orelse and len(g.body) == 1 and _is_raise(g.body[0]) and isinstance(g.test, A.Compare) and _is_name(g.test.left, "units")
            and len(g.test.ops) == 1 and isinstance(g.test.ops[0], A.NotEq) and _str(g.test.comparators[0]) is not None):
        _fail(W, g, 'expected if units != "<str>": raise ValidationError(...)')
    units_guard = _str(g.test.comparators[0])
    if not (len(stmts) >= 3 and _empty_dict_init(stmts[1], "molecule")):
        _fail(W, stmts[1] if len(stmts) > 1 else None, "expected molecule = {}")
    last = stmts[-1]
    ms, i, mid = [], 0, stmts[2:-1]
    while i < len(mid):
        st = mid[i]
        ma = _mol_assign(st)
        if ma is not None:
            ms.append(f".set {q(ma[0])} {_rhs(ma[1])}")
            i += 1
            continue
        if isinstance(st, A.If) and not st.orelse and len(st.body) == 1 and _mol_assign(st.body[0]) is not None and isinstance(st.test, A.Compare) \
                and len(st.test.ops) == 1 and isinstance(st.test.ops[0], A.In) and _str(st.test.left) is not None and _is_name(st.test.comparators[0], "molrec"):
            k, r = _mol_assign(st.body[0])
            ms.append(f".setIfIn {q(_str(st.test.left))} {q(k)} {_rhs(r)}")
            i += 1
            continue
        # fidx = np.split(np.arange(nat), molrec[k]); molecule[k2] = [fr.tolist() for fr in fidx]
        if isinstance(st, A.Assign) and len(st.targets) == 1 and _is_name(st.targets[0]) and _np_call(st.value, "split") and len(st.value.args) == 2 \
                and not st.value.keywords and _np_call(st.value.args[0], "arange") and len(st.value.args[0].args) == 1 and not st.value.args[0].keywords \
                and _is_name(st.value.args[0].args[0], "nat") and _sub(st.value.args[1], "molrec") is not None and i + 1 < len(mid):
            var, nxt = st.targets[0].id, _mol_assign(mid[i + 1])
            lc = nxt[1] if nxt else None
            if (isinstance(lc, A.ListComp) and len(lc.generators) == 1 and not lc.generators[0].ifs and _is_name(lc.generators[0].iter, var)
                    and _is_name(lc.generators[0].target) and isinstance(lc.elt, A.Call) and isinstance(lc.elt.func, A.Attribute) and lc.elt.func.attr == "tolist"
                    and not lc.elt.args and not lc.elt.keywords and _is_name(lc.elt.func.value, lc.generators[0].target.id)):
                ms.append(f".set {q(nxt[0])} (.splitArange {q(_sub(st.value.args[1], 'molrec'))})")
                i += 2
                continue
        _fail(W, st, "statement of the molecule block outside the translated forms")
    # if dtype == 1: qcschema = {...} elif dtype == 2: qcschema = molecule; qcschema.update({...})
    shapes, node = [], last
    while True:
        if not (isinstance(node, A.If) and _dtype_eq(node.test) is not None):
            _fail(W, node, "expected if dtype == <int>: ... elif dtype == <int>: ...")
        b = node.body
        if len(b) == 1 and isinstance(b[0], A.Assign) and len(b[0].targets) == 1 and _is_name(b[0].targets[0], "qcschema") and isinstance(b[0].value, A.Dict):
            shapes.append(f"({_lean_int(_dtype_eq(node.test))}, .fresh {_entries(b[0].value)})")
        elif (len(b) == 2 and isinstance(b[0], A.Assign) and len(b[0].targets) == 1 and _is_name(b[0].targets[0], "qcschema") and _is_name(b[0].value, "molecule")
              and isinstance(b[1], A.Expr) and isinstance(b[1].value, A.Call) and isinstance(b[1].value.func, A.Attribute) and b[1].value.func.attr == "update"
              and _is_name(b[1].value.func.value, "qcschema") and len(b[1].value.args) == 1 and not b[1].value.keywords):
            shapes.append(f"({_lean_int(_dtype_eq(node.test))}, .update {_entries(b[1].value.args[0])})")
        else:
            _fail(W, node, "layout outside qcschema = {...} / qcschema = molecule; qcschema.update({...})")
        if not node.orelse:
            break
        if len(node.orelse) == 1 and isinstance(node.orelse[0], A.If):
            node = node.orelse[0]
            continue
        _fail(W, node, "else branch in the dtype layout chain")
    # if not np_out: qcschema = unnp(qcschema)
    unnp = (isinstance(s_unnp, A.If) and not s_unnp.orelse and isinstance(s_unnp.test, A.UnaryOp) and isinstance(s_unnp.test.op, A.Not) and _is_name(s_unnp.test.operand, "np_out")
            and len(s_unnp.body) == 1 and isinstance(s_unnp.body[0], A.Assign) and len(s_unnp.body[0].targets) == 1 and _is_name(s_unnp.body[0].targets[0], "qcschema")
            and isinstance(s_unnp.body[0].value, A.Call) and _is_name(s_unnp.body[0].value.func, "unnp") and len(s_unnp.body[0].value.args) == 1
            and not s_unnp.body[0].value.keywords and _is_name(s_unnp.body[0].value.args[0], "qcschema"))
    if not unnp:
        _fail(W, s_unnp, "expected if not np_out: qcschema = unnp(qcschema)")
    if not (isinstance(s_ret, A.Return) and _is_name(s_ret.value, "qcschema")):
        _fail(W, s_ret, "expected return qcschema")
    return ("  { geomKey := " + q(geom_key) + ",\n    geomCopy := " + geom_copy + ",\n    unitChain := [\n      " + ",\n      ".join(chain) + "],\n"
            f"    unitElse := {unit_else},\n    natDiv := {nat_div},\n    nameKey := {q(name_key)},\n    fgKey := {q(fg_key)},\n"
            f"    dtypes := [{', '.join(_lean_int(d) for d in dtypes)}],\n    unitsGuard := {q(units_guard)},\n"
            "    stmts := [\n      " + ",\n      ".join(ms) + "],\n    shapes := [\n      " + ",\n      ".join(shapes) + "],\n"
            f"    elseRaises := {'true' if else_raises else 'false'},\n    unnpUnlessNpOut := true }}")


# ---------------------------------------------------------------------------------------------- from_schema

F = "from_schema"


def _get_call(e, var, default_check=None):
    """var.get("k", <default>) -> (k, default node)"""
    if isinstance(e, A.Call) and isinstance(e.func, A.Attribute) and e.func.attr == "get" and _is_name(e.func.value, var) and len(e.args) == 2 \
            and not e.keywords and _str(e.args[0]) is not None:
        return _str(e.args[0]), e.args[1]
    return None


def _is_none(n):
    return isinstance(n, A.Constant) and n.value is None


def _startswith(e):
    if isinstance(e, A.Call) and isinstance(e.func, A.Attribute) and e.func.attr == "startswith" and len(e.args) == 1 and not e.keywords and _str(e.args[0]) is not None:
        g = _get_call(e.func.value, "molschema")
        if g and g[0] == "schema_name" and _str(g[1]) == "":
            return _str(e.args[0])
    _fail(F, e, 'expected molschema.get("schema_name", "").startswith("<str>")')


def tr_from_schema(tree):
    fn = _func(tree, "from_schema")
    a = fn.args
    if [x.arg for x in a.args] != ["molschema"] or a.vararg or a.kwarg:
        _fail(F, why="signature is not (molschema, *, ...)")
    params = [x.arg for x in a.kwonlyargs]
    body = _body(fn)
    if len(body) != 6:
        _fail(F, fn, f"expected 6 top-level statements, found {len(body)}")
    s_sniff, s_pat, s_dc, s_fa, s_stamp, s_ret = body
    sniff, node = [], s_sniff
    while True:
        if not (isinstance(node, A.If) and isinstance(node.test, A.BoolOp) and isinstance(node.test.op, A.And) and len(node.test.values) == 2):
            _fail(F, node, "expected if <name test> and <version test>:")
        nt, vt = node.test.values
        prefixes = [_startswith(x) for x in nt.values] if isinstance(nt, A.BoolOp) and isinstance(nt.op, A.Or) else [_startswith(nt)]
        g = _get_call(vt.left, "molschema") if isinstance(vt, A.Compare) and len(vt.ops) == 1 and isinstance(vt.ops[0], A.Eq) else None
        if not (g and g[0] == "schema_version" and _str(g[1]) == "" and _int(vt.comparators[0]) is not None):
            _fail(F, vt, 'expected molschema.get("schema_version", "") == <int>')
        b = node.body
        if not (len(b) == 1 and isinstance(b[0], A.Assign) and len(b[0].targets) == 1 and _is_name(b[0].targets[0], "ms")):
            _fail(F, node, "expected ms = ...")
        if _is_name(b[0].value, "molschema"):
            nest = "none"
        elif _sub(b[0].value, "molschema") is not None:
            nest = f"some {q(_sub(b[0].value, 'molschema'))}"
        else:
            _fail(F, b[0], "expected ms = molschema / ms = molschema[k]")
        sniff.append(f"{{ prefixes := [{', '.join(q(p) for p in prefixes)}], version := {_lean_int(_int(vt.comparators[0]))}, nest := {nest} }}")
        if len(node.orelse) == 1 and isinstance(node.orelse[0], A.If):
            node = node.orelse[0]
            continue
        else_raises = len(node.orelse) == 1 and _is_raise(node.orelse[0])
        if node.orelse and not else_raises:
            _fail(F, node.orelse[0], "expected else: raise ValidationError(...)")
        break
    # if "fragments" in ms: frag_pattern = ms["fragments"] else: frag_pattern = [np.arange(len(ms["symbols"]))]
    ok = (isinstance(s_pat, A.If) and isinstance(s_pat.test, A.Compare) and len(s_pat.test.ops) == 1 and isinstance(s_pat.test.ops[0], A.In) and _str(s_pat.test.left) is not None
          and _is_name(s_pat.test.comparators[0], "ms") and len(s_pat.body) == 1 and len(s_pat.orelse) == 1)
    if ok:
        b, e = s_pat.body[0], s_pat.orelse[0]
        ok = (isinstance(b, A.Assign) and len(b.targets) == 1 and _is_name(b.targets[0], "frag_pattern") and _sub(b.value, "ms") == _str(s_pat.test.left)
              and isinstance(e, A.Assign) and len(e.targets) == 1 and _is_name(e.targets[0], "frag_pattern") and isinstance(e.value, A.List) and len(e.value.elts) == 1)
    if ok:
        ar = e.value.elts[0]
        ok = (_np_call(ar, "arange") and len(ar.args) == 1 and not ar.keywords and isinstance(ar.args[0], A.Call) and _is_name(ar.args[0].func, "len")
              and len(ar.args[0].args) == 1 and _sub(ar.args[0].args[0], "ms") is not None)
    if not ok:
        _fail(F, s_pat, 'expected if k in ms: frag_pattern = ms[k] else: frag_pattern = [np.arange(len(ms[k2]))]')
    frag_key, len_key = _str(s_pat.test.left), _sub(ar.args[0].args[0], "ms")
    # dcontig = contiguize_from_fragment_pattern(frag_pattern, geom=ms[...], ..., throw_reorder=True)
    c = s_dc.value if isinstance(s_dc, A.Assign) and len(s_dc.targets) == 1 and _is_name(s_dc.targets[0], "dcontig") else None
    if not (isinstance(c, A.Call) and _is_name(c.func, "contiguize_from_fragment_pattern") and len(c.args) == 1 and _is_name(c.args[0], "frag_pattern")):
        _fail(F, s_dc, "expected dcontig = contiguize_from_fragment_pattern(frag_pattern, ...)")
    cargs, throw = [], "false"
    for kw in c.keywords:
        if kw.arg is None:
            _fail(F, c, "** in call")
        if kw.arg == "throw_reorder":
            if not (isinstance(kw.value, A.Constant) and type(kw.value.value) is bool):
                _fail(F, kw.value, "throw_reorder is not a bool literal")
            throw = "true" if kw.value.value else "false"
            continue
        k = _sub(kw.value, "ms")
        g = _get_call(kw.value, "ms")
        if k is not None:
            cargs.append(f"({q(kw.arg)}, .req {q(k)})")
        elif g and _is_none(g[1]):
            cargs.append(f"({q(kw.arg)}, .get {q(g[0])})")
        else:
            _fail(F, kw.value, "argument outside ms[k] / ms.get(k, None)")
    # molrec = from_arrays(...)
    c = s_fa.value if isinstance(s_fa, A.Assign) and len(s_fa.targets) == 1 and _is_name(s_fa.targets[0], "molrec") else None
    if not (isinstance(c, A.Call) and _is_name(c.func, "from_arrays") and not c.args):
        _fail(F, s_fa, "expected molrec = from_arrays(<keywords only>)")
    fargs = []
    for kw in c.keywords:
        if kw.arg is None:
            _fail(F, c, "** in call")
        v = kw.value
        k, g = _sub(v, "dcontig"), _get_call(v, "ms")
        if k is not None:
            t = f".dc {q(k)}"
        elif g and _is_none(g[1]):
            t = f".get {q(g[0])}"
        elif _str(v) is not None:
            t = f".strLit {q(_str(v))}"
        elif isinstance(v, A.Constant) and type(v.value) is bool:
            t = f".boolLit {'true' if v.value else 'false'}"
        elif _is_none(v):
            t = ".noneLit"
        elif _is_name(v) and v.id in params:
            t = f".param {q(v.id)}"
        else:
            _fail(F, v, "from_arrays argument outside dcontig[k] / ms.get(k, None) / literal / parameter")
        fargs.append(f"({q(kw.arg)}, {t})")
    # molrec["provenance"] = provenance_stamp(__name__)
    stamp = (isinstance(s_stamp, A.Assign) and len(s_stamp.targets) == 1 and _sub(s_stamp.targets[0], "molrec") == "provenance" and isinstance(s_stamp.value, A.Call)
             and _is_name(s_stamp.value.func, "provenance_stamp") and len(s_stamp.value.args) == 1 and _is_name(s_stamp.value.args[0], "__name__"))
    if not stamp:
        _fail(F, s_stamp, 'expected molrec["provenance"] = provenance_stamp(__name__)')
    if not (isinstance(s_ret, A.Return) and _is_name(s_ret.value, "molrec")):
        _fail(F, s_ret, "expected return molrec")

    def wrap(items, n=4):
        rows = [", ".join(items[i:i + n]) for i in range(0, len(items), n)]
        return "[" + ",\n      ".join(rows) + "]"

    return ("  { sniff := [\n      " + ",\n      ".join(sniff) + "],\n"
            f"    elseRaises := {'true' if else_raises else 'false'},\n    fragKey := {q(frag_key)},\n    lenKey := {q(len_key)},\n"
            f"    contigArgs := {wrap(cargs)},\n    throwReorder := {throw},\n    faArgs := {wrap(fargs)},\n    stampOverwrites := true }}")


# ---------------------------------------------------------------------------------------------- _filter_defaults

FD = "_filter_defaults"


def _pop(st):
    """dicary.pop("k") as a statement -> k"""
    if isinstance(st, A.Expr) and isinstance(st.value, A.Call) and isinstance(st.value.func, A.Attribute) and st.value.func.attr == "pop" \
            and _is_name(st.value.func.value, "dicary") and len(st.value.args) == 1 and not st.value.keywords and _str(st.value.args[0]) is not None:
        return _str(st.value.args[0])
    return None


def _fcond(t):
    # np.array_equal(default_mass, dicary[k])
    if _np_call(t, "array_equal") and len(t.args) == 2 and not t.keywords and _is_name(t.args[0], "default_mass") and _sub(t.args[1], "dicary") is not None:
        return f".massesEqualDefault {q(_sub(t.args[1], 'dicary'))}"
    # all(dicary[k])
    if isinstance(t, A.Call) and _is_name(t.func, "all") and len(t.args) == 1 and not t.keywords and _sub(t.args[0], "dicary") is not None:
        return f".allTrue {q(_sub(t.args[0], 'dicary'))}"
    if isinstance(t, A.Compare) and len(t.ops) == 1:
        l, r = t.left, t.comparators[0]
        # dicary[k].tolist() == nat * [""]
        if (isinstance(t.ops[0], A.Eq) and isinstance(l, A.Call) and isinstance(l.func, A.Attribute) and l.func.attr == "tolist" and not l.args and not l.keywords
                and _sub(l.func.value, "dicary") is not None and isinstance(r, A.BinOp) and isinstance(r.op, A.Mult) and _is_name(r.left, "nat")
                and isinstance(r.right, A.List) and len(r.right.elts) == 1 and _str(r.right.elts[0]) == ""):
            return f".allEmptyLabels {q(_sub(l.func.value, 'dicary'))}"
        # dicary.get(k, "N/A") is None
        g = _get_call(l, "dicary")
        if isinstance(t.ops[0], A.Is) and g and _str(g[1]) is not None and _is_none(r):
            return f".getIsNone {q(g[0])}"
        # dicary[k] == [list(np.arange(nat))]
        if (isinstance(t.ops[0], A.Eq) and _sub(l, "dicary") is not None and isinstance(r, A.List) and len(r.elts) == 1 and isinstance(r.elts[0], A.Call)
                and _is_name(r.elts[0].func, "list") and len(r.elts[0].args) == 1 and _np_call(r.elts[0].args[0], "arange") and len(r.elts[0].args[0].args) == 1
                and _is_name(r.elts[0].args[0].args[0], "nat")):
            return f".isSingleFragment {q(_sub(l, 'dicary'))}"
    _fail(FD, t, "condition outside the five translated forms")


def tr_filter_defaults(tree):
    fn = _func(tree, "_filter_defaults")
    if [x.arg for x in fn.args.args] != ["dicary"] or fn.args.kwonlyargs or fn.args.vararg or fn.args.kwarg:
        _fail(FD, why="signature is not (dicary)")
    body = _body(fn)
    if len(body) < 3:
        _fail(FD, fn, "body too short")
    s_nat, s_dm, s_ret = body[0], body[1], body[-1]
    v = s_nat.value if isinstance(s_nat, A.Assign) and len(s_nat.targets) == 1 and _is_name(s_nat.targets[0], "nat") else None
    if not (isinstance(v, A.Call) and _is_name(v.func, "len") and len(v.args) == 1 and _sub(v.args[0], "dicary") is not None):
        _fail(FD, s_nat, "expected nat = len(dicary[k])")
    nat_key = _sub(v.args[0], "dicary")
    v = s_dm.value if isinstance(s_dm, A.Assign) and len(s_dm.targets) == 1 and _is_name(s_dm.targets[0], "default_mass") else None
    lc = v.args[0] if _np_call(v, "array") and len(v.args) == 1 and not v.keywords else None
    if not (isinstance(lc, A.ListComp) and len(lc.generators) == 1 and not lc.generators[0].ifs and _is_name(lc.generators[0].target)
            and _sub(lc.generators[0].iter, "dicary") is not None and isinstance(lc.elt, A.Call) and isinstance(lc.elt.func, A.Attribute)
            and lc.elt.func.attr == "to_mass" and _is_name(lc.elt.func.value, "periodictable") and len(lc.elt.args) == 1 and not lc.elt.keywords
            and _is_name(lc.elt.args[0], lc.generators[0].target.id)):
        _fail(FD, s_dm, "expected default_mass = np.array([periodictable.to_mass(e) for e in dicary[k]])")
    sym_key = _sub(lc.generators[0].iter, "dicary")
    stmts = []
    for st in body[2:-1]:
        k = _pop(st)
        if k is not None:
            stmts.append(f".pop {q(k)}")
            continue
        if isinstance(st, A.If) and not st.orelse and st.body and all(_pop(b) is not None for b in st.body):
            stmts.append(f".ifPops ({_fcond(st.test)}) [{', '.join(q(_pop(b)) for b in st.body)}]")
            continue
        _fail(FD, st, "statement outside dicary.pop(k) / if <cond>: dicary.pop(k) ...")
    if not (isinstance(s_ret, A.Return) and _is_name(s_ret.value, "dicary")):
        _fail(FD, s_ret, "expected return dicary")
    return (f"  {{ natKey := {q(nat_key)},\n    massSymKey := {q(sym_key)},\n    stmts := [\n      " + ",\n      ".join(stmts) + "],\n    returnsArg := true }")


# ---------------------------------------------------------------------------------------------- emit

HEADER = ("import QcelVerif.Model.MolSchemaAst\n"
          "/-! GENERATED by harness/c09_src.py:gen_molschema_src from qcelemental/molparse/to_schema.py and qcelemental/molparse/from_schema.py "
          "and qcelemental/models/molecule.py (read by `ast`) — do not edit -/\n"
          "namespace QcelVerif.MolSchema.Gen\nopen QcelVerif.MolSchema.Src\n\n")

INERT = {
    "toSchemaFn": ("ToSchemaFn", '  { geomKey := "", geomCopy := .param, unitChain := [], unitElse := .pass, natDiv := 1, nameKey := "", fgKey := "", dtypes := [], '
                                 'unitsGuard := "", stmts := [], shapes := [], elseRaises := false, unnpUnlessNpOut := false }'),
    "fromSchemaFn": ("FromSchemaFn", '  { sniff := [], elseRaises := false, fragKey := "", lenKey := "", contigArgs := [], throwReorder := false, faArgs := [], '
                                     'stampOverwrites := false }'),
    "filterFn": ("FilterFn", '  { natKey := "", massSymKey := "", stmts := [], returnsArg := false }'),
}
DOC = {
    "toSchemaFn": "`to_schema` (to_schema.py), the `dtype in [...]` branch",
    "fromSchemaFn": "`from_schema` (from_schema.py) up to the `from_arrays` call",
    "filterFn": "`_filter_defaults` (models/molecule.py), statement by statement",
}
ORDER = ("toSchemaFn", "fromSchemaFn", "filterFn")


def translate(repo) -> dict:
    ts = A.parse((repo / "qcelemental" / "molparse" / "to_schema.py").read_text())
    fs = A.parse((repo / "qcelemental" / "molparse" / "from_schema.py").read_text())
    mo = A.parse((repo / "qcelemental" / "models" / "molecule.py").read_text())
    return {"toSchemaFn": tr_to_schema(ts), "fromSchemaFn": tr_from_schema(fs), "filterFn": tr_filter_defaults(mo)}


def render(terms: dict, ok: bool, note: str = "") -> str:
    out = [HEADER]
    if note:
        out.append("/- the source could NOT be translated:\n" + note.replace("-/", "- /") + "\n-/\n\n")
    out.append("/-- the translator recognised every region -/\n" + f"def translationOk : Bool := {'true' if ok else 'false'}\n\n")
    for name in ORDER:
        out.append(f"/-- {DOC[name]} -/\ndef {name} : {INERT[name][0]} :=\n{terms[name]}\n\n")
    out.append("end QcelVerif.MolSchema.Gen\n")
    return "".join(out)


def gen_molschema_src(ctx=None) -> None:
    import common

    gen = common.LEAN / "QcelVerif" / "Gen"
    gen.mkdir(exist_ok=True)
    f = gen / "MolSchemaSrc.lean"
    try:
        body = render(translate(common.REPO), True)
    except Exception as e:
        # never leave a stale term behind that could still satisfy Props/C09Src.lean: inert terms of the right types (the driver still
        # builds and reports `src-untranslated`), `translationOk := false` breaks the obligations together with the translator
        f.write_text(render({k: v[1] for k, v in INERT.items()}, False, f"{type(e).__name__}: {e}"))
        raise
    if not f.exists() or f.read_text() != body:
        f.write_text(body)
